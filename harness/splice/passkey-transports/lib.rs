#[cfg(kani)]
#[allow(unused, missing_docs)]
pub(crate) mod verif_model;
