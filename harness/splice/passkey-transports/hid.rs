#[cfg(kani)]
#[allow(unused, clippy::all)]
mod verif_proofs {
    //! Kani harnesses for CTAPHID framing (C15, C16); spliced into a scratch copy of hid.rs.
    use super::*;

    // ---------- helpers -------------------------------------------------------------------------

    fn any_command() -> Command {
        let k: u8 = kani::any();
        match k % 9 {
            0 => Command::Msg,
            1 => Command::Cbor,
            2 => Command::Init,
            3 => Command::Ping,
            4 => Command::Cancel,
            5 => Command::Err,
            6 => Command::KeepAlive,
            7 => Command::Wink,
            _ => Command::Lock,
        }
    }

    fn cmd_byte(c: Command) -> u8 {
        match c {
            Command::Msg => 0x03,
            Command::Cbor => 0x10,
            Command::Init => 0x06,
            Command::Ping => 0x01,
            Command::Cancel => 0x11,
            Command::Err => 0x3F,
            Command::KeepAlive => 0x3B,
            Command::Wink => 0x08,
            Command::Lock => 0x04,
        }
    }

    /// number of packets the specification needs for a payload of n bytes
    const fn n_packets(n: usize) -> usize {
        if n <= 57 {
            1
        } else {
            1 + (n - 57 + 58) / 59
        }
    }

    /// `io::Write` sink with a fixed buffer: records every write call
    struct Sink<const CAP: usize> {
        buf: [u8; CAP],
        pos: usize,
        writes: usize,
        all_64: bool,
    }

    impl<const CAP: usize> Sink<CAP> {
        fn new() -> Self {
            Self {
                buf: [0xAA; CAP],
                pos: 0,
                writes: 0,
                all_64: true,
            }
        }
    }

    impl<const CAP: usize> std::io::Write for Sink<CAP> {
        fn write(&mut self, b: &[u8]) -> std::io::Result<usize> {
            if b.len() != 64 {
                self.all_64 = false;
            }
            let mut i = 0;
            while i < b.len() && self.pos < CAP {
                self.buf[self.pos] = b[i];
                self.pos += 1;
                i += 1;
            }
            self.writes += 1;
            Ok(b.len())
        }
        fn flush(&mut self) -> std::io::Result<()> {
            Ok(())
        }
    }

    /// Reference wire image of packet `k` of message (ch, cmd, payload[..n]) written from the
    /// CTAPHID specification (independent of the implementation under test).
    fn ref_packet(ch: u32, cmd: u8, payload: &[u8], n: usize, k: usize) -> [u8; 64] {
        let mut p = [0u8; 64];
        let chb = ch.to_ne_bytes();
        p[0] = chb[0];
        p[1] = chb[1];
        p[2] = chb[2];
        p[3] = chb[3];
        if k == 0 {
            p[4] = 0x80 | cmd;
            p[5] = (n >> 8) as u8;
            p[6] = (n & 0xff) as u8;
            let mut i = 0;
            while i < 57 && i < n {
                p[7 + i] = payload[i];
                i += 1;
            }
        } else {
            p[4] = (k - 1) as u8;
            let start = 57 + 59 * (k - 1);
            let mut i = 0;
            while i < 59 && start + i < n {
                p[5 + i] = payload[start + i];
                i += 1;
            }
        }
        p
    }

    // ---------- C16: sender -> wire -> receiver, concrete length per instance ---------------------
    //
    // Cost note (measured): a *symbolic command byte or channel id that reaches the receiver's
    // control flow* (bit-7 test, command match, channel-table key compare) makes CBMC merge the
    // heap pointers of both branches and the run does not finish; payload bytes never influence
    // control flow.  The round trip is therefore decided in three overlapping pieces:
    //   sender_wire  : all channels, all commands, all payload bytes   -> wire image == specification
    //   header_parse : all channels, all commands, all declared lengths -> parsed header == specification
    //   e2e          : fixed channel (seed-selected) and command, all payload bytes:
    //                  real sender -> wire -> real ChannelHandler -> message
    //   receiver_any_channel : all channels, fixed command, Message-level init/extend without the table

    /// channel id used by the handler-level harnesses (substituted from VERIF_SEED at splice time)
    const CH0: u32 = 0x5EED_0000;
    const CH1: u32 = 0x5EED_0001;
    const CH2: u32 = 0x5EED_0002;

    /// Sender for payload length N (all channels, commands, contents): wire image == specification.
    fn sender_wire<const N: usize, const NP: usize>() {
        let ch: u32 = kani::any();
        let cmd = any_command();
        let payload: [u8; N] = kani::any();
        let msg = Message::new(ch, cmd, &payload).unwrap();
        let mut sink = PacketSink::<NP>::new();
        msg.send(&mut sink).unwrap();
        let np = n_packets(N);
        // exactly the needed number of packets, each exactly 64 bytes
        assert!(sink.writes == np);
        assert!(sink.all_64);
        // wire image equals the specification's layout (header, sequence numbers, zero padding)
        let mut k = 0;
        while k < np {
            let want = ref_packet(ch, cmd_byte(cmd), &payload, N, k);
            let mut i = 0;
            while i < 64 {
                assert!(sink.pkts[k][i] == want[i]);
                i += 1;
            }
            k += 1;
        }
        kani::cover!(true);
    }

    /// `io::Write` sink that keeps each written packet in its own 64-byte array
    struct PacketSink<const NP: usize> {
        pkts: [[u8; 64]; NP],
        writes: usize,
        all_64: bool,
    }

    impl<const NP: usize> PacketSink<NP> {
        fn new() -> Self {
            Self {
                pkts: [[0xAA; 64]; NP],
                writes: 0,
                all_64: true,
            }
        }
    }

    impl<const NP: usize> std::io::Write for PacketSink<NP> {
        fn write(&mut self, b: &[u8]) -> std::io::Result<usize> {
            if b.len() != 64 {
                self.all_64 = false;
            }
            if self.writes < NP {
                let mut i = 0;
                while i < b.len() && i < 64 {
                    self.pkts[self.writes][i] = b[i];
                    i += 1;
                }
            }
            self.writes += 1;
            Ok(b.len())
        }
        fn flush(&mut self) -> std::io::Result<()> {
            Ok(())
        }
    }

    /// Wire image (reference encoder) -> real ChannelHandler, fixed channel and command, all payload
    /// bytes.  Together with `sender_wire` (sender output == reference image, byte for byte) this is
    /// the sender -> receiver round trip; executing both halves in one CBMC run exhausts memory
    /// (65 GB at 58 bytes, measured), so the composition is by the shared reference image.
    fn handler_recv<const N: usize>() {
        let ch: u32 = CH0;
        let payload: [u8; N] = kani::any();
        let np = n_packets(N);
        let mut handler = ChannelHandler::default();
        let mut k = 0;
        while k < np {
            let pk = ref_packet(ch, 0x10, &payload, N, k);
            let got = handler.handle_packet(&pk);
            if k + 1 < np {
                assert!(got.is_none());
                assert!(handler.channels.len() == 1);
            } else {
                let m = got.unwrap();
                assert!(m.channel == ch);
                assert!(cmd_byte(m.command) == 0x10);
                assert!(m.payload_len == N);
                assert!(m.payload.len() == N);
                let mut i = 0;
                while i < N {
                    assert!(m.payload[i] == payload[i]);
                    i += 1;
                }
                assert!(handler.channels.len() == 0);
                kani::cover!(true);
                core::mem::forget(m);
            }
            k += 1;
        }
        core::mem::forget(handler);
    }

    /// Message-level receiver (no channel table): all channels, all payload bytes
    fn receiver_any_channel<const N: usize>() {
        let ch: u32 = kani::any();
        let payload: [u8; N] = kani::any();
        let np = n_packets(N);
        let p0 = ref_packet(ch, 0x10, &payload, N, 0);
        let (h, d) = PacketHeader::try_from(&p0).unwrap();
        let PacketHeader::Initialization(ih) = h else {
            panic!()
        };
        let mut m = Message::init(ih, d);
        assert!(m.channel == ch);
        let mut k = 1;
        while k < np {
            assert!(!m.is_complete());
            let pk = ref_packet(ch, 0x10, &payload, N, k);
            let (h, d) = PacketHeader::try_from(&pk).unwrap();
            let PacketHeader::Continuation(chd) = h else {
                panic!()
            };
            let done = m.extend(chd, d).unwrap();
            assert!(done == (k + 1 == np));
            k += 1;
        }
        assert!(m.is_complete());
        assert!(m.payload.len() == N);
        let mut i = 0;
        while i < N {
            assert!(m.payload[i] == payload[i]);
            i += 1;
        }
        kani::cover!(true);
        core::mem::forget(m);
    }

    macro_rules! sender_instance {
        ($name:ident, $n:expr, $unwind:expr) => {
            #[kani::proof]
            #[kani::unwind($unwind)]
            fn $name() {
                sender_wire::<{ $n }, { n_packets($n) }>();
            }
        };
    }
    macro_rules! handler_instance {
        ($name:ident, $n:expr, $unwind:expr) => {
            #[kani::proof]
            #[kani::unwind($unwind)]
            fn $name() {
                handler_recv::<{ $n }>();
            }
        };
    }
    macro_rules! recv_instance {
        ($name:ident, $n:expr, $unwind:expr) => {
            #[kani::proof]
            #[kani::unwind($unwind)]
            fn $name() {
                receiver_any_channel::<{ $n }>();
            }
        };
    }
    // unwind: longest loop is the payload compare / to_vec memcpy (N+1) or the 64-byte packet loop (65)
    sender_instance!(c16_sender_len_0, 0, 66);
    sender_instance!(c16_sender_len_1, 1, 66);
    sender_instance!(c16_sender_len_56, 56, 66);
    sender_instance!(c16_sender_len_57, 57, 66);
    sender_instance!(c16_sender_len_58, 58, 66);
    sender_instance!(c16_sender_len_114, 114, 116);
    sender_instance!(c16_sender_len_115, 115, 117);
    sender_instance!(c16_sender_len_116, 116, 118);
    sender_instance!(c16_sender_len_117, 117, 119);
    sender_instance!(c16_sender_len_175, 175, 177);
    handler_instance!(c16_handler_len_0, 0, 66);
    handler_instance!(c16_handler_len_1, 1, 66);
    handler_instance!(c16_handler_len_56, 56, 66);
    handler_instance!(c16_handler_len_57, 57, 66);
    handler_instance!(c16_handler_len_58, 58, 66);
    handler_instance!(c16_handler_len_115, 115, 117);
    handler_instance!(c16_handler_len_116, 116, 118);
    handler_instance!(c16_handler_len_117, 117, 119);
    handler_instance!(c16_handler_len_174, 174, 176);
    handler_instance!(c16_handler_len_175, 175, 177);
    handler_instance!(c16_handler_len_176, 176, 178);
    handler_instance!(c16_handler_len_234, 234, 236);
    handler_instance!(c16_handler_len_293, 293, 295);
    recv_instance!(c16_recv_len_0, 0, 66);
    recv_instance!(c16_recv_len_1, 1, 66);
    recv_instance!(c16_recv_len_56, 56, 66);
    recv_instance!(c16_recv_len_57, 57, 66);
    recv_instance!(c16_recv_len_58, 58, 66);
    recv_instance!(c16_recv_len_115, 115, 117);
    recv_instance!(c16_recv_len_116, 116, 118);

    #[kani::proof]
    #[kani::unwind(66)]
    fn c16_handler_twin() {
        handler_recv::<58>();
        assert!(false);
    }

    #[kani::proof]
    #[kani::unwind(66)]
    fn c16_sender_twin() {
        sender_wire::<58, 2>();
        assert!(false);
    }

    /// Header parse for every channel, command and declared length: the receiver reads back what
    /// the specification's init / continuation header carries (no heap involved).
    #[kani::proof]
    #[kani::unwind(66)]
    fn c16_header_parse_all() {
        let ch: u32 = kani::any();
        let cmd = any_command();
        let n: usize = kani::any();
        kani::assume(n <= 0xFFFF);
        let body: [u8; 57] = kani::any();
        let mut p = [0u8; 64];
        let chb = ch.to_ne_bytes();
        p[0] = chb[0];
        p[1] = chb[1];
        p[2] = chb[2];
        p[3] = chb[3];
        p[4] = 0x80 | cmd_byte(cmd);
        p[5] = (n >> 8) as u8;
        p[6] = (n & 0xff) as u8;
        let mut i = 0;
        while i < 57 {
            p[7 + i] = body[i];
            i += 1;
        }
        let (h, d) = PacketHeader::try_from(&p).unwrap();
        match h {
            PacketHeader::Initialization(ih) => {
                assert!(ih.channel == ch);
                assert!(cmd_byte(ih.command) == cmd_byte(cmd));
                assert!(ih.payload_len == n);
                assert!(d.len() == if n < 57 { n } else { 57 });
                kani::cover!(n == 0);
                kani::cover!(n == 7609);
                let probe: usize = kani::any();
                if probe < d.len() {
                    assert!(d[probe] == body[probe]);
                }
            }
            PacketHeader::Continuation(_) => assert!(false),
        }
        // continuation header: any sequence number 0..=127
        let seq: u8 = kani::any();
        kani::assume(seq < 0x80);
        p[4] = seq;
        let (h, d) = PacketHeader::try_from(&p).unwrap();
        match h {
            PacketHeader::Continuation(c) => {
                assert!(c.channel == ch && c.seq == seq);
                assert!(d.len() == 59);
                kani::cover!(seq == 127);
            }
            PacketHeader::Initialization(_) => assert!(false),
        }
    }

    /// Command byte mapping: the nine commands of the specification, encode sets bit 7
    #[kani::proof]
    fn c16_command_bytes() {
        let cmd = any_command();
        let b = cmd.encode();
        assert!(b == 0x80 | cmd_byte(cmd));
        let back = Command::try_from(b & 0x7f).unwrap();
        assert!(cmd_byte(back) == cmd_byte(cmd));
        let raw: u8 = kani::any();
        if let Ok(c) = Command::try_from(raw) {
            assert!(cmd_byte(c) == raw);
            kani::cover!(raw == 0x3B);
        }
    }

    // ---------- C16: Message::new size validation (pure arithmetic on the length) ----------------

    #[kani::proof]
    #[kani::unwind(2)]
    fn c16_new_size_validation() {
        let len: usize = kani::any();
        kani::assume(len <= 70_000);
        let data = vec![0u8; len];
        let ch: u32 = kani::any();
        let r = Message::new(ch, Command::Cbor, &data);
        match r {
            Ok(m) => {
                // nothing above the protocol maximum is accepted
                assert!(len <= 7609);
                assert!(m.payload_len == len);
                assert!(m.payload.len() == len);
                assert!(m.sequence == 0);
                // what is accepted needs at most 128 continuation packets: largest seq <= 127
                assert!(n_packets(len) <= 129);
                kani::cover!(len == 7608);
                kani::cover!(len == 0);
                core::mem::forget(m);
            }
            Err(_) => {
                // refusal only for messages that do not fit 1 + 128 packets of the protocol, or sit
                // exactly on the boundary (7609 is refused by the current arithmetic: observation,
                // the statement only requires refusal above 7609)
                assert!(len >= 7609);
                kani::cover!(len == 7610);
                kani::cover!(len == 65_536);
            }
        }
        core::mem::forget(data);
    }

    #[kani::proof]
    #[kani::unwind(2)]
    fn c16_new_size_validation_twin() {
        let len: usize = kani::any();
        kani::assume(len <= 70_000);
        let data = vec![0u8; len];
        let r = Message::new(1, Command::Cbor, &data);
        core::mem::forget(r);
        core::mem::forget(data);
        assert!(false);
    }

    // ---------- C16: one inductive step of reassembly for long messages -------------------------

    /// From an arbitrary receiver state satisfying the reassembly invariant
    ///   payload.len() = 57 + 59*sequence < payload_len <= 7609, sequence <= 127
    /// feeding the next continuation packet as the sender frames it (seq = sequence, 59 data bytes of
    /// which the first `min(59, remaining)` are payload and the rest zero padding) re-establishes
    /// the invariant or completes the message with exactly `payload_len` bytes.
    /// `CONTENT = false`: every sequence number (symbolic), lengths/flags only.
    /// `CONTENT = true` : sequence number fixed per instance, appended bytes compared as well
    /// (a symbolic vector length together with content reads exhausts memory, measured).
    fn extend_step<const CONTENT: bool>(seq: u8) {
        kani::assume(seq <= 127);
        let have = 57 + 59 * (seq as usize);
        let total: usize = kani::any();
        kani::assume(total > have && total <= 7609);
        let ch: u32 = kani::any();
        let mut m = Message {
            channel: ch,
            command: Command::Cbor,
            sequence: seq,
            payload_len: total,
            payload: vec![0x55u8; have],
        };
        let data: [u8; 59] = kani::any();
        let remaining = total - have;
        let r = m.extend(ContHeader { channel: ch, seq }, &data);
        match r {
            Ok(done) => {
                if remaining <= 59 {
                    assert!(done);
                    assert!(m.payload.len() == total);
                    assert!(m.is_complete());
                    kani::cover!(remaining == 59);
                    kani::cover!(remaining == 1);
                } else {
                    assert!(!done);
                    assert!(m.payload.len() == have + 59);
                    assert!(m.sequence == seq + 1);
                    assert!(!m.is_complete());
                    kani::cover!(remaining == 60);
                }
                assert!(m.payload_len == total && m.channel == ch);
                if CONTENT {
                    // appended bytes are the packet's payload bytes, earlier bytes untouched
                    let take = if remaining <= 59 { remaining } else { 59 };
                    let mut i = 0;
                    while i < take {
                        assert!(m.payload[have + i] == data[i]);
                        i += 1;
                    }
                    assert!(m.payload[0] == 0x55 && m.payload[have - 1] == 0x55);
                }
            }
            Err(_) => assert!(false), // the in-order packet of the right channel is never refused
        }
        core::mem::forget(m);
    }

    #[kani::proof]
    #[kani::unwind(61)]
    fn c16_extend_inductive_step() {
        let seq: u8 = kani::any();
        extend_step::<false>(seq);
        kani::cover!(seq == 127);
        kani::cover!(seq == 0);
    }

    #[kani::proof]
    #[kani::unwind(61)]
    fn c16_extend_step_content_seq0() {
        extend_step::<true>(0);
    }

    #[kani::proof]
    #[kani::unwind(61)]
    fn c16_extend_step_content_seq1() {
        extend_step::<true>(1);
    }

    #[kani::proof]
    #[kani::unwind(61)]
    fn c16_extend_step_content_seq5() {
        extend_step::<true>(5);
    }

    /// out-of-order or foreign-channel continuation packets are refused and change nothing
    #[kani::proof]
    #[kani::unwind(61)]
    fn c16_extend_rejects_wrong_seq_or_channel() {
        let seq: u8 = kani::any();
        kani::assume(seq <= 127);
        let have = 57 + 59 * (seq as usize);
        let total: usize = kani::any();
        kani::assume(total > have && total <= 7609);
        let ch: u32 = kani::any();
        let mut m = Message {
            channel: ch,
            command: Command::Cbor,
            sequence: seq,
            payload_len: total,
            payload: vec![0x55u8; have],
        };
        let data: [u8; 59] = kani::any();
        let ch2: u32 = kani::any();
        let seq2: u8 = kani::any();
        kani::assume(ch2 != ch || seq2 != seq);
        let r = m.extend(ContHeader { channel: ch2, seq: seq2 }, &data);
        assert!(r.is_err());
        assert!(m.payload.len() == have && m.sequence == seq && m.payload_len == total);
        kani::cover!(ch2 == ch);
        kani::cover!(seq2 == seq);
        core::mem::forget(m);
    }

    // ---------- C16: channel table, symbolic interleaving ----------------------------------------

    /// k-th packet (k = 0 init, k = 1 continuation) of a 60-byte message, built by the reference
    /// encoder (the sender is shown to produce exactly this image by the round-trip harnesses).
    fn two_packet_msg(ch: u32, cmd: u8, payload: &[u8; 60], k: usize) -> [u8; 64] {
        ref_packet(ch, cmd, payload, 60, k)
    }

    fn check_delivered(got: Option<Message>, ch: u32, cmd: u8, payload: &[u8; 60]) {
        let m = got.unwrap();
        assert!(m.channel == ch);
        assert!(cmd_byte(m.command) == cmd);
        assert!(m.payload.len() == 60 && m.payload_len == 60);
        let mut i = 0;
        while i < 60 {
            assert!(m.payload[i] == payload[i]);
            i += 1;
        }
        core::mem::forget(m);
    }

    // K channels (fixed distinct ids), one two-packet message each with all payload bytes symbolic,
    // fed in a fixed order (each channel's own order kept).  One straight-line harness instance per
    // order-preserving interleaving: a *symbolic* schedule merges the heap states of the channel
    // table and does not finish (measured), so the finite set of schedules is instantiated and the
    // solver decides each one for all contents.  (generated by /verif/tools, do not edit by hand)
    #[kani::proof]
    #[kani::unwind(62)]
    fn c16_interleave2_0011() {
        let p0: [u8; 60] = kani::any();
        let p1: [u8; 60] = kani::any();
        let mut handler = ChannelHandler::default();
        assert!(handler.handle_packet(&two_packet_msg(CH0, 0x10, &p0, 0)).is_none());
        assert!(handler.channels.len() == 1);
        check_delivered(handler.handle_packet(&two_packet_msg(CH0, 0x10, &p0, 1)), CH0, 0x10, &p0);
        assert!(handler.channels.len() == 0);
        assert!(handler.handle_packet(&two_packet_msg(CH1, 0x03, &p1, 0)).is_none());
        assert!(handler.channels.len() == 1);
        check_delivered(handler.handle_packet(&two_packet_msg(CH1, 0x03, &p1, 1)), CH1, 0x03, &p1);
        assert!(handler.channels.len() == 0);
        kani::cover!(true);
        core::mem::forget(handler);
    }

    #[kani::proof]
    #[kani::unwind(62)]
    fn c16_interleave2_0101() {
        let p0: [u8; 60] = kani::any();
        let p1: [u8; 60] = kani::any();
        let mut handler = ChannelHandler::default();
        assert!(handler.handle_packet(&two_packet_msg(CH0, 0x10, &p0, 0)).is_none());
        assert!(handler.channels.len() == 1);
        assert!(handler.handle_packet(&two_packet_msg(CH1, 0x03, &p1, 0)).is_none());
        assert!(handler.channels.len() == 2);
        check_delivered(handler.handle_packet(&two_packet_msg(CH0, 0x10, &p0, 1)), CH0, 0x10, &p0);
        assert!(handler.channels.len() == 1);
        check_delivered(handler.handle_packet(&two_packet_msg(CH1, 0x03, &p1, 1)), CH1, 0x03, &p1);
        assert!(handler.channels.len() == 0);
        kani::cover!(true);
        core::mem::forget(handler);
    }

    #[kani::proof]
    #[kani::unwind(62)]
    fn c16_interleave2_0110() {
        let p0: [u8; 60] = kani::any();
        let p1: [u8; 60] = kani::any();
        let mut handler = ChannelHandler::default();
        assert!(handler.handle_packet(&two_packet_msg(CH0, 0x10, &p0, 0)).is_none());
        assert!(handler.channels.len() == 1);
        assert!(handler.handle_packet(&two_packet_msg(CH1, 0x03, &p1, 0)).is_none());
        assert!(handler.channels.len() == 2);
        check_delivered(handler.handle_packet(&two_packet_msg(CH1, 0x03, &p1, 1)), CH1, 0x03, &p1);
        assert!(handler.channels.len() == 1);
        check_delivered(handler.handle_packet(&two_packet_msg(CH0, 0x10, &p0, 1)), CH0, 0x10, &p0);
        assert!(handler.channels.len() == 0);
        kani::cover!(true);
        core::mem::forget(handler);
    }

    #[kani::proof]
    #[kani::unwind(62)]
    fn c16_interleave2_1001() {
        let p0: [u8; 60] = kani::any();
        let p1: [u8; 60] = kani::any();
        let mut handler = ChannelHandler::default();
        assert!(handler.handle_packet(&two_packet_msg(CH1, 0x03, &p1, 0)).is_none());
        assert!(handler.channels.len() == 1);
        assert!(handler.handle_packet(&two_packet_msg(CH0, 0x10, &p0, 0)).is_none());
        assert!(handler.channels.len() == 2);
        check_delivered(handler.handle_packet(&two_packet_msg(CH0, 0x10, &p0, 1)), CH0, 0x10, &p0);
        assert!(handler.channels.len() == 1);
        check_delivered(handler.handle_packet(&two_packet_msg(CH1, 0x03, &p1, 1)), CH1, 0x03, &p1);
        assert!(handler.channels.len() == 0);
        kani::cover!(true);
        core::mem::forget(handler);
    }

    #[kani::proof]
    #[kani::unwind(62)]
    fn c16_interleave2_1010() {
        let p0: [u8; 60] = kani::any();
        let p1: [u8; 60] = kani::any();
        let mut handler = ChannelHandler::default();
        assert!(handler.handle_packet(&two_packet_msg(CH1, 0x03, &p1, 0)).is_none());
        assert!(handler.channels.len() == 1);
        assert!(handler.handle_packet(&two_packet_msg(CH0, 0x10, &p0, 0)).is_none());
        assert!(handler.channels.len() == 2);
        check_delivered(handler.handle_packet(&two_packet_msg(CH1, 0x03, &p1, 1)), CH1, 0x03, &p1);
        assert!(handler.channels.len() == 1);
        check_delivered(handler.handle_packet(&two_packet_msg(CH0, 0x10, &p0, 1)), CH0, 0x10, &p0);
        assert!(handler.channels.len() == 0);
        kani::cover!(true);
        core::mem::forget(handler);
    }

    #[kani::proof]
    #[kani::unwind(62)]
    fn c16_interleave2_1100() {
        let p0: [u8; 60] = kani::any();
        let p1: [u8; 60] = kani::any();
        let mut handler = ChannelHandler::default();
        assert!(handler.handle_packet(&two_packet_msg(CH1, 0x03, &p1, 0)).is_none());
        assert!(handler.channels.len() == 1);
        check_delivered(handler.handle_packet(&two_packet_msg(CH1, 0x03, &p1, 1)), CH1, 0x03, &p1);
        assert!(handler.channels.len() == 0);
        assert!(handler.handle_packet(&two_packet_msg(CH0, 0x10, &p0, 0)).is_none());
        assert!(handler.channels.len() == 1);
        check_delivered(handler.handle_packet(&two_packet_msg(CH0, 0x10, &p0, 1)), CH0, 0x10, &p0);
        assert!(handler.channels.len() == 0);
        kani::cover!(true);
        core::mem::forget(handler);
    }

    // the same six schedules with channel 1 sending CTAPHID_INIT (0x06): an initialisation command on one channel must not
    // disturb the message in progress on another channel
    #[kani::proof]
    #[kani::unwind(62)]
    fn c16_interleave2init_0011() {
        let p0: [u8; 60] = kani::any();
        let p1: [u8; 60] = kani::any();
        let mut handler = ChannelHandler::default();
        assert!(handler.handle_packet(&two_packet_msg(CH0, 0x10, &p0, 0)).is_none());
        assert!(handler.channels.len() == 1);
        check_delivered(handler.handle_packet(&two_packet_msg(CH0, 0x10, &p0, 1)), CH0, 0x10, &p0);
        assert!(handler.channels.len() == 0);
        assert!(handler.handle_packet(&two_packet_msg(CH1, 0x06, &p1, 0)).is_none());
        assert!(handler.channels.len() == 1);
        check_delivered(handler.handle_packet(&two_packet_msg(CH1, 0x06, &p1, 1)), CH1, 0x06, &p1);
        assert!(handler.channels.len() == 0);
        kani::cover!(true);
        core::mem::forget(handler);
    }

    #[kani::proof]
    #[kani::unwind(62)]
    fn c16_interleave2init_0101() {
        let p0: [u8; 60] = kani::any();
        let p1: [u8; 60] = kani::any();
        let mut handler = ChannelHandler::default();
        assert!(handler.handle_packet(&two_packet_msg(CH0, 0x10, &p0, 0)).is_none());
        assert!(handler.channels.len() == 1);
        assert!(handler.handle_packet(&two_packet_msg(CH1, 0x06, &p1, 0)).is_none());
        assert!(handler.channels.len() == 2);
        check_delivered(handler.handle_packet(&two_packet_msg(CH0, 0x10, &p0, 1)), CH0, 0x10, &p0);
        assert!(handler.channels.len() == 1);
        check_delivered(handler.handle_packet(&two_packet_msg(CH1, 0x06, &p1, 1)), CH1, 0x06, &p1);
        assert!(handler.channels.len() == 0);
        kani::cover!(true);
        core::mem::forget(handler);
    }

    #[kani::proof]
    #[kani::unwind(62)]
    fn c16_interleave2init_0110() {
        let p0: [u8; 60] = kani::any();
        let p1: [u8; 60] = kani::any();
        let mut handler = ChannelHandler::default();
        assert!(handler.handle_packet(&two_packet_msg(CH0, 0x10, &p0, 0)).is_none());
        assert!(handler.channels.len() == 1);
        assert!(handler.handle_packet(&two_packet_msg(CH1, 0x06, &p1, 0)).is_none());
        assert!(handler.channels.len() == 2);
        check_delivered(handler.handle_packet(&two_packet_msg(CH1, 0x06, &p1, 1)), CH1, 0x06, &p1);
        assert!(handler.channels.len() == 1);
        check_delivered(handler.handle_packet(&two_packet_msg(CH0, 0x10, &p0, 1)), CH0, 0x10, &p0);
        assert!(handler.channels.len() == 0);
        kani::cover!(true);
        core::mem::forget(handler);
    }

    #[kani::proof]
    #[kani::unwind(62)]
    fn c16_interleave2init_1001() {
        let p0: [u8; 60] = kani::any();
        let p1: [u8; 60] = kani::any();
        let mut handler = ChannelHandler::default();
        assert!(handler.handle_packet(&two_packet_msg(CH1, 0x06, &p1, 0)).is_none());
        assert!(handler.channels.len() == 1);
        assert!(handler.handle_packet(&two_packet_msg(CH0, 0x10, &p0, 0)).is_none());
        assert!(handler.channels.len() == 2);
        check_delivered(handler.handle_packet(&two_packet_msg(CH0, 0x10, &p0, 1)), CH0, 0x10, &p0);
        assert!(handler.channels.len() == 1);
        check_delivered(handler.handle_packet(&two_packet_msg(CH1, 0x06, &p1, 1)), CH1, 0x06, &p1);
        assert!(handler.channels.len() == 0);
        kani::cover!(true);
        core::mem::forget(handler);
    }

    #[kani::proof]
    #[kani::unwind(62)]
    fn c16_interleave2init_1010() {
        let p0: [u8; 60] = kani::any();
        let p1: [u8; 60] = kani::any();
        let mut handler = ChannelHandler::default();
        assert!(handler.handle_packet(&two_packet_msg(CH1, 0x06, &p1, 0)).is_none());
        assert!(handler.channels.len() == 1);
        assert!(handler.handle_packet(&two_packet_msg(CH0, 0x10, &p0, 0)).is_none());
        assert!(handler.channels.len() == 2);
        check_delivered(handler.handle_packet(&two_packet_msg(CH1, 0x06, &p1, 1)), CH1, 0x06, &p1);
        assert!(handler.channels.len() == 1);
        check_delivered(handler.handle_packet(&two_packet_msg(CH0, 0x10, &p0, 1)), CH0, 0x10, &p0);
        assert!(handler.channels.len() == 0);
        kani::cover!(true);
        core::mem::forget(handler);
    }

    #[kani::proof]
    #[kani::unwind(62)]
    fn c16_interleave2init_1100() {
        let p0: [u8; 60] = kani::any();
        let p1: [u8; 60] = kani::any();
        let mut handler = ChannelHandler::default();
        assert!(handler.handle_packet(&two_packet_msg(CH1, 0x06, &p1, 0)).is_none());
        assert!(handler.channels.len() == 1);
        check_delivered(handler.handle_packet(&two_packet_msg(CH1, 0x06, &p1, 1)), CH1, 0x06, &p1);
        assert!(handler.channels.len() == 0);
        assert!(handler.handle_packet(&two_packet_msg(CH0, 0x10, &p0, 0)).is_none());
        assert!(handler.channels.len() == 1);
        check_delivered(handler.handle_packet(&two_packet_msg(CH0, 0x10, &p0, 1)), CH0, 0x10, &p0);
        assert!(handler.channels.len() == 0);
        kani::cover!(true);
        core::mem::forget(handler);
    }

    #[kani::proof]
    #[kani::unwind(62)]
    fn c16_interleave3_001122() {
        let p0: [u8; 60] = kani::any();
        let p1: [u8; 60] = kani::any();
        let p2: [u8; 60] = kani::any();
        let mut handler = ChannelHandler::default();
        assert!(handler.handle_packet(&two_packet_msg(CH0, 0x10, &p0, 0)).is_none());
        assert!(handler.channels.len() == 1);
        check_delivered(handler.handle_packet(&two_packet_msg(CH0, 0x10, &p0, 1)), CH0, 0x10, &p0);
        assert!(handler.channels.len() == 0);
        assert!(handler.handle_packet(&two_packet_msg(CH1, 0x03, &p1, 0)).is_none());
        assert!(handler.channels.len() == 1);
        check_delivered(handler.handle_packet(&two_packet_msg(CH1, 0x03, &p1, 1)), CH1, 0x03, &p1);
        assert!(handler.channels.len() == 0);
        assert!(handler.handle_packet(&two_packet_msg(CH2, 0x01, &p2, 0)).is_none());
        assert!(handler.channels.len() == 1);
        check_delivered(handler.handle_packet(&two_packet_msg(CH2, 0x01, &p2, 1)), CH2, 0x01, &p2);
        assert!(handler.channels.len() == 0);
        kani::cover!(true);
        core::mem::forget(handler);
    }

    #[kani::proof]
    #[kani::unwind(62)]
    fn c16_interleave3_001212() {
        let p0: [u8; 60] = kani::any();
        let p1: [u8; 60] = kani::any();
        let p2: [u8; 60] = kani::any();
        let mut handler = ChannelHandler::default();
        assert!(handler.handle_packet(&two_packet_msg(CH0, 0x10, &p0, 0)).is_none());
        assert!(handler.channels.len() == 1);
        check_delivered(handler.handle_packet(&two_packet_msg(CH0, 0x10, &p0, 1)), CH0, 0x10, &p0);
        assert!(handler.channels.len() == 0);
        assert!(handler.handle_packet(&two_packet_msg(CH1, 0x03, &p1, 0)).is_none());
        assert!(handler.channels.len() == 1);
        assert!(handler.handle_packet(&two_packet_msg(CH2, 0x01, &p2, 0)).is_none());
        assert!(handler.channels.len() == 2);
        check_delivered(handler.handle_packet(&two_packet_msg(CH1, 0x03, &p1, 1)), CH1, 0x03, &p1);
        assert!(handler.channels.len() == 1);
        check_delivered(handler.handle_packet(&two_packet_msg(CH2, 0x01, &p2, 1)), CH2, 0x01, &p2);
        assert!(handler.channels.len() == 0);
        kani::cover!(true);
        core::mem::forget(handler);
    }

    #[kani::proof]
    #[kani::unwind(62)]
    fn c16_interleave3_001221() {
        let p0: [u8; 60] = kani::any();
        let p1: [u8; 60] = kani::any();
        let p2: [u8; 60] = kani::any();
        let mut handler = ChannelHandler::default();
        assert!(handler.handle_packet(&two_packet_msg(CH0, 0x10, &p0, 0)).is_none());
        assert!(handler.channels.len() == 1);
        check_delivered(handler.handle_packet(&two_packet_msg(CH0, 0x10, &p0, 1)), CH0, 0x10, &p0);
        assert!(handler.channels.len() == 0);
        assert!(handler.handle_packet(&two_packet_msg(CH1, 0x03, &p1, 0)).is_none());
        assert!(handler.channels.len() == 1);
        assert!(handler.handle_packet(&two_packet_msg(CH2, 0x01, &p2, 0)).is_none());
        assert!(handler.channels.len() == 2);
        check_delivered(handler.handle_packet(&two_packet_msg(CH2, 0x01, &p2, 1)), CH2, 0x01, &p2);
        assert!(handler.channels.len() == 1);
        check_delivered(handler.handle_packet(&two_packet_msg(CH1, 0x03, &p1, 1)), CH1, 0x03, &p1);
        assert!(handler.channels.len() == 0);
        kani::cover!(true);
        core::mem::forget(handler);
    }

    #[kani::proof]
    #[kani::unwind(62)]
    fn c16_interleave3_002112() {
        let p0: [u8; 60] = kani::any();
        let p1: [u8; 60] = kani::any();
        let p2: [u8; 60] = kani::any();
        let mut handler = ChannelHandler::default();
        assert!(handler.handle_packet(&two_packet_msg(CH0, 0x10, &p0, 0)).is_none());
        assert!(handler.channels.len() == 1);
        check_delivered(handler.handle_packet(&two_packet_msg(CH0, 0x10, &p0, 1)), CH0, 0x10, &p0);
        assert!(handler.channels.len() == 0);
        assert!(handler.handle_packet(&two_packet_msg(CH2, 0x01, &p2, 0)).is_none());
        assert!(handler.channels.len() == 1);
        assert!(handler.handle_packet(&two_packet_msg(CH1, 0x03, &p1, 0)).is_none());
        assert!(handler.channels.len() == 2);
        check_delivered(handler.handle_packet(&two_packet_msg(CH1, 0x03, &p1, 1)), CH1, 0x03, &p1);
        assert!(handler.channels.len() == 1);
        check_delivered(handler.handle_packet(&two_packet_msg(CH2, 0x01, &p2, 1)), CH2, 0x01, &p2);
        assert!(handler.channels.len() == 0);
        kani::cover!(true);
        core::mem::forget(handler);
    }

    #[kani::proof]
    #[kani::unwind(62)]
    fn c16_interleave3_002121() {
        let p0: [u8; 60] = kani::any();
        let p1: [u8; 60] = kani::any();
        let p2: [u8; 60] = kani::any();
        let mut handler = ChannelHandler::default();
        assert!(handler.handle_packet(&two_packet_msg(CH0, 0x10, &p0, 0)).is_none());
        assert!(handler.channels.len() == 1);
        check_delivered(handler.handle_packet(&two_packet_msg(CH0, 0x10, &p0, 1)), CH0, 0x10, &p0);
        assert!(handler.channels.len() == 0);
        assert!(handler.handle_packet(&two_packet_msg(CH2, 0x01, &p2, 0)).is_none());
        assert!(handler.channels.len() == 1);
        assert!(handler.handle_packet(&two_packet_msg(CH1, 0x03, &p1, 0)).is_none());
        assert!(handler.channels.len() == 2);
        check_delivered(handler.handle_packet(&two_packet_msg(CH2, 0x01, &p2, 1)), CH2, 0x01, &p2);
        assert!(handler.channels.len() == 1);
        check_delivered(handler.handle_packet(&two_packet_msg(CH1, 0x03, &p1, 1)), CH1, 0x03, &p1);
        assert!(handler.channels.len() == 0);
        kani::cover!(true);
        core::mem::forget(handler);
    }

    #[kani::proof]
    #[kani::unwind(62)]
    fn c16_interleave3_002211() {
        let p0: [u8; 60] = kani::any();
        let p1: [u8; 60] = kani::any();
        let p2: [u8; 60] = kani::any();
        let mut handler = ChannelHandler::default();
        assert!(handler.handle_packet(&two_packet_msg(CH0, 0x10, &p0, 0)).is_none());
        assert!(handler.channels.len() == 1);
        check_delivered(handler.handle_packet(&two_packet_msg(CH0, 0x10, &p0, 1)), CH0, 0x10, &p0);
        assert!(handler.channels.len() == 0);
        assert!(handler.handle_packet(&two_packet_msg(CH2, 0x01, &p2, 0)).is_none());
        assert!(handler.channels.len() == 1);
        check_delivered(handler.handle_packet(&two_packet_msg(CH2, 0x01, &p2, 1)), CH2, 0x01, &p2);
        assert!(handler.channels.len() == 0);
        assert!(handler.handle_packet(&two_packet_msg(CH1, 0x03, &p1, 0)).is_none());
        assert!(handler.channels.len() == 1);
        check_delivered(handler.handle_packet(&two_packet_msg(CH1, 0x03, &p1, 1)), CH1, 0x03, &p1);
        assert!(handler.channels.len() == 0);
        kani::cover!(true);
        core::mem::forget(handler);
    }

    #[kani::proof]
    #[kani::unwind(62)]
    fn c16_interleave3_010122() {
        let p0: [u8; 60] = kani::any();
        let p1: [u8; 60] = kani::any();
        let p2: [u8; 60] = kani::any();
        let mut handler = ChannelHandler::default();
        assert!(handler.handle_packet(&two_packet_msg(CH0, 0x10, &p0, 0)).is_none());
        assert!(handler.channels.len() == 1);
        assert!(handler.handle_packet(&two_packet_msg(CH1, 0x03, &p1, 0)).is_none());
        assert!(handler.channels.len() == 2);
        check_delivered(handler.handle_packet(&two_packet_msg(CH0, 0x10, &p0, 1)), CH0, 0x10, &p0);
        assert!(handler.channels.len() == 1);
        check_delivered(handler.handle_packet(&two_packet_msg(CH1, 0x03, &p1, 1)), CH1, 0x03, &p1);
        assert!(handler.channels.len() == 0);
        assert!(handler.handle_packet(&two_packet_msg(CH2, 0x01, &p2, 0)).is_none());
        assert!(handler.channels.len() == 1);
        check_delivered(handler.handle_packet(&two_packet_msg(CH2, 0x01, &p2, 1)), CH2, 0x01, &p2);
        assert!(handler.channels.len() == 0);
        kani::cover!(true);
        core::mem::forget(handler);
    }

    #[kani::proof]
    #[kani::unwind(62)]
    fn c16_interleave3_010212() {
        let p0: [u8; 60] = kani::any();
        let p1: [u8; 60] = kani::any();
        let p2: [u8; 60] = kani::any();
        let mut handler = ChannelHandler::default();
        assert!(handler.handle_packet(&two_packet_msg(CH0, 0x10, &p0, 0)).is_none());
        assert!(handler.channels.len() == 1);
        assert!(handler.handle_packet(&two_packet_msg(CH1, 0x03, &p1, 0)).is_none());
        assert!(handler.channels.len() == 2);
        check_delivered(handler.handle_packet(&two_packet_msg(CH0, 0x10, &p0, 1)), CH0, 0x10, &p0);
        assert!(handler.channels.len() == 1);
        assert!(handler.handle_packet(&two_packet_msg(CH2, 0x01, &p2, 0)).is_none());
        assert!(handler.channels.len() == 2);
        check_delivered(handler.handle_packet(&two_packet_msg(CH1, 0x03, &p1, 1)), CH1, 0x03, &p1);
        assert!(handler.channels.len() == 1);
        check_delivered(handler.handle_packet(&two_packet_msg(CH2, 0x01, &p2, 1)), CH2, 0x01, &p2);
        assert!(handler.channels.len() == 0);
        kani::cover!(true);
        core::mem::forget(handler);
    }

    #[kani::proof]
    #[kani::unwind(62)]
    fn c16_interleave3_010221() {
        let p0: [u8; 60] = kani::any();
        let p1: [u8; 60] = kani::any();
        let p2: [u8; 60] = kani::any();
        let mut handler = ChannelHandler::default();
        assert!(handler.handle_packet(&two_packet_msg(CH0, 0x10, &p0, 0)).is_none());
        assert!(handler.channels.len() == 1);
        assert!(handler.handle_packet(&two_packet_msg(CH1, 0x03, &p1, 0)).is_none());
        assert!(handler.channels.len() == 2);
        check_delivered(handler.handle_packet(&two_packet_msg(CH0, 0x10, &p0, 1)), CH0, 0x10, &p0);
        assert!(handler.channels.len() == 1);
        assert!(handler.handle_packet(&two_packet_msg(CH2, 0x01, &p2, 0)).is_none());
        assert!(handler.channels.len() == 2);
        check_delivered(handler.handle_packet(&two_packet_msg(CH2, 0x01, &p2, 1)), CH2, 0x01, &p2);
        assert!(handler.channels.len() == 1);
        check_delivered(handler.handle_packet(&two_packet_msg(CH1, 0x03, &p1, 1)), CH1, 0x03, &p1);
        assert!(handler.channels.len() == 0);
        kani::cover!(true);
        core::mem::forget(handler);
    }

    #[kani::proof]
    #[kani::unwind(62)]
    fn c16_interleave3_011022() {
        let p0: [u8; 60] = kani::any();
        let p1: [u8; 60] = kani::any();
        let p2: [u8; 60] = kani::any();
        let mut handler = ChannelHandler::default();
        assert!(handler.handle_packet(&two_packet_msg(CH0, 0x10, &p0, 0)).is_none());
        assert!(handler.channels.len() == 1);
        assert!(handler.handle_packet(&two_packet_msg(CH1, 0x03, &p1, 0)).is_none());
        assert!(handler.channels.len() == 2);
        check_delivered(handler.handle_packet(&two_packet_msg(CH1, 0x03, &p1, 1)), CH1, 0x03, &p1);
        assert!(handler.channels.len() == 1);
        check_delivered(handler.handle_packet(&two_packet_msg(CH0, 0x10, &p0, 1)), CH0, 0x10, &p0);
        assert!(handler.channels.len() == 0);
        assert!(handler.handle_packet(&two_packet_msg(CH2, 0x01, &p2, 0)).is_none());
        assert!(handler.channels.len() == 1);
        check_delivered(handler.handle_packet(&two_packet_msg(CH2, 0x01, &p2, 1)), CH2, 0x01, &p2);
        assert!(handler.channels.len() == 0);
        kani::cover!(true);
        core::mem::forget(handler);
    }

    #[kani::proof]
    #[kani::unwind(62)]
    fn c16_interleave3_011202() {
        let p0: [u8; 60] = kani::any();
        let p1: [u8; 60] = kani::any();
        let p2: [u8; 60] = kani::any();
        let mut handler = ChannelHandler::default();
        assert!(handler.handle_packet(&two_packet_msg(CH0, 0x10, &p0, 0)).is_none());
        assert!(handler.channels.len() == 1);
        assert!(handler.handle_packet(&two_packet_msg(CH1, 0x03, &p1, 0)).is_none());
        assert!(handler.channels.len() == 2);
        check_delivered(handler.handle_packet(&two_packet_msg(CH1, 0x03, &p1, 1)), CH1, 0x03, &p1);
        assert!(handler.channels.len() == 1);
        assert!(handler.handle_packet(&two_packet_msg(CH2, 0x01, &p2, 0)).is_none());
        assert!(handler.channels.len() == 2);
        check_delivered(handler.handle_packet(&two_packet_msg(CH0, 0x10, &p0, 1)), CH0, 0x10, &p0);
        assert!(handler.channels.len() == 1);
        check_delivered(handler.handle_packet(&two_packet_msg(CH2, 0x01, &p2, 1)), CH2, 0x01, &p2);
        assert!(handler.channels.len() == 0);
        kani::cover!(true);
        core::mem::forget(handler);
    }

    #[kani::proof]
    #[kani::unwind(62)]
    fn c16_interleave3_011220() {
        let p0: [u8; 60] = kani::any();
        let p1: [u8; 60] = kani::any();
        let p2: [u8; 60] = kani::any();
        let mut handler = ChannelHandler::default();
        assert!(handler.handle_packet(&two_packet_msg(CH0, 0x10, &p0, 0)).is_none());
        assert!(handler.channels.len() == 1);
        assert!(handler.handle_packet(&two_packet_msg(CH1, 0x03, &p1, 0)).is_none());
        assert!(handler.channels.len() == 2);
        check_delivered(handler.handle_packet(&two_packet_msg(CH1, 0x03, &p1, 1)), CH1, 0x03, &p1);
        assert!(handler.channels.len() == 1);
        assert!(handler.handle_packet(&two_packet_msg(CH2, 0x01, &p2, 0)).is_none());
        assert!(handler.channels.len() == 2);
        check_delivered(handler.handle_packet(&two_packet_msg(CH2, 0x01, &p2, 1)), CH2, 0x01, &p2);
        assert!(handler.channels.len() == 1);
        check_delivered(handler.handle_packet(&two_packet_msg(CH0, 0x10, &p0, 1)), CH0, 0x10, &p0);
        assert!(handler.channels.len() == 0);
        kani::cover!(true);
        core::mem::forget(handler);
    }

    #[kani::proof]
    #[kani::unwind(62)]
    fn c16_interleave3_012012() {
        let p0: [u8; 60] = kani::any();
        let p1: [u8; 60] = kani::any();
        let p2: [u8; 60] = kani::any();
        let mut handler = ChannelHandler::default();
        assert!(handler.handle_packet(&two_packet_msg(CH0, 0x10, &p0, 0)).is_none());
        assert!(handler.channels.len() == 1);
        assert!(handler.handle_packet(&two_packet_msg(CH1, 0x03, &p1, 0)).is_none());
        assert!(handler.channels.len() == 2);
        assert!(handler.handle_packet(&two_packet_msg(CH2, 0x01, &p2, 0)).is_none());
        assert!(handler.channels.len() == 3);
        check_delivered(handler.handle_packet(&two_packet_msg(CH0, 0x10, &p0, 1)), CH0, 0x10, &p0);
        assert!(handler.channels.len() == 2);
        check_delivered(handler.handle_packet(&two_packet_msg(CH1, 0x03, &p1, 1)), CH1, 0x03, &p1);
        assert!(handler.channels.len() == 1);
        check_delivered(handler.handle_packet(&two_packet_msg(CH2, 0x01, &p2, 1)), CH2, 0x01, &p2);
        assert!(handler.channels.len() == 0);
        kani::cover!(true);
        core::mem::forget(handler);
    }

    #[kani::proof]
    #[kani::unwind(62)]
    fn c16_interleave3_012021() {
        let p0: [u8; 60] = kani::any();
        let p1: [u8; 60] = kani::any();
        let p2: [u8; 60] = kani::any();
        let mut handler = ChannelHandler::default();
        assert!(handler.handle_packet(&two_packet_msg(CH0, 0x10, &p0, 0)).is_none());
        assert!(handler.channels.len() == 1);
        assert!(handler.handle_packet(&two_packet_msg(CH1, 0x03, &p1, 0)).is_none());
        assert!(handler.channels.len() == 2);
        assert!(handler.handle_packet(&two_packet_msg(CH2, 0x01, &p2, 0)).is_none());
        assert!(handler.channels.len() == 3);
        check_delivered(handler.handle_packet(&two_packet_msg(CH0, 0x10, &p0, 1)), CH0, 0x10, &p0);
        assert!(handler.channels.len() == 2);
        check_delivered(handler.handle_packet(&two_packet_msg(CH2, 0x01, &p2, 1)), CH2, 0x01, &p2);
        assert!(handler.channels.len() == 1);
        check_delivered(handler.handle_packet(&two_packet_msg(CH1, 0x03, &p1, 1)), CH1, 0x03, &p1);
        assert!(handler.channels.len() == 0);
        kani::cover!(true);
        core::mem::forget(handler);
    }

    #[kani::proof]
    #[kani::unwind(62)]
    fn c16_interleave3_012102() {
        let p0: [u8; 60] = kani::any();
        let p1: [u8; 60] = kani::any();
        let p2: [u8; 60] = kani::any();
        let mut handler = ChannelHandler::default();
        assert!(handler.handle_packet(&two_packet_msg(CH0, 0x10, &p0, 0)).is_none());
        assert!(handler.channels.len() == 1);
        assert!(handler.handle_packet(&two_packet_msg(CH1, 0x03, &p1, 0)).is_none());
        assert!(handler.channels.len() == 2);
        assert!(handler.handle_packet(&two_packet_msg(CH2, 0x01, &p2, 0)).is_none());
        assert!(handler.channels.len() == 3);
        check_delivered(handler.handle_packet(&two_packet_msg(CH1, 0x03, &p1, 1)), CH1, 0x03, &p1);
        assert!(handler.channels.len() == 2);
        check_delivered(handler.handle_packet(&two_packet_msg(CH0, 0x10, &p0, 1)), CH0, 0x10, &p0);
        assert!(handler.channels.len() == 1);
        check_delivered(handler.handle_packet(&two_packet_msg(CH2, 0x01, &p2, 1)), CH2, 0x01, &p2);
        assert!(handler.channels.len() == 0);
        kani::cover!(true);
        core::mem::forget(handler);
    }

    #[kani::proof]
    #[kani::unwind(62)]
    fn c16_interleave3_012120() {
        let p0: [u8; 60] = kani::any();
        let p1: [u8; 60] = kani::any();
        let p2: [u8; 60] = kani::any();
        let mut handler = ChannelHandler::default();
        assert!(handler.handle_packet(&two_packet_msg(CH0, 0x10, &p0, 0)).is_none());
        assert!(handler.channels.len() == 1);
        assert!(handler.handle_packet(&two_packet_msg(CH1, 0x03, &p1, 0)).is_none());
        assert!(handler.channels.len() == 2);
        assert!(handler.handle_packet(&two_packet_msg(CH2, 0x01, &p2, 0)).is_none());
        assert!(handler.channels.len() == 3);
        check_delivered(handler.handle_packet(&two_packet_msg(CH1, 0x03, &p1, 1)), CH1, 0x03, &p1);
        assert!(handler.channels.len() == 2);
        check_delivered(handler.handle_packet(&two_packet_msg(CH2, 0x01, &p2, 1)), CH2, 0x01, &p2);
        assert!(handler.channels.len() == 1);
        check_delivered(handler.handle_packet(&two_packet_msg(CH0, 0x10, &p0, 1)), CH0, 0x10, &p0);
        assert!(handler.channels.len() == 0);
        kani::cover!(true);
        core::mem::forget(handler);
    }

    #[kani::proof]
    #[kani::unwind(62)]
    fn c16_interleave3_012201() {
        let p0: [u8; 60] = kani::any();
        let p1: [u8; 60] = kani::any();
        let p2: [u8; 60] = kani::any();
        let mut handler = ChannelHandler::default();
        assert!(handler.handle_packet(&two_packet_msg(CH0, 0x10, &p0, 0)).is_none());
        assert!(handler.channels.len() == 1);
        assert!(handler.handle_packet(&two_packet_msg(CH1, 0x03, &p1, 0)).is_none());
        assert!(handler.channels.len() == 2);
        assert!(handler.handle_packet(&two_packet_msg(CH2, 0x01, &p2, 0)).is_none());
        assert!(handler.channels.len() == 3);
        check_delivered(handler.handle_packet(&two_packet_msg(CH2, 0x01, &p2, 1)), CH2, 0x01, &p2);
        assert!(handler.channels.len() == 2);
        check_delivered(handler.handle_packet(&two_packet_msg(CH0, 0x10, &p0, 1)), CH0, 0x10, &p0);
        assert!(handler.channels.len() == 1);
        check_delivered(handler.handle_packet(&two_packet_msg(CH1, 0x03, &p1, 1)), CH1, 0x03, &p1);
        assert!(handler.channels.len() == 0);
        kani::cover!(true);
        core::mem::forget(handler);
    }

    #[kani::proof]
    #[kani::unwind(62)]
    fn c16_interleave3_012210() {
        let p0: [u8; 60] = kani::any();
        let p1: [u8; 60] = kani::any();
        let p2: [u8; 60] = kani::any();
        let mut handler = ChannelHandler::default();
        assert!(handler.handle_packet(&two_packet_msg(CH0, 0x10, &p0, 0)).is_none());
        assert!(handler.channels.len() == 1);
        assert!(handler.handle_packet(&two_packet_msg(CH1, 0x03, &p1, 0)).is_none());
        assert!(handler.channels.len() == 2);
        assert!(handler.handle_packet(&two_packet_msg(CH2, 0x01, &p2, 0)).is_none());
        assert!(handler.channels.len() == 3);
        check_delivered(handler.handle_packet(&two_packet_msg(CH2, 0x01, &p2, 1)), CH2, 0x01, &p2);
        assert!(handler.channels.len() == 2);
        check_delivered(handler.handle_packet(&two_packet_msg(CH1, 0x03, &p1, 1)), CH1, 0x03, &p1);
        assert!(handler.channels.len() == 1);
        check_delivered(handler.handle_packet(&two_packet_msg(CH0, 0x10, &p0, 1)), CH0, 0x10, &p0);
        assert!(handler.channels.len() == 0);
        kani::cover!(true);
        core::mem::forget(handler);
    }

    #[kani::proof]
    #[kani::unwind(62)]
    fn c16_interleave3_020112() {
        let p0: [u8; 60] = kani::any();
        let p1: [u8; 60] = kani::any();
        let p2: [u8; 60] = kani::any();
        let mut handler = ChannelHandler::default();
        assert!(handler.handle_packet(&two_packet_msg(CH0, 0x10, &p0, 0)).is_none());
        assert!(handler.channels.len() == 1);
        assert!(handler.handle_packet(&two_packet_msg(CH2, 0x01, &p2, 0)).is_none());
        assert!(handler.channels.len() == 2);
        check_delivered(handler.handle_packet(&two_packet_msg(CH0, 0x10, &p0, 1)), CH0, 0x10, &p0);
        assert!(handler.channels.len() == 1);
        assert!(handler.handle_packet(&two_packet_msg(CH1, 0x03, &p1, 0)).is_none());
        assert!(handler.channels.len() == 2);
        check_delivered(handler.handle_packet(&two_packet_msg(CH1, 0x03, &p1, 1)), CH1, 0x03, &p1);
        assert!(handler.channels.len() == 1);
        check_delivered(handler.handle_packet(&two_packet_msg(CH2, 0x01, &p2, 1)), CH2, 0x01, &p2);
        assert!(handler.channels.len() == 0);
        kani::cover!(true);
        core::mem::forget(handler);
    }

    #[kani::proof]
    #[kani::unwind(62)]
    fn c16_interleave3_020121() {
        let p0: [u8; 60] = kani::any();
        let p1: [u8; 60] = kani::any();
        let p2: [u8; 60] = kani::any();
        let mut handler = ChannelHandler::default();
        assert!(handler.handle_packet(&two_packet_msg(CH0, 0x10, &p0, 0)).is_none());
        assert!(handler.channels.len() == 1);
        assert!(handler.handle_packet(&two_packet_msg(CH2, 0x01, &p2, 0)).is_none());
        assert!(handler.channels.len() == 2);
        check_delivered(handler.handle_packet(&two_packet_msg(CH0, 0x10, &p0, 1)), CH0, 0x10, &p0);
        assert!(handler.channels.len() == 1);
        assert!(handler.handle_packet(&two_packet_msg(CH1, 0x03, &p1, 0)).is_none());
        assert!(handler.channels.len() == 2);
        check_delivered(handler.handle_packet(&two_packet_msg(CH2, 0x01, &p2, 1)), CH2, 0x01, &p2);
        assert!(handler.channels.len() == 1);
        check_delivered(handler.handle_packet(&two_packet_msg(CH1, 0x03, &p1, 1)), CH1, 0x03, &p1);
        assert!(handler.channels.len() == 0);
        kani::cover!(true);
        core::mem::forget(handler);
    }

    #[kani::proof]
    #[kani::unwind(62)]
    fn c16_interleave3_020211() {
        let p0: [u8; 60] = kani::any();
        let p1: [u8; 60] = kani::any();
        let p2: [u8; 60] = kani::any();
        let mut handler = ChannelHandler::default();
        assert!(handler.handle_packet(&two_packet_msg(CH0, 0x10, &p0, 0)).is_none());
        assert!(handler.channels.len() == 1);
        assert!(handler.handle_packet(&two_packet_msg(CH2, 0x01, &p2, 0)).is_none());
        assert!(handler.channels.len() == 2);
        check_delivered(handler.handle_packet(&two_packet_msg(CH0, 0x10, &p0, 1)), CH0, 0x10, &p0);
        assert!(handler.channels.len() == 1);
        check_delivered(handler.handle_packet(&two_packet_msg(CH2, 0x01, &p2, 1)), CH2, 0x01, &p2);
        assert!(handler.channels.len() == 0);
        assert!(handler.handle_packet(&two_packet_msg(CH1, 0x03, &p1, 0)).is_none());
        assert!(handler.channels.len() == 1);
        check_delivered(handler.handle_packet(&two_packet_msg(CH1, 0x03, &p1, 1)), CH1, 0x03, &p1);
        assert!(handler.channels.len() == 0);
        kani::cover!(true);
        core::mem::forget(handler);
    }

    #[kani::proof]
    #[kani::unwind(62)]
    fn c16_interleave3_021012() {
        let p0: [u8; 60] = kani::any();
        let p1: [u8; 60] = kani::any();
        let p2: [u8; 60] = kani::any();
        let mut handler = ChannelHandler::default();
        assert!(handler.handle_packet(&two_packet_msg(CH0, 0x10, &p0, 0)).is_none());
        assert!(handler.channels.len() == 1);
        assert!(handler.handle_packet(&two_packet_msg(CH2, 0x01, &p2, 0)).is_none());
        assert!(handler.channels.len() == 2);
        assert!(handler.handle_packet(&two_packet_msg(CH1, 0x03, &p1, 0)).is_none());
        assert!(handler.channels.len() == 3);
        check_delivered(handler.handle_packet(&two_packet_msg(CH0, 0x10, &p0, 1)), CH0, 0x10, &p0);
        assert!(handler.channels.len() == 2);
        check_delivered(handler.handle_packet(&two_packet_msg(CH1, 0x03, &p1, 1)), CH1, 0x03, &p1);
        assert!(handler.channels.len() == 1);
        check_delivered(handler.handle_packet(&two_packet_msg(CH2, 0x01, &p2, 1)), CH2, 0x01, &p2);
        assert!(handler.channels.len() == 0);
        kani::cover!(true);
        core::mem::forget(handler);
    }

    #[kani::proof]
    #[kani::unwind(62)]
    fn c16_interleave3_021021() {
        let p0: [u8; 60] = kani::any();
        let p1: [u8; 60] = kani::any();
        let p2: [u8; 60] = kani::any();
        let mut handler = ChannelHandler::default();
        assert!(handler.handle_packet(&two_packet_msg(CH0, 0x10, &p0, 0)).is_none());
        assert!(handler.channels.len() == 1);
        assert!(handler.handle_packet(&two_packet_msg(CH2, 0x01, &p2, 0)).is_none());
        assert!(handler.channels.len() == 2);
        assert!(handler.handle_packet(&two_packet_msg(CH1, 0x03, &p1, 0)).is_none());
        assert!(handler.channels.len() == 3);
        check_delivered(handler.handle_packet(&two_packet_msg(CH0, 0x10, &p0, 1)), CH0, 0x10, &p0);
        assert!(handler.channels.len() == 2);
        check_delivered(handler.handle_packet(&two_packet_msg(CH2, 0x01, &p2, 1)), CH2, 0x01, &p2);
        assert!(handler.channels.len() == 1);
        check_delivered(handler.handle_packet(&two_packet_msg(CH1, 0x03, &p1, 1)), CH1, 0x03, &p1);
        assert!(handler.channels.len() == 0);
        kani::cover!(true);
        core::mem::forget(handler);
    }

    #[kani::proof]
    #[kani::unwind(62)]
    fn c16_interleave3_021102() {
        let p0: [u8; 60] = kani::any();
        let p1: [u8; 60] = kani::any();
        let p2: [u8; 60] = kani::any();
        let mut handler = ChannelHandler::default();
        assert!(handler.handle_packet(&two_packet_msg(CH0, 0x10, &p0, 0)).is_none());
        assert!(handler.channels.len() == 1);
        assert!(handler.handle_packet(&two_packet_msg(CH2, 0x01, &p2, 0)).is_none());
        assert!(handler.channels.len() == 2);
        assert!(handler.handle_packet(&two_packet_msg(CH1, 0x03, &p1, 0)).is_none());
        assert!(handler.channels.len() == 3);
        check_delivered(handler.handle_packet(&two_packet_msg(CH1, 0x03, &p1, 1)), CH1, 0x03, &p1);
        assert!(handler.channels.len() == 2);
        check_delivered(handler.handle_packet(&two_packet_msg(CH0, 0x10, &p0, 1)), CH0, 0x10, &p0);
        assert!(handler.channels.len() == 1);
        check_delivered(handler.handle_packet(&two_packet_msg(CH2, 0x01, &p2, 1)), CH2, 0x01, &p2);
        assert!(handler.channels.len() == 0);
        kani::cover!(true);
        core::mem::forget(handler);
    }

    #[kani::proof]
    #[kani::unwind(62)]
    fn c16_interleave3_021120() {
        let p0: [u8; 60] = kani::any();
        let p1: [u8; 60] = kani::any();
        let p2: [u8; 60] = kani::any();
        let mut handler = ChannelHandler::default();
        assert!(handler.handle_packet(&two_packet_msg(CH0, 0x10, &p0, 0)).is_none());
        assert!(handler.channels.len() == 1);
        assert!(handler.handle_packet(&two_packet_msg(CH2, 0x01, &p2, 0)).is_none());
        assert!(handler.channels.len() == 2);
        assert!(handler.handle_packet(&two_packet_msg(CH1, 0x03, &p1, 0)).is_none());
        assert!(handler.channels.len() == 3);
        check_delivered(handler.handle_packet(&two_packet_msg(CH1, 0x03, &p1, 1)), CH1, 0x03, &p1);
        assert!(handler.channels.len() == 2);
        check_delivered(handler.handle_packet(&two_packet_msg(CH2, 0x01, &p2, 1)), CH2, 0x01, &p2);
        assert!(handler.channels.len() == 1);
        check_delivered(handler.handle_packet(&two_packet_msg(CH0, 0x10, &p0, 1)), CH0, 0x10, &p0);
        assert!(handler.channels.len() == 0);
        kani::cover!(true);
        core::mem::forget(handler);
    }

    #[kani::proof]
    #[kani::unwind(62)]
    fn c16_interleave3_021201() {
        let p0: [u8; 60] = kani::any();
        let p1: [u8; 60] = kani::any();
        let p2: [u8; 60] = kani::any();
        let mut handler = ChannelHandler::default();
        assert!(handler.handle_packet(&two_packet_msg(CH0, 0x10, &p0, 0)).is_none());
        assert!(handler.channels.len() == 1);
        assert!(handler.handle_packet(&two_packet_msg(CH2, 0x01, &p2, 0)).is_none());
        assert!(handler.channels.len() == 2);
        assert!(handler.handle_packet(&two_packet_msg(CH1, 0x03, &p1, 0)).is_none());
        assert!(handler.channels.len() == 3);
        check_delivered(handler.handle_packet(&two_packet_msg(CH2, 0x01, &p2, 1)), CH2, 0x01, &p2);
        assert!(handler.channels.len() == 2);
        check_delivered(handler.handle_packet(&two_packet_msg(CH0, 0x10, &p0, 1)), CH0, 0x10, &p0);
        assert!(handler.channels.len() == 1);
        check_delivered(handler.handle_packet(&two_packet_msg(CH1, 0x03, &p1, 1)), CH1, 0x03, &p1);
        assert!(handler.channels.len() == 0);
        kani::cover!(true);
        core::mem::forget(handler);
    }

    #[kani::proof]
    #[kani::unwind(62)]
    fn c16_interleave3_021210() {
        let p0: [u8; 60] = kani::any();
        let p1: [u8; 60] = kani::any();
        let p2: [u8; 60] = kani::any();
        let mut handler = ChannelHandler::default();
        assert!(handler.handle_packet(&two_packet_msg(CH0, 0x10, &p0, 0)).is_none());
        assert!(handler.channels.len() == 1);
        assert!(handler.handle_packet(&two_packet_msg(CH2, 0x01, &p2, 0)).is_none());
        assert!(handler.channels.len() == 2);
        assert!(handler.handle_packet(&two_packet_msg(CH1, 0x03, &p1, 0)).is_none());
        assert!(handler.channels.len() == 3);
        check_delivered(handler.handle_packet(&two_packet_msg(CH2, 0x01, &p2, 1)), CH2, 0x01, &p2);
        assert!(handler.channels.len() == 2);
        check_delivered(handler.handle_packet(&two_packet_msg(CH1, 0x03, &p1, 1)), CH1, 0x03, &p1);
        assert!(handler.channels.len() == 1);
        check_delivered(handler.handle_packet(&two_packet_msg(CH0, 0x10, &p0, 1)), CH0, 0x10, &p0);
        assert!(handler.channels.len() == 0);
        kani::cover!(true);
        core::mem::forget(handler);
    }

    #[kani::proof]
    #[kani::unwind(62)]
    fn c16_interleave3_022011() {
        let p0: [u8; 60] = kani::any();
        let p1: [u8; 60] = kani::any();
        let p2: [u8; 60] = kani::any();
        let mut handler = ChannelHandler::default();
        assert!(handler.handle_packet(&two_packet_msg(CH0, 0x10, &p0, 0)).is_none());
        assert!(handler.channels.len() == 1);
        assert!(handler.handle_packet(&two_packet_msg(CH2, 0x01, &p2, 0)).is_none());
        assert!(handler.channels.len() == 2);
        check_delivered(handler.handle_packet(&two_packet_msg(CH2, 0x01, &p2, 1)), CH2, 0x01, &p2);
        assert!(handler.channels.len() == 1);
        check_delivered(handler.handle_packet(&two_packet_msg(CH0, 0x10, &p0, 1)), CH0, 0x10, &p0);
        assert!(handler.channels.len() == 0);
        assert!(handler.handle_packet(&two_packet_msg(CH1, 0x03, &p1, 0)).is_none());
        assert!(handler.channels.len() == 1);
        check_delivered(handler.handle_packet(&two_packet_msg(CH1, 0x03, &p1, 1)), CH1, 0x03, &p1);
        assert!(handler.channels.len() == 0);
        kani::cover!(true);
        core::mem::forget(handler);
    }

    #[kani::proof]
    #[kani::unwind(62)]
    fn c16_interleave3_022101() {
        let p0: [u8; 60] = kani::any();
        let p1: [u8; 60] = kani::any();
        let p2: [u8; 60] = kani::any();
        let mut handler = ChannelHandler::default();
        assert!(handler.handle_packet(&two_packet_msg(CH0, 0x10, &p0, 0)).is_none());
        assert!(handler.channels.len() == 1);
        assert!(handler.handle_packet(&two_packet_msg(CH2, 0x01, &p2, 0)).is_none());
        assert!(handler.channels.len() == 2);
        check_delivered(handler.handle_packet(&two_packet_msg(CH2, 0x01, &p2, 1)), CH2, 0x01, &p2);
        assert!(handler.channels.len() == 1);
        assert!(handler.handle_packet(&two_packet_msg(CH1, 0x03, &p1, 0)).is_none());
        assert!(handler.channels.len() == 2);
        check_delivered(handler.handle_packet(&two_packet_msg(CH0, 0x10, &p0, 1)), CH0, 0x10, &p0);
        assert!(handler.channels.len() == 1);
        check_delivered(handler.handle_packet(&two_packet_msg(CH1, 0x03, &p1, 1)), CH1, 0x03, &p1);
        assert!(handler.channels.len() == 0);
        kani::cover!(true);
        core::mem::forget(handler);
    }

    #[kani::proof]
    #[kani::unwind(62)]
    fn c16_interleave3_022110() {
        let p0: [u8; 60] = kani::any();
        let p1: [u8; 60] = kani::any();
        let p2: [u8; 60] = kani::any();
        let mut handler = ChannelHandler::default();
        assert!(handler.handle_packet(&two_packet_msg(CH0, 0x10, &p0, 0)).is_none());
        assert!(handler.channels.len() == 1);
        assert!(handler.handle_packet(&two_packet_msg(CH2, 0x01, &p2, 0)).is_none());
        assert!(handler.channels.len() == 2);
        check_delivered(handler.handle_packet(&two_packet_msg(CH2, 0x01, &p2, 1)), CH2, 0x01, &p2);
        assert!(handler.channels.len() == 1);
        assert!(handler.handle_packet(&two_packet_msg(CH1, 0x03, &p1, 0)).is_none());
        assert!(handler.channels.len() == 2);
        check_delivered(handler.handle_packet(&two_packet_msg(CH1, 0x03, &p1, 1)), CH1, 0x03, &p1);
        assert!(handler.channels.len() == 1);
        check_delivered(handler.handle_packet(&two_packet_msg(CH0, 0x10, &p0, 1)), CH0, 0x10, &p0);
        assert!(handler.channels.len() == 0);
        kani::cover!(true);
        core::mem::forget(handler);
    }

    #[kani::proof]
    #[kani::unwind(62)]
    fn c16_interleave3_100122() {
        let p0: [u8; 60] = kani::any();
        let p1: [u8; 60] = kani::any();
        let p2: [u8; 60] = kani::any();
        let mut handler = ChannelHandler::default();
        assert!(handler.handle_packet(&two_packet_msg(CH1, 0x03, &p1, 0)).is_none());
        assert!(handler.channels.len() == 1);
        assert!(handler.handle_packet(&two_packet_msg(CH0, 0x10, &p0, 0)).is_none());
        assert!(handler.channels.len() == 2);
        check_delivered(handler.handle_packet(&two_packet_msg(CH0, 0x10, &p0, 1)), CH0, 0x10, &p0);
        assert!(handler.channels.len() == 1);
        check_delivered(handler.handle_packet(&two_packet_msg(CH1, 0x03, &p1, 1)), CH1, 0x03, &p1);
        assert!(handler.channels.len() == 0);
        assert!(handler.handle_packet(&two_packet_msg(CH2, 0x01, &p2, 0)).is_none());
        assert!(handler.channels.len() == 1);
        check_delivered(handler.handle_packet(&two_packet_msg(CH2, 0x01, &p2, 1)), CH2, 0x01, &p2);
        assert!(handler.channels.len() == 0);
        kani::cover!(true);
        core::mem::forget(handler);
    }

    #[kani::proof]
    #[kani::unwind(62)]
    fn c16_interleave3_100212() {
        let p0: [u8; 60] = kani::any();
        let p1: [u8; 60] = kani::any();
        let p2: [u8; 60] = kani::any();
        let mut handler = ChannelHandler::default();
        assert!(handler.handle_packet(&two_packet_msg(CH1, 0x03, &p1, 0)).is_none());
        assert!(handler.channels.len() == 1);
        assert!(handler.handle_packet(&two_packet_msg(CH0, 0x10, &p0, 0)).is_none());
        assert!(handler.channels.len() == 2);
        check_delivered(handler.handle_packet(&two_packet_msg(CH0, 0x10, &p0, 1)), CH0, 0x10, &p0);
        assert!(handler.channels.len() == 1);
        assert!(handler.handle_packet(&two_packet_msg(CH2, 0x01, &p2, 0)).is_none());
        assert!(handler.channels.len() == 2);
        check_delivered(handler.handle_packet(&two_packet_msg(CH1, 0x03, &p1, 1)), CH1, 0x03, &p1);
        assert!(handler.channels.len() == 1);
        check_delivered(handler.handle_packet(&two_packet_msg(CH2, 0x01, &p2, 1)), CH2, 0x01, &p2);
        assert!(handler.channels.len() == 0);
        kani::cover!(true);
        core::mem::forget(handler);
    }

    #[kani::proof]
    #[kani::unwind(62)]
    fn c16_interleave3_100221() {
        let p0: [u8; 60] = kani::any();
        let p1: [u8; 60] = kani::any();
        let p2: [u8; 60] = kani::any();
        let mut handler = ChannelHandler::default();
        assert!(handler.handle_packet(&two_packet_msg(CH1, 0x03, &p1, 0)).is_none());
        assert!(handler.channels.len() == 1);
        assert!(handler.handle_packet(&two_packet_msg(CH0, 0x10, &p0, 0)).is_none());
        assert!(handler.channels.len() == 2);
        check_delivered(handler.handle_packet(&two_packet_msg(CH0, 0x10, &p0, 1)), CH0, 0x10, &p0);
        assert!(handler.channels.len() == 1);
        assert!(handler.handle_packet(&two_packet_msg(CH2, 0x01, &p2, 0)).is_none());
        assert!(handler.channels.len() == 2);
        check_delivered(handler.handle_packet(&two_packet_msg(CH2, 0x01, &p2, 1)), CH2, 0x01, &p2);
        assert!(handler.channels.len() == 1);
        check_delivered(handler.handle_packet(&two_packet_msg(CH1, 0x03, &p1, 1)), CH1, 0x03, &p1);
        assert!(handler.channels.len() == 0);
        kani::cover!(true);
        core::mem::forget(handler);
    }

    #[kani::proof]
    #[kani::unwind(62)]
    fn c16_interleave3_101022() {
        let p0: [u8; 60] = kani::any();
        let p1: [u8; 60] = kani::any();
        let p2: [u8; 60] = kani::any();
        let mut handler = ChannelHandler::default();
        assert!(handler.handle_packet(&two_packet_msg(CH1, 0x03, &p1, 0)).is_none());
        assert!(handler.channels.len() == 1);
        assert!(handler.handle_packet(&two_packet_msg(CH0, 0x10, &p0, 0)).is_none());
        assert!(handler.channels.len() == 2);
        check_delivered(handler.handle_packet(&two_packet_msg(CH1, 0x03, &p1, 1)), CH1, 0x03, &p1);
        assert!(handler.channels.len() == 1);
        check_delivered(handler.handle_packet(&two_packet_msg(CH0, 0x10, &p0, 1)), CH0, 0x10, &p0);
        assert!(handler.channels.len() == 0);
        assert!(handler.handle_packet(&two_packet_msg(CH2, 0x01, &p2, 0)).is_none());
        assert!(handler.channels.len() == 1);
        check_delivered(handler.handle_packet(&two_packet_msg(CH2, 0x01, &p2, 1)), CH2, 0x01, &p2);
        assert!(handler.channels.len() == 0);
        kani::cover!(true);
        core::mem::forget(handler);
    }

    #[kani::proof]
    #[kani::unwind(62)]
    fn c16_interleave3_101202() {
        let p0: [u8; 60] = kani::any();
        let p1: [u8; 60] = kani::any();
        let p2: [u8; 60] = kani::any();
        let mut handler = ChannelHandler::default();
        assert!(handler.handle_packet(&two_packet_msg(CH1, 0x03, &p1, 0)).is_none());
        assert!(handler.channels.len() == 1);
        assert!(handler.handle_packet(&two_packet_msg(CH0, 0x10, &p0, 0)).is_none());
        assert!(handler.channels.len() == 2);
        check_delivered(handler.handle_packet(&two_packet_msg(CH1, 0x03, &p1, 1)), CH1, 0x03, &p1);
        assert!(handler.channels.len() == 1);
        assert!(handler.handle_packet(&two_packet_msg(CH2, 0x01, &p2, 0)).is_none());
        assert!(handler.channels.len() == 2);
        check_delivered(handler.handle_packet(&two_packet_msg(CH0, 0x10, &p0, 1)), CH0, 0x10, &p0);
        assert!(handler.channels.len() == 1);
        check_delivered(handler.handle_packet(&two_packet_msg(CH2, 0x01, &p2, 1)), CH2, 0x01, &p2);
        assert!(handler.channels.len() == 0);
        kani::cover!(true);
        core::mem::forget(handler);
    }

    #[kani::proof]
    #[kani::unwind(62)]
    fn c16_interleave3_101220() {
        let p0: [u8; 60] = kani::any();
        let p1: [u8; 60] = kani::any();
        let p2: [u8; 60] = kani::any();
        let mut handler = ChannelHandler::default();
        assert!(handler.handle_packet(&two_packet_msg(CH1, 0x03, &p1, 0)).is_none());
        assert!(handler.channels.len() == 1);
        assert!(handler.handle_packet(&two_packet_msg(CH0, 0x10, &p0, 0)).is_none());
        assert!(handler.channels.len() == 2);
        check_delivered(handler.handle_packet(&two_packet_msg(CH1, 0x03, &p1, 1)), CH1, 0x03, &p1);
        assert!(handler.channels.len() == 1);
        assert!(handler.handle_packet(&two_packet_msg(CH2, 0x01, &p2, 0)).is_none());
        assert!(handler.channels.len() == 2);
        check_delivered(handler.handle_packet(&two_packet_msg(CH2, 0x01, &p2, 1)), CH2, 0x01, &p2);
        assert!(handler.channels.len() == 1);
        check_delivered(handler.handle_packet(&two_packet_msg(CH0, 0x10, &p0, 1)), CH0, 0x10, &p0);
        assert!(handler.channels.len() == 0);
        kani::cover!(true);
        core::mem::forget(handler);
    }

    #[kani::proof]
    #[kani::unwind(62)]
    fn c16_interleave3_102012() {
        let p0: [u8; 60] = kani::any();
        let p1: [u8; 60] = kani::any();
        let p2: [u8; 60] = kani::any();
        let mut handler = ChannelHandler::default();
        assert!(handler.handle_packet(&two_packet_msg(CH1, 0x03, &p1, 0)).is_none());
        assert!(handler.channels.len() == 1);
        assert!(handler.handle_packet(&two_packet_msg(CH0, 0x10, &p0, 0)).is_none());
        assert!(handler.channels.len() == 2);
        assert!(handler.handle_packet(&two_packet_msg(CH2, 0x01, &p2, 0)).is_none());
        assert!(handler.channels.len() == 3);
        check_delivered(handler.handle_packet(&two_packet_msg(CH0, 0x10, &p0, 1)), CH0, 0x10, &p0);
        assert!(handler.channels.len() == 2);
        check_delivered(handler.handle_packet(&two_packet_msg(CH1, 0x03, &p1, 1)), CH1, 0x03, &p1);
        assert!(handler.channels.len() == 1);
        check_delivered(handler.handle_packet(&two_packet_msg(CH2, 0x01, &p2, 1)), CH2, 0x01, &p2);
        assert!(handler.channels.len() == 0);
        kani::cover!(true);
        core::mem::forget(handler);
    }

    #[kani::proof]
    #[kani::unwind(62)]
    fn c16_interleave3_102021() {
        let p0: [u8; 60] = kani::any();
        let p1: [u8; 60] = kani::any();
        let p2: [u8; 60] = kani::any();
        let mut handler = ChannelHandler::default();
        assert!(handler.handle_packet(&two_packet_msg(CH1, 0x03, &p1, 0)).is_none());
        assert!(handler.channels.len() == 1);
        assert!(handler.handle_packet(&two_packet_msg(CH0, 0x10, &p0, 0)).is_none());
        assert!(handler.channels.len() == 2);
        assert!(handler.handle_packet(&two_packet_msg(CH2, 0x01, &p2, 0)).is_none());
        assert!(handler.channels.len() == 3);
        check_delivered(handler.handle_packet(&two_packet_msg(CH0, 0x10, &p0, 1)), CH0, 0x10, &p0);
        assert!(handler.channels.len() == 2);
        check_delivered(handler.handle_packet(&two_packet_msg(CH2, 0x01, &p2, 1)), CH2, 0x01, &p2);
        assert!(handler.channels.len() == 1);
        check_delivered(handler.handle_packet(&two_packet_msg(CH1, 0x03, &p1, 1)), CH1, 0x03, &p1);
        assert!(handler.channels.len() == 0);
        kani::cover!(true);
        core::mem::forget(handler);
    }

    #[kani::proof]
    #[kani::unwind(62)]
    fn c16_interleave3_102102() {
        let p0: [u8; 60] = kani::any();
        let p1: [u8; 60] = kani::any();
        let p2: [u8; 60] = kani::any();
        let mut handler = ChannelHandler::default();
        assert!(handler.handle_packet(&two_packet_msg(CH1, 0x03, &p1, 0)).is_none());
        assert!(handler.channels.len() == 1);
        assert!(handler.handle_packet(&two_packet_msg(CH0, 0x10, &p0, 0)).is_none());
        assert!(handler.channels.len() == 2);
        assert!(handler.handle_packet(&two_packet_msg(CH2, 0x01, &p2, 0)).is_none());
        assert!(handler.channels.len() == 3);
        check_delivered(handler.handle_packet(&two_packet_msg(CH1, 0x03, &p1, 1)), CH1, 0x03, &p1);
        assert!(handler.channels.len() == 2);
        check_delivered(handler.handle_packet(&two_packet_msg(CH0, 0x10, &p0, 1)), CH0, 0x10, &p0);
        assert!(handler.channels.len() == 1);
        check_delivered(handler.handle_packet(&two_packet_msg(CH2, 0x01, &p2, 1)), CH2, 0x01, &p2);
        assert!(handler.channels.len() == 0);
        kani::cover!(true);
        core::mem::forget(handler);
    }

    #[kani::proof]
    #[kani::unwind(62)]
    fn c16_interleave3_102120() {
        let p0: [u8; 60] = kani::any();
        let p1: [u8; 60] = kani::any();
        let p2: [u8; 60] = kani::any();
        let mut handler = ChannelHandler::default();
        assert!(handler.handle_packet(&two_packet_msg(CH1, 0x03, &p1, 0)).is_none());
        assert!(handler.channels.len() == 1);
        assert!(handler.handle_packet(&two_packet_msg(CH0, 0x10, &p0, 0)).is_none());
        assert!(handler.channels.len() == 2);
        assert!(handler.handle_packet(&two_packet_msg(CH2, 0x01, &p2, 0)).is_none());
        assert!(handler.channels.len() == 3);
        check_delivered(handler.handle_packet(&two_packet_msg(CH1, 0x03, &p1, 1)), CH1, 0x03, &p1);
        assert!(handler.channels.len() == 2);
        check_delivered(handler.handle_packet(&two_packet_msg(CH2, 0x01, &p2, 1)), CH2, 0x01, &p2);
        assert!(handler.channels.len() == 1);
        check_delivered(handler.handle_packet(&two_packet_msg(CH0, 0x10, &p0, 1)), CH0, 0x10, &p0);
        assert!(handler.channels.len() == 0);
        kani::cover!(true);
        core::mem::forget(handler);
    }

    #[kani::proof]
    #[kani::unwind(62)]
    fn c16_interleave3_102201() {
        let p0: [u8; 60] = kani::any();
        let p1: [u8; 60] = kani::any();
        let p2: [u8; 60] = kani::any();
        let mut handler = ChannelHandler::default();
        assert!(handler.handle_packet(&two_packet_msg(CH1, 0x03, &p1, 0)).is_none());
        assert!(handler.channels.len() == 1);
        assert!(handler.handle_packet(&two_packet_msg(CH0, 0x10, &p0, 0)).is_none());
        assert!(handler.channels.len() == 2);
        assert!(handler.handle_packet(&two_packet_msg(CH2, 0x01, &p2, 0)).is_none());
        assert!(handler.channels.len() == 3);
        check_delivered(handler.handle_packet(&two_packet_msg(CH2, 0x01, &p2, 1)), CH2, 0x01, &p2);
        assert!(handler.channels.len() == 2);
        check_delivered(handler.handle_packet(&two_packet_msg(CH0, 0x10, &p0, 1)), CH0, 0x10, &p0);
        assert!(handler.channels.len() == 1);
        check_delivered(handler.handle_packet(&two_packet_msg(CH1, 0x03, &p1, 1)), CH1, 0x03, &p1);
        assert!(handler.channels.len() == 0);
        kani::cover!(true);
        core::mem::forget(handler);
    }

    #[kani::proof]
    #[kani::unwind(62)]
    fn c16_interleave3_102210() {
        let p0: [u8; 60] = kani::any();
        let p1: [u8; 60] = kani::any();
        let p2: [u8; 60] = kani::any();
        let mut handler = ChannelHandler::default();
        assert!(handler.handle_packet(&two_packet_msg(CH1, 0x03, &p1, 0)).is_none());
        assert!(handler.channels.len() == 1);
        assert!(handler.handle_packet(&two_packet_msg(CH0, 0x10, &p0, 0)).is_none());
        assert!(handler.channels.len() == 2);
        assert!(handler.handle_packet(&two_packet_msg(CH2, 0x01, &p2, 0)).is_none());
        assert!(handler.channels.len() == 3);
        check_delivered(handler.handle_packet(&two_packet_msg(CH2, 0x01, &p2, 1)), CH2, 0x01, &p2);
        assert!(handler.channels.len() == 2);
        check_delivered(handler.handle_packet(&two_packet_msg(CH1, 0x03, &p1, 1)), CH1, 0x03, &p1);
        assert!(handler.channels.len() == 1);
        check_delivered(handler.handle_packet(&two_packet_msg(CH0, 0x10, &p0, 1)), CH0, 0x10, &p0);
        assert!(handler.channels.len() == 0);
        kani::cover!(true);
        core::mem::forget(handler);
    }

    #[kani::proof]
    #[kani::unwind(62)]
    fn c16_interleave3_110022() {
        let p0: [u8; 60] = kani::any();
        let p1: [u8; 60] = kani::any();
        let p2: [u8; 60] = kani::any();
        let mut handler = ChannelHandler::default();
        assert!(handler.handle_packet(&two_packet_msg(CH1, 0x03, &p1, 0)).is_none());
        assert!(handler.channels.len() == 1);
        check_delivered(handler.handle_packet(&two_packet_msg(CH1, 0x03, &p1, 1)), CH1, 0x03, &p1);
        assert!(handler.channels.len() == 0);
        assert!(handler.handle_packet(&two_packet_msg(CH0, 0x10, &p0, 0)).is_none());
        assert!(handler.channels.len() == 1);
        check_delivered(handler.handle_packet(&two_packet_msg(CH0, 0x10, &p0, 1)), CH0, 0x10, &p0);
        assert!(handler.channels.len() == 0);
        assert!(handler.handle_packet(&two_packet_msg(CH2, 0x01, &p2, 0)).is_none());
        assert!(handler.channels.len() == 1);
        check_delivered(handler.handle_packet(&two_packet_msg(CH2, 0x01, &p2, 1)), CH2, 0x01, &p2);
        assert!(handler.channels.len() == 0);
        kani::cover!(true);
        core::mem::forget(handler);
    }

    #[kani::proof]
    #[kani::unwind(62)]
    fn c16_interleave3_110202() {
        let p0: [u8; 60] = kani::any();
        let p1: [u8; 60] = kani::any();
        let p2: [u8; 60] = kani::any();
        let mut handler = ChannelHandler::default();
        assert!(handler.handle_packet(&two_packet_msg(CH1, 0x03, &p1, 0)).is_none());
        assert!(handler.channels.len() == 1);
        check_delivered(handler.handle_packet(&two_packet_msg(CH1, 0x03, &p1, 1)), CH1, 0x03, &p1);
        assert!(handler.channels.len() == 0);
        assert!(handler.handle_packet(&two_packet_msg(CH0, 0x10, &p0, 0)).is_none());
        assert!(handler.channels.len() == 1);
        assert!(handler.handle_packet(&two_packet_msg(CH2, 0x01, &p2, 0)).is_none());
        assert!(handler.channels.len() == 2);
        check_delivered(handler.handle_packet(&two_packet_msg(CH0, 0x10, &p0, 1)), CH0, 0x10, &p0);
        assert!(handler.channels.len() == 1);
        check_delivered(handler.handle_packet(&two_packet_msg(CH2, 0x01, &p2, 1)), CH2, 0x01, &p2);
        assert!(handler.channels.len() == 0);
        kani::cover!(true);
        core::mem::forget(handler);
    }

    #[kani::proof]
    #[kani::unwind(62)]
    fn c16_interleave3_110220() {
        let p0: [u8; 60] = kani::any();
        let p1: [u8; 60] = kani::any();
        let p2: [u8; 60] = kani::any();
        let mut handler = ChannelHandler::default();
        assert!(handler.handle_packet(&two_packet_msg(CH1, 0x03, &p1, 0)).is_none());
        assert!(handler.channels.len() == 1);
        check_delivered(handler.handle_packet(&two_packet_msg(CH1, 0x03, &p1, 1)), CH1, 0x03, &p1);
        assert!(handler.channels.len() == 0);
        assert!(handler.handle_packet(&two_packet_msg(CH0, 0x10, &p0, 0)).is_none());
        assert!(handler.channels.len() == 1);
        assert!(handler.handle_packet(&two_packet_msg(CH2, 0x01, &p2, 0)).is_none());
        assert!(handler.channels.len() == 2);
        check_delivered(handler.handle_packet(&two_packet_msg(CH2, 0x01, &p2, 1)), CH2, 0x01, &p2);
        assert!(handler.channels.len() == 1);
        check_delivered(handler.handle_packet(&two_packet_msg(CH0, 0x10, &p0, 1)), CH0, 0x10, &p0);
        assert!(handler.channels.len() == 0);
        kani::cover!(true);
        core::mem::forget(handler);
    }

    #[kani::proof]
    #[kani::unwind(62)]
    fn c16_interleave3_112002() {
        let p0: [u8; 60] = kani::any();
        let p1: [u8; 60] = kani::any();
        let p2: [u8; 60] = kani::any();
        let mut handler = ChannelHandler::default();
        assert!(handler.handle_packet(&two_packet_msg(CH1, 0x03, &p1, 0)).is_none());
        assert!(handler.channels.len() == 1);
        check_delivered(handler.handle_packet(&two_packet_msg(CH1, 0x03, &p1, 1)), CH1, 0x03, &p1);
        assert!(handler.channels.len() == 0);
        assert!(handler.handle_packet(&two_packet_msg(CH2, 0x01, &p2, 0)).is_none());
        assert!(handler.channels.len() == 1);
        assert!(handler.handle_packet(&two_packet_msg(CH0, 0x10, &p0, 0)).is_none());
        assert!(handler.channels.len() == 2);
        check_delivered(handler.handle_packet(&two_packet_msg(CH0, 0x10, &p0, 1)), CH0, 0x10, &p0);
        assert!(handler.channels.len() == 1);
        check_delivered(handler.handle_packet(&two_packet_msg(CH2, 0x01, &p2, 1)), CH2, 0x01, &p2);
        assert!(handler.channels.len() == 0);
        kani::cover!(true);
        core::mem::forget(handler);
    }

    #[kani::proof]
    #[kani::unwind(62)]
    fn c16_interleave3_112020() {
        let p0: [u8; 60] = kani::any();
        let p1: [u8; 60] = kani::any();
        let p2: [u8; 60] = kani::any();
        let mut handler = ChannelHandler::default();
        assert!(handler.handle_packet(&two_packet_msg(CH1, 0x03, &p1, 0)).is_none());
        assert!(handler.channels.len() == 1);
        check_delivered(handler.handle_packet(&two_packet_msg(CH1, 0x03, &p1, 1)), CH1, 0x03, &p1);
        assert!(handler.channels.len() == 0);
        assert!(handler.handle_packet(&two_packet_msg(CH2, 0x01, &p2, 0)).is_none());
        assert!(handler.channels.len() == 1);
        assert!(handler.handle_packet(&two_packet_msg(CH0, 0x10, &p0, 0)).is_none());
        assert!(handler.channels.len() == 2);
        check_delivered(handler.handle_packet(&two_packet_msg(CH2, 0x01, &p2, 1)), CH2, 0x01, &p2);
        assert!(handler.channels.len() == 1);
        check_delivered(handler.handle_packet(&two_packet_msg(CH0, 0x10, &p0, 1)), CH0, 0x10, &p0);
        assert!(handler.channels.len() == 0);
        kani::cover!(true);
        core::mem::forget(handler);
    }

    #[kani::proof]
    #[kani::unwind(62)]
    fn c16_interleave3_112200() {
        let p0: [u8; 60] = kani::any();
        let p1: [u8; 60] = kani::any();
        let p2: [u8; 60] = kani::any();
        let mut handler = ChannelHandler::default();
        assert!(handler.handle_packet(&two_packet_msg(CH1, 0x03, &p1, 0)).is_none());
        assert!(handler.channels.len() == 1);
        check_delivered(handler.handle_packet(&two_packet_msg(CH1, 0x03, &p1, 1)), CH1, 0x03, &p1);
        assert!(handler.channels.len() == 0);
        assert!(handler.handle_packet(&two_packet_msg(CH2, 0x01, &p2, 0)).is_none());
        assert!(handler.channels.len() == 1);
        check_delivered(handler.handle_packet(&two_packet_msg(CH2, 0x01, &p2, 1)), CH2, 0x01, &p2);
        assert!(handler.channels.len() == 0);
        assert!(handler.handle_packet(&two_packet_msg(CH0, 0x10, &p0, 0)).is_none());
        assert!(handler.channels.len() == 1);
        check_delivered(handler.handle_packet(&two_packet_msg(CH0, 0x10, &p0, 1)), CH0, 0x10, &p0);
        assert!(handler.channels.len() == 0);
        kani::cover!(true);
        core::mem::forget(handler);
    }

    #[kani::proof]
    #[kani::unwind(62)]
    fn c16_interleave3_120012() {
        let p0: [u8; 60] = kani::any();
        let p1: [u8; 60] = kani::any();
        let p2: [u8; 60] = kani::any();
        let mut handler = ChannelHandler::default();
        assert!(handler.handle_packet(&two_packet_msg(CH1, 0x03, &p1, 0)).is_none());
        assert!(handler.channels.len() == 1);
        assert!(handler.handle_packet(&two_packet_msg(CH2, 0x01, &p2, 0)).is_none());
        assert!(handler.channels.len() == 2);
        assert!(handler.handle_packet(&two_packet_msg(CH0, 0x10, &p0, 0)).is_none());
        assert!(handler.channels.len() == 3);
        check_delivered(handler.handle_packet(&two_packet_msg(CH0, 0x10, &p0, 1)), CH0, 0x10, &p0);
        assert!(handler.channels.len() == 2);
        check_delivered(handler.handle_packet(&two_packet_msg(CH1, 0x03, &p1, 1)), CH1, 0x03, &p1);
        assert!(handler.channels.len() == 1);
        check_delivered(handler.handle_packet(&two_packet_msg(CH2, 0x01, &p2, 1)), CH2, 0x01, &p2);
        assert!(handler.channels.len() == 0);
        kani::cover!(true);
        core::mem::forget(handler);
    }

    #[kani::proof]
    #[kani::unwind(62)]
    fn c16_interleave3_120021() {
        let p0: [u8; 60] = kani::any();
        let p1: [u8; 60] = kani::any();
        let p2: [u8; 60] = kani::any();
        let mut handler = ChannelHandler::default();
        assert!(handler.handle_packet(&two_packet_msg(CH1, 0x03, &p1, 0)).is_none());
        assert!(handler.channels.len() == 1);
        assert!(handler.handle_packet(&two_packet_msg(CH2, 0x01, &p2, 0)).is_none());
        assert!(handler.channels.len() == 2);
        assert!(handler.handle_packet(&two_packet_msg(CH0, 0x10, &p0, 0)).is_none());
        assert!(handler.channels.len() == 3);
        check_delivered(handler.handle_packet(&two_packet_msg(CH0, 0x10, &p0, 1)), CH0, 0x10, &p0);
        assert!(handler.channels.len() == 2);
        check_delivered(handler.handle_packet(&two_packet_msg(CH2, 0x01, &p2, 1)), CH2, 0x01, &p2);
        assert!(handler.channels.len() == 1);
        check_delivered(handler.handle_packet(&two_packet_msg(CH1, 0x03, &p1, 1)), CH1, 0x03, &p1);
        assert!(handler.channels.len() == 0);
        kani::cover!(true);
        core::mem::forget(handler);
    }

    #[kani::proof]
    #[kani::unwind(62)]
    fn c16_interleave3_120102() {
        let p0: [u8; 60] = kani::any();
        let p1: [u8; 60] = kani::any();
        let p2: [u8; 60] = kani::any();
        let mut handler = ChannelHandler::default();
        assert!(handler.handle_packet(&two_packet_msg(CH1, 0x03, &p1, 0)).is_none());
        assert!(handler.channels.len() == 1);
        assert!(handler.handle_packet(&two_packet_msg(CH2, 0x01, &p2, 0)).is_none());
        assert!(handler.channels.len() == 2);
        assert!(handler.handle_packet(&two_packet_msg(CH0, 0x10, &p0, 0)).is_none());
        assert!(handler.channels.len() == 3);
        check_delivered(handler.handle_packet(&two_packet_msg(CH1, 0x03, &p1, 1)), CH1, 0x03, &p1);
        assert!(handler.channels.len() == 2);
        check_delivered(handler.handle_packet(&two_packet_msg(CH0, 0x10, &p0, 1)), CH0, 0x10, &p0);
        assert!(handler.channels.len() == 1);
        check_delivered(handler.handle_packet(&two_packet_msg(CH2, 0x01, &p2, 1)), CH2, 0x01, &p2);
        assert!(handler.channels.len() == 0);
        kani::cover!(true);
        core::mem::forget(handler);
    }

    #[kani::proof]
    #[kani::unwind(62)]
    fn c16_interleave3_120120() {
        let p0: [u8; 60] = kani::any();
        let p1: [u8; 60] = kani::any();
        let p2: [u8; 60] = kani::any();
        let mut handler = ChannelHandler::default();
        assert!(handler.handle_packet(&two_packet_msg(CH1, 0x03, &p1, 0)).is_none());
        assert!(handler.channels.len() == 1);
        assert!(handler.handle_packet(&two_packet_msg(CH2, 0x01, &p2, 0)).is_none());
        assert!(handler.channels.len() == 2);
        assert!(handler.handle_packet(&two_packet_msg(CH0, 0x10, &p0, 0)).is_none());
        assert!(handler.channels.len() == 3);
        check_delivered(handler.handle_packet(&two_packet_msg(CH1, 0x03, &p1, 1)), CH1, 0x03, &p1);
        assert!(handler.channels.len() == 2);
        check_delivered(handler.handle_packet(&two_packet_msg(CH2, 0x01, &p2, 1)), CH2, 0x01, &p2);
        assert!(handler.channels.len() == 1);
        check_delivered(handler.handle_packet(&two_packet_msg(CH0, 0x10, &p0, 1)), CH0, 0x10, &p0);
        assert!(handler.channels.len() == 0);
        kani::cover!(true);
        core::mem::forget(handler);
    }

    #[kani::proof]
    #[kani::unwind(62)]
    fn c16_interleave3_120201() {
        let p0: [u8; 60] = kani::any();
        let p1: [u8; 60] = kani::any();
        let p2: [u8; 60] = kani::any();
        let mut handler = ChannelHandler::default();
        assert!(handler.handle_packet(&two_packet_msg(CH1, 0x03, &p1, 0)).is_none());
        assert!(handler.channels.len() == 1);
        assert!(handler.handle_packet(&two_packet_msg(CH2, 0x01, &p2, 0)).is_none());
        assert!(handler.channels.len() == 2);
        assert!(handler.handle_packet(&two_packet_msg(CH0, 0x10, &p0, 0)).is_none());
        assert!(handler.channels.len() == 3);
        check_delivered(handler.handle_packet(&two_packet_msg(CH2, 0x01, &p2, 1)), CH2, 0x01, &p2);
        assert!(handler.channels.len() == 2);
        check_delivered(handler.handle_packet(&two_packet_msg(CH0, 0x10, &p0, 1)), CH0, 0x10, &p0);
        assert!(handler.channels.len() == 1);
        check_delivered(handler.handle_packet(&two_packet_msg(CH1, 0x03, &p1, 1)), CH1, 0x03, &p1);
        assert!(handler.channels.len() == 0);
        kani::cover!(true);
        core::mem::forget(handler);
    }

    #[kani::proof]
    #[kani::unwind(62)]
    fn c16_interleave3_120210() {
        let p0: [u8; 60] = kani::any();
        let p1: [u8; 60] = kani::any();
        let p2: [u8; 60] = kani::any();
        let mut handler = ChannelHandler::default();
        assert!(handler.handle_packet(&two_packet_msg(CH1, 0x03, &p1, 0)).is_none());
        assert!(handler.channels.len() == 1);
        assert!(handler.handle_packet(&two_packet_msg(CH2, 0x01, &p2, 0)).is_none());
        assert!(handler.channels.len() == 2);
        assert!(handler.handle_packet(&two_packet_msg(CH0, 0x10, &p0, 0)).is_none());
        assert!(handler.channels.len() == 3);
        check_delivered(handler.handle_packet(&two_packet_msg(CH2, 0x01, &p2, 1)), CH2, 0x01, &p2);
        assert!(handler.channels.len() == 2);
        check_delivered(handler.handle_packet(&two_packet_msg(CH1, 0x03, &p1, 1)), CH1, 0x03, &p1);
        assert!(handler.channels.len() == 1);
        check_delivered(handler.handle_packet(&two_packet_msg(CH0, 0x10, &p0, 1)), CH0, 0x10, &p0);
        assert!(handler.channels.len() == 0);
        kani::cover!(true);
        core::mem::forget(handler);
    }

    #[kani::proof]
    #[kani::unwind(62)]
    fn c16_interleave3_121002() {
        let p0: [u8; 60] = kani::any();
        let p1: [u8; 60] = kani::any();
        let p2: [u8; 60] = kani::any();
        let mut handler = ChannelHandler::default();
        assert!(handler.handle_packet(&two_packet_msg(CH1, 0x03, &p1, 0)).is_none());
        assert!(handler.channels.len() == 1);
        assert!(handler.handle_packet(&two_packet_msg(CH2, 0x01, &p2, 0)).is_none());
        assert!(handler.channels.len() == 2);
        check_delivered(handler.handle_packet(&two_packet_msg(CH1, 0x03, &p1, 1)), CH1, 0x03, &p1);
        assert!(handler.channels.len() == 1);
        assert!(handler.handle_packet(&two_packet_msg(CH0, 0x10, &p0, 0)).is_none());
        assert!(handler.channels.len() == 2);
        check_delivered(handler.handle_packet(&two_packet_msg(CH0, 0x10, &p0, 1)), CH0, 0x10, &p0);
        assert!(handler.channels.len() == 1);
        check_delivered(handler.handle_packet(&two_packet_msg(CH2, 0x01, &p2, 1)), CH2, 0x01, &p2);
        assert!(handler.channels.len() == 0);
        kani::cover!(true);
        core::mem::forget(handler);
    }

    #[kani::proof]
    #[kani::unwind(62)]
    fn c16_interleave3_121020() {
        let p0: [u8; 60] = kani::any();
        let p1: [u8; 60] = kani::any();
        let p2: [u8; 60] = kani::any();
        let mut handler = ChannelHandler::default();
        assert!(handler.handle_packet(&two_packet_msg(CH1, 0x03, &p1, 0)).is_none());
        assert!(handler.channels.len() == 1);
        assert!(handler.handle_packet(&two_packet_msg(CH2, 0x01, &p2, 0)).is_none());
        assert!(handler.channels.len() == 2);
        check_delivered(handler.handle_packet(&two_packet_msg(CH1, 0x03, &p1, 1)), CH1, 0x03, &p1);
        assert!(handler.channels.len() == 1);
        assert!(handler.handle_packet(&two_packet_msg(CH0, 0x10, &p0, 0)).is_none());
        assert!(handler.channels.len() == 2);
        check_delivered(handler.handle_packet(&two_packet_msg(CH2, 0x01, &p2, 1)), CH2, 0x01, &p2);
        assert!(handler.channels.len() == 1);
        check_delivered(handler.handle_packet(&two_packet_msg(CH0, 0x10, &p0, 1)), CH0, 0x10, &p0);
        assert!(handler.channels.len() == 0);
        kani::cover!(true);
        core::mem::forget(handler);
    }

    #[kani::proof]
    #[kani::unwind(62)]
    fn c16_interleave3_121200() {
        let p0: [u8; 60] = kani::any();
        let p1: [u8; 60] = kani::any();
        let p2: [u8; 60] = kani::any();
        let mut handler = ChannelHandler::default();
        assert!(handler.handle_packet(&two_packet_msg(CH1, 0x03, &p1, 0)).is_none());
        assert!(handler.channels.len() == 1);
        assert!(handler.handle_packet(&two_packet_msg(CH2, 0x01, &p2, 0)).is_none());
        assert!(handler.channels.len() == 2);
        check_delivered(handler.handle_packet(&two_packet_msg(CH1, 0x03, &p1, 1)), CH1, 0x03, &p1);
        assert!(handler.channels.len() == 1);
        check_delivered(handler.handle_packet(&two_packet_msg(CH2, 0x01, &p2, 1)), CH2, 0x01, &p2);
        assert!(handler.channels.len() == 0);
        assert!(handler.handle_packet(&two_packet_msg(CH0, 0x10, &p0, 0)).is_none());
        assert!(handler.channels.len() == 1);
        check_delivered(handler.handle_packet(&two_packet_msg(CH0, 0x10, &p0, 1)), CH0, 0x10, &p0);
        assert!(handler.channels.len() == 0);
        kani::cover!(true);
        core::mem::forget(handler);
    }

    #[kani::proof]
    #[kani::unwind(62)]
    fn c16_interleave3_122001() {
        let p0: [u8; 60] = kani::any();
        let p1: [u8; 60] = kani::any();
        let p2: [u8; 60] = kani::any();
        let mut handler = ChannelHandler::default();
        assert!(handler.handle_packet(&two_packet_msg(CH1, 0x03, &p1, 0)).is_none());
        assert!(handler.channels.len() == 1);
        assert!(handler.handle_packet(&two_packet_msg(CH2, 0x01, &p2, 0)).is_none());
        assert!(handler.channels.len() == 2);
        check_delivered(handler.handle_packet(&two_packet_msg(CH2, 0x01, &p2, 1)), CH2, 0x01, &p2);
        assert!(handler.channels.len() == 1);
        assert!(handler.handle_packet(&two_packet_msg(CH0, 0x10, &p0, 0)).is_none());
        assert!(handler.channels.len() == 2);
        check_delivered(handler.handle_packet(&two_packet_msg(CH0, 0x10, &p0, 1)), CH0, 0x10, &p0);
        assert!(handler.channels.len() == 1);
        check_delivered(handler.handle_packet(&two_packet_msg(CH1, 0x03, &p1, 1)), CH1, 0x03, &p1);
        assert!(handler.channels.len() == 0);
        kani::cover!(true);
        core::mem::forget(handler);
    }

    #[kani::proof]
    #[kani::unwind(62)]
    fn c16_interleave3_122010() {
        let p0: [u8; 60] = kani::any();
        let p1: [u8; 60] = kani::any();
        let p2: [u8; 60] = kani::any();
        let mut handler = ChannelHandler::default();
        assert!(handler.handle_packet(&two_packet_msg(CH1, 0x03, &p1, 0)).is_none());
        assert!(handler.channels.len() == 1);
        assert!(handler.handle_packet(&two_packet_msg(CH2, 0x01, &p2, 0)).is_none());
        assert!(handler.channels.len() == 2);
        check_delivered(handler.handle_packet(&two_packet_msg(CH2, 0x01, &p2, 1)), CH2, 0x01, &p2);
        assert!(handler.channels.len() == 1);
        assert!(handler.handle_packet(&two_packet_msg(CH0, 0x10, &p0, 0)).is_none());
        assert!(handler.channels.len() == 2);
        check_delivered(handler.handle_packet(&two_packet_msg(CH1, 0x03, &p1, 1)), CH1, 0x03, &p1);
        assert!(handler.channels.len() == 1);
        check_delivered(handler.handle_packet(&two_packet_msg(CH0, 0x10, &p0, 1)), CH0, 0x10, &p0);
        assert!(handler.channels.len() == 0);
        kani::cover!(true);
        core::mem::forget(handler);
    }

    #[kani::proof]
    #[kani::unwind(62)]
    fn c16_interleave3_122100() {
        let p0: [u8; 60] = kani::any();
        let p1: [u8; 60] = kani::any();
        let p2: [u8; 60] = kani::any();
        let mut handler = ChannelHandler::default();
        assert!(handler.handle_packet(&two_packet_msg(CH1, 0x03, &p1, 0)).is_none());
        assert!(handler.channels.len() == 1);
        assert!(handler.handle_packet(&two_packet_msg(CH2, 0x01, &p2, 0)).is_none());
        assert!(handler.channels.len() == 2);
        check_delivered(handler.handle_packet(&two_packet_msg(CH2, 0x01, &p2, 1)), CH2, 0x01, &p2);
        assert!(handler.channels.len() == 1);
        check_delivered(handler.handle_packet(&two_packet_msg(CH1, 0x03, &p1, 1)), CH1, 0x03, &p1);
        assert!(handler.channels.len() == 0);
        assert!(handler.handle_packet(&two_packet_msg(CH0, 0x10, &p0, 0)).is_none());
        assert!(handler.channels.len() == 1);
        check_delivered(handler.handle_packet(&two_packet_msg(CH0, 0x10, &p0, 1)), CH0, 0x10, &p0);
        assert!(handler.channels.len() == 0);
        kani::cover!(true);
        core::mem::forget(handler);
    }

    #[kani::proof]
    #[kani::unwind(62)]
    fn c16_interleave3_200112() {
        let p0: [u8; 60] = kani::any();
        let p1: [u8; 60] = kani::any();
        let p2: [u8; 60] = kani::any();
        let mut handler = ChannelHandler::default();
        assert!(handler.handle_packet(&two_packet_msg(CH2, 0x01, &p2, 0)).is_none());
        assert!(handler.channels.len() == 1);
        assert!(handler.handle_packet(&two_packet_msg(CH0, 0x10, &p0, 0)).is_none());
        assert!(handler.channels.len() == 2);
        check_delivered(handler.handle_packet(&two_packet_msg(CH0, 0x10, &p0, 1)), CH0, 0x10, &p0);
        assert!(handler.channels.len() == 1);
        assert!(handler.handle_packet(&two_packet_msg(CH1, 0x03, &p1, 0)).is_none());
        assert!(handler.channels.len() == 2);
        check_delivered(handler.handle_packet(&two_packet_msg(CH1, 0x03, &p1, 1)), CH1, 0x03, &p1);
        assert!(handler.channels.len() == 1);
        check_delivered(handler.handle_packet(&two_packet_msg(CH2, 0x01, &p2, 1)), CH2, 0x01, &p2);
        assert!(handler.channels.len() == 0);
        kani::cover!(true);
        core::mem::forget(handler);
    }

    #[kani::proof]
    #[kani::unwind(62)]
    fn c16_interleave3_200121() {
        let p0: [u8; 60] = kani::any();
        let p1: [u8; 60] = kani::any();
        let p2: [u8; 60] = kani::any();
        let mut handler = ChannelHandler::default();
        assert!(handler.handle_packet(&two_packet_msg(CH2, 0x01, &p2, 0)).is_none());
        assert!(handler.channels.len() == 1);
        assert!(handler.handle_packet(&two_packet_msg(CH0, 0x10, &p0, 0)).is_none());
        assert!(handler.channels.len() == 2);
        check_delivered(handler.handle_packet(&two_packet_msg(CH0, 0x10, &p0, 1)), CH0, 0x10, &p0);
        assert!(handler.channels.len() == 1);
        assert!(handler.handle_packet(&two_packet_msg(CH1, 0x03, &p1, 0)).is_none());
        assert!(handler.channels.len() == 2);
        check_delivered(handler.handle_packet(&two_packet_msg(CH2, 0x01, &p2, 1)), CH2, 0x01, &p2);
        assert!(handler.channels.len() == 1);
        check_delivered(handler.handle_packet(&two_packet_msg(CH1, 0x03, &p1, 1)), CH1, 0x03, &p1);
        assert!(handler.channels.len() == 0);
        kani::cover!(true);
        core::mem::forget(handler);
    }

    #[kani::proof]
    #[kani::unwind(62)]
    fn c16_interleave3_200211() {
        let p0: [u8; 60] = kani::any();
        let p1: [u8; 60] = kani::any();
        let p2: [u8; 60] = kani::any();
        let mut handler = ChannelHandler::default();
        assert!(handler.handle_packet(&two_packet_msg(CH2, 0x01, &p2, 0)).is_none());
        assert!(handler.channels.len() == 1);
        assert!(handler.handle_packet(&two_packet_msg(CH0, 0x10, &p0, 0)).is_none());
        assert!(handler.channels.len() == 2);
        check_delivered(handler.handle_packet(&two_packet_msg(CH0, 0x10, &p0, 1)), CH0, 0x10, &p0);
        assert!(handler.channels.len() == 1);
        check_delivered(handler.handle_packet(&two_packet_msg(CH2, 0x01, &p2, 1)), CH2, 0x01, &p2);
        assert!(handler.channels.len() == 0);
        assert!(handler.handle_packet(&two_packet_msg(CH1, 0x03, &p1, 0)).is_none());
        assert!(handler.channels.len() == 1);
        check_delivered(handler.handle_packet(&two_packet_msg(CH1, 0x03, &p1, 1)), CH1, 0x03, &p1);
        assert!(handler.channels.len() == 0);
        kani::cover!(true);
        core::mem::forget(handler);
    }

    #[kani::proof]
    #[kani::unwind(62)]
    fn c16_interleave3_201012() {
        let p0: [u8; 60] = kani::any();
        let p1: [u8; 60] = kani::any();
        let p2: [u8; 60] = kani::any();
        let mut handler = ChannelHandler::default();
        assert!(handler.handle_packet(&two_packet_msg(CH2, 0x01, &p2, 0)).is_none());
        assert!(handler.channels.len() == 1);
        assert!(handler.handle_packet(&two_packet_msg(CH0, 0x10, &p0, 0)).is_none());
        assert!(handler.channels.len() == 2);
        assert!(handler.handle_packet(&two_packet_msg(CH1, 0x03, &p1, 0)).is_none());
        assert!(handler.channels.len() == 3);
        check_delivered(handler.handle_packet(&two_packet_msg(CH0, 0x10, &p0, 1)), CH0, 0x10, &p0);
        assert!(handler.channels.len() == 2);
        check_delivered(handler.handle_packet(&two_packet_msg(CH1, 0x03, &p1, 1)), CH1, 0x03, &p1);
        assert!(handler.channels.len() == 1);
        check_delivered(handler.handle_packet(&two_packet_msg(CH2, 0x01, &p2, 1)), CH2, 0x01, &p2);
        assert!(handler.channels.len() == 0);
        kani::cover!(true);
        core::mem::forget(handler);
    }

    #[kani::proof]
    #[kani::unwind(62)]
    fn c16_interleave3_201021() {
        let p0: [u8; 60] = kani::any();
        let p1: [u8; 60] = kani::any();
        let p2: [u8; 60] = kani::any();
        let mut handler = ChannelHandler::default();
        assert!(handler.handle_packet(&two_packet_msg(CH2, 0x01, &p2, 0)).is_none());
        assert!(handler.channels.len() == 1);
        assert!(handler.handle_packet(&two_packet_msg(CH0, 0x10, &p0, 0)).is_none());
        assert!(handler.channels.len() == 2);
        assert!(handler.handle_packet(&two_packet_msg(CH1, 0x03, &p1, 0)).is_none());
        assert!(handler.channels.len() == 3);
        check_delivered(handler.handle_packet(&two_packet_msg(CH0, 0x10, &p0, 1)), CH0, 0x10, &p0);
        assert!(handler.channels.len() == 2);
        check_delivered(handler.handle_packet(&two_packet_msg(CH2, 0x01, &p2, 1)), CH2, 0x01, &p2);
        assert!(handler.channels.len() == 1);
        check_delivered(handler.handle_packet(&two_packet_msg(CH1, 0x03, &p1, 1)), CH1, 0x03, &p1);
        assert!(handler.channels.len() == 0);
        kani::cover!(true);
        core::mem::forget(handler);
    }

    #[kani::proof]
    #[kani::unwind(62)]
    fn c16_interleave3_201102() {
        let p0: [u8; 60] = kani::any();
        let p1: [u8; 60] = kani::any();
        let p2: [u8; 60] = kani::any();
        let mut handler = ChannelHandler::default();
        assert!(handler.handle_packet(&two_packet_msg(CH2, 0x01, &p2, 0)).is_none());
        assert!(handler.channels.len() == 1);
        assert!(handler.handle_packet(&two_packet_msg(CH0, 0x10, &p0, 0)).is_none());
        assert!(handler.channels.len() == 2);
        assert!(handler.handle_packet(&two_packet_msg(CH1, 0x03, &p1, 0)).is_none());
        assert!(handler.channels.len() == 3);
        check_delivered(handler.handle_packet(&two_packet_msg(CH1, 0x03, &p1, 1)), CH1, 0x03, &p1);
        assert!(handler.channels.len() == 2);
        check_delivered(handler.handle_packet(&two_packet_msg(CH0, 0x10, &p0, 1)), CH0, 0x10, &p0);
        assert!(handler.channels.len() == 1);
        check_delivered(handler.handle_packet(&two_packet_msg(CH2, 0x01, &p2, 1)), CH2, 0x01, &p2);
        assert!(handler.channels.len() == 0);
        kani::cover!(true);
        core::mem::forget(handler);
    }

    #[kani::proof]
    #[kani::unwind(62)]
    fn c16_interleave3_201120() {
        let p0: [u8; 60] = kani::any();
        let p1: [u8; 60] = kani::any();
        let p2: [u8; 60] = kani::any();
        let mut handler = ChannelHandler::default();
        assert!(handler.handle_packet(&two_packet_msg(CH2, 0x01, &p2, 0)).is_none());
        assert!(handler.channels.len() == 1);
        assert!(handler.handle_packet(&two_packet_msg(CH0, 0x10, &p0, 0)).is_none());
        assert!(handler.channels.len() == 2);
        assert!(handler.handle_packet(&two_packet_msg(CH1, 0x03, &p1, 0)).is_none());
        assert!(handler.channels.len() == 3);
        check_delivered(handler.handle_packet(&two_packet_msg(CH1, 0x03, &p1, 1)), CH1, 0x03, &p1);
        assert!(handler.channels.len() == 2);
        check_delivered(handler.handle_packet(&two_packet_msg(CH2, 0x01, &p2, 1)), CH2, 0x01, &p2);
        assert!(handler.channels.len() == 1);
        check_delivered(handler.handle_packet(&two_packet_msg(CH0, 0x10, &p0, 1)), CH0, 0x10, &p0);
        assert!(handler.channels.len() == 0);
        kani::cover!(true);
        core::mem::forget(handler);
    }

    #[kani::proof]
    #[kani::unwind(62)]
    fn c16_interleave3_201201() {
        let p0: [u8; 60] = kani::any();
        let p1: [u8; 60] = kani::any();
        let p2: [u8; 60] = kani::any();
        let mut handler = ChannelHandler::default();
        assert!(handler.handle_packet(&two_packet_msg(CH2, 0x01, &p2, 0)).is_none());
        assert!(handler.channels.len() == 1);
        assert!(handler.handle_packet(&two_packet_msg(CH0, 0x10, &p0, 0)).is_none());
        assert!(handler.channels.len() == 2);
        assert!(handler.handle_packet(&two_packet_msg(CH1, 0x03, &p1, 0)).is_none());
        assert!(handler.channels.len() == 3);
        check_delivered(handler.handle_packet(&two_packet_msg(CH2, 0x01, &p2, 1)), CH2, 0x01, &p2);
        assert!(handler.channels.len() == 2);
        check_delivered(handler.handle_packet(&two_packet_msg(CH0, 0x10, &p0, 1)), CH0, 0x10, &p0);
        assert!(handler.channels.len() == 1);
        check_delivered(handler.handle_packet(&two_packet_msg(CH1, 0x03, &p1, 1)), CH1, 0x03, &p1);
        assert!(handler.channels.len() == 0);
        kani::cover!(true);
        core::mem::forget(handler);
    }

    #[kani::proof]
    #[kani::unwind(62)]
    fn c16_interleave3_201210() {
        let p0: [u8; 60] = kani::any();
        let p1: [u8; 60] = kani::any();
        let p2: [u8; 60] = kani::any();
        let mut handler = ChannelHandler::default();
        assert!(handler.handle_packet(&two_packet_msg(CH2, 0x01, &p2, 0)).is_none());
        assert!(handler.channels.len() == 1);
        assert!(handler.handle_packet(&two_packet_msg(CH0, 0x10, &p0, 0)).is_none());
        assert!(handler.channels.len() == 2);
        assert!(handler.handle_packet(&two_packet_msg(CH1, 0x03, &p1, 0)).is_none());
        assert!(handler.channels.len() == 3);
        check_delivered(handler.handle_packet(&two_packet_msg(CH2, 0x01, &p2, 1)), CH2, 0x01, &p2);
        assert!(handler.channels.len() == 2);
        check_delivered(handler.handle_packet(&two_packet_msg(CH1, 0x03, &p1, 1)), CH1, 0x03, &p1);
        assert!(handler.channels.len() == 1);
        check_delivered(handler.handle_packet(&two_packet_msg(CH0, 0x10, &p0, 1)), CH0, 0x10, &p0);
        assert!(handler.channels.len() == 0);
        kani::cover!(true);
        core::mem::forget(handler);
    }

    #[kani::proof]
    #[kani::unwind(62)]
    fn c16_interleave3_202011() {
        let p0: [u8; 60] = kani::any();
        let p1: [u8; 60] = kani::any();
        let p2: [u8; 60] = kani::any();
        let mut handler = ChannelHandler::default();
        assert!(handler.handle_packet(&two_packet_msg(CH2, 0x01, &p2, 0)).is_none());
        assert!(handler.channels.len() == 1);
        assert!(handler.handle_packet(&two_packet_msg(CH0, 0x10, &p0, 0)).is_none());
        assert!(handler.channels.len() == 2);
        check_delivered(handler.handle_packet(&two_packet_msg(CH2, 0x01, &p2, 1)), CH2, 0x01, &p2);
        assert!(handler.channels.len() == 1);
        check_delivered(handler.handle_packet(&two_packet_msg(CH0, 0x10, &p0, 1)), CH0, 0x10, &p0);
        assert!(handler.channels.len() == 0);
        assert!(handler.handle_packet(&two_packet_msg(CH1, 0x03, &p1, 0)).is_none());
        assert!(handler.channels.len() == 1);
        check_delivered(handler.handle_packet(&two_packet_msg(CH1, 0x03, &p1, 1)), CH1, 0x03, &p1);
        assert!(handler.channels.len() == 0);
        kani::cover!(true);
        core::mem::forget(handler);
    }

    #[kani::proof]
    #[kani::unwind(62)]
    fn c16_interleave3_202101() {
        let p0: [u8; 60] = kani::any();
        let p1: [u8; 60] = kani::any();
        let p2: [u8; 60] = kani::any();
        let mut handler = ChannelHandler::default();
        assert!(handler.handle_packet(&two_packet_msg(CH2, 0x01, &p2, 0)).is_none());
        assert!(handler.channels.len() == 1);
        assert!(handler.handle_packet(&two_packet_msg(CH0, 0x10, &p0, 0)).is_none());
        assert!(handler.channels.len() == 2);
        check_delivered(handler.handle_packet(&two_packet_msg(CH2, 0x01, &p2, 1)), CH2, 0x01, &p2);
        assert!(handler.channels.len() == 1);
        assert!(handler.handle_packet(&two_packet_msg(CH1, 0x03, &p1, 0)).is_none());
        assert!(handler.channels.len() == 2);
        check_delivered(handler.handle_packet(&two_packet_msg(CH0, 0x10, &p0, 1)), CH0, 0x10, &p0);
        assert!(handler.channels.len() == 1);
        check_delivered(handler.handle_packet(&two_packet_msg(CH1, 0x03, &p1, 1)), CH1, 0x03, &p1);
        assert!(handler.channels.len() == 0);
        kani::cover!(true);
        core::mem::forget(handler);
    }

    #[kani::proof]
    #[kani::unwind(62)]
    fn c16_interleave3_202110() {
        let p0: [u8; 60] = kani::any();
        let p1: [u8; 60] = kani::any();
        let p2: [u8; 60] = kani::any();
        let mut handler = ChannelHandler::default();
        assert!(handler.handle_packet(&two_packet_msg(CH2, 0x01, &p2, 0)).is_none());
        assert!(handler.channels.len() == 1);
        assert!(handler.handle_packet(&two_packet_msg(CH0, 0x10, &p0, 0)).is_none());
        assert!(handler.channels.len() == 2);
        check_delivered(handler.handle_packet(&two_packet_msg(CH2, 0x01, &p2, 1)), CH2, 0x01, &p2);
        assert!(handler.channels.len() == 1);
        assert!(handler.handle_packet(&two_packet_msg(CH1, 0x03, &p1, 0)).is_none());
        assert!(handler.channels.len() == 2);
        check_delivered(handler.handle_packet(&two_packet_msg(CH1, 0x03, &p1, 1)), CH1, 0x03, &p1);
        assert!(handler.channels.len() == 1);
        check_delivered(handler.handle_packet(&two_packet_msg(CH0, 0x10, &p0, 1)), CH0, 0x10, &p0);
        assert!(handler.channels.len() == 0);
        kani::cover!(true);
        core::mem::forget(handler);
    }

    #[kani::proof]
    #[kani::unwind(62)]
    fn c16_interleave3_210012() {
        let p0: [u8; 60] = kani::any();
        let p1: [u8; 60] = kani::any();
        let p2: [u8; 60] = kani::any();
        let mut handler = ChannelHandler::default();
        assert!(handler.handle_packet(&two_packet_msg(CH2, 0x01, &p2, 0)).is_none());
        assert!(handler.channels.len() == 1);
        assert!(handler.handle_packet(&two_packet_msg(CH1, 0x03, &p1, 0)).is_none());
        assert!(handler.channels.len() == 2);
        assert!(handler.handle_packet(&two_packet_msg(CH0, 0x10, &p0, 0)).is_none());
        assert!(handler.channels.len() == 3);
        check_delivered(handler.handle_packet(&two_packet_msg(CH0, 0x10, &p0, 1)), CH0, 0x10, &p0);
        assert!(handler.channels.len() == 2);
        check_delivered(handler.handle_packet(&two_packet_msg(CH1, 0x03, &p1, 1)), CH1, 0x03, &p1);
        assert!(handler.channels.len() == 1);
        check_delivered(handler.handle_packet(&two_packet_msg(CH2, 0x01, &p2, 1)), CH2, 0x01, &p2);
        assert!(handler.channels.len() == 0);
        kani::cover!(true);
        core::mem::forget(handler);
    }

    #[kani::proof]
    #[kani::unwind(62)]
    fn c16_interleave3_210021() {
        let p0: [u8; 60] = kani::any();
        let p1: [u8; 60] = kani::any();
        let p2: [u8; 60] = kani::any();
        let mut handler = ChannelHandler::default();
        assert!(handler.handle_packet(&two_packet_msg(CH2, 0x01, &p2, 0)).is_none());
        assert!(handler.channels.len() == 1);
        assert!(handler.handle_packet(&two_packet_msg(CH1, 0x03, &p1, 0)).is_none());
        assert!(handler.channels.len() == 2);
        assert!(handler.handle_packet(&two_packet_msg(CH0, 0x10, &p0, 0)).is_none());
        assert!(handler.channels.len() == 3);
        check_delivered(handler.handle_packet(&two_packet_msg(CH0, 0x10, &p0, 1)), CH0, 0x10, &p0);
        assert!(handler.channels.len() == 2);
        check_delivered(handler.handle_packet(&two_packet_msg(CH2, 0x01, &p2, 1)), CH2, 0x01, &p2);
        assert!(handler.channels.len() == 1);
        check_delivered(handler.handle_packet(&two_packet_msg(CH1, 0x03, &p1, 1)), CH1, 0x03, &p1);
        assert!(handler.channels.len() == 0);
        kani::cover!(true);
        core::mem::forget(handler);
    }

    #[kani::proof]
    #[kani::unwind(62)]
    fn c16_interleave3_210102() {
        let p0: [u8; 60] = kani::any();
        let p1: [u8; 60] = kani::any();
        let p2: [u8; 60] = kani::any();
        let mut handler = ChannelHandler::default();
        assert!(handler.handle_packet(&two_packet_msg(CH2, 0x01, &p2, 0)).is_none());
        assert!(handler.channels.len() == 1);
        assert!(handler.handle_packet(&two_packet_msg(CH1, 0x03, &p1, 0)).is_none());
        assert!(handler.channels.len() == 2);
        assert!(handler.handle_packet(&two_packet_msg(CH0, 0x10, &p0, 0)).is_none());
        assert!(handler.channels.len() == 3);
        check_delivered(handler.handle_packet(&two_packet_msg(CH1, 0x03, &p1, 1)), CH1, 0x03, &p1);
        assert!(handler.channels.len() == 2);
        check_delivered(handler.handle_packet(&two_packet_msg(CH0, 0x10, &p0, 1)), CH0, 0x10, &p0);
        assert!(handler.channels.len() == 1);
        check_delivered(handler.handle_packet(&two_packet_msg(CH2, 0x01, &p2, 1)), CH2, 0x01, &p2);
        assert!(handler.channels.len() == 0);
        kani::cover!(true);
        core::mem::forget(handler);
    }

    #[kani::proof]
    #[kani::unwind(62)]
    fn c16_interleave3_210120() {
        let p0: [u8; 60] = kani::any();
        let p1: [u8; 60] = kani::any();
        let p2: [u8; 60] = kani::any();
        let mut handler = ChannelHandler::default();
        assert!(handler.handle_packet(&two_packet_msg(CH2, 0x01, &p2, 0)).is_none());
        assert!(handler.channels.len() == 1);
        assert!(handler.handle_packet(&two_packet_msg(CH1, 0x03, &p1, 0)).is_none());
        assert!(handler.channels.len() == 2);
        assert!(handler.handle_packet(&two_packet_msg(CH0, 0x10, &p0, 0)).is_none());
        assert!(handler.channels.len() == 3);
        check_delivered(handler.handle_packet(&two_packet_msg(CH1, 0x03, &p1, 1)), CH1, 0x03, &p1);
        assert!(handler.channels.len() == 2);
        check_delivered(handler.handle_packet(&two_packet_msg(CH2, 0x01, &p2, 1)), CH2, 0x01, &p2);
        assert!(handler.channels.len() == 1);
        check_delivered(handler.handle_packet(&two_packet_msg(CH0, 0x10, &p0, 1)), CH0, 0x10, &p0);
        assert!(handler.channels.len() == 0);
        kani::cover!(true);
        core::mem::forget(handler);
    }

    #[kani::proof]
    #[kani::unwind(62)]
    fn c16_interleave3_210201() {
        let p0: [u8; 60] = kani::any();
        let p1: [u8; 60] = kani::any();
        let p2: [u8; 60] = kani::any();
        let mut handler = ChannelHandler::default();
        assert!(handler.handle_packet(&two_packet_msg(CH2, 0x01, &p2, 0)).is_none());
        assert!(handler.channels.len() == 1);
        assert!(handler.handle_packet(&two_packet_msg(CH1, 0x03, &p1, 0)).is_none());
        assert!(handler.channels.len() == 2);
        assert!(handler.handle_packet(&two_packet_msg(CH0, 0x10, &p0, 0)).is_none());
        assert!(handler.channels.len() == 3);
        check_delivered(handler.handle_packet(&two_packet_msg(CH2, 0x01, &p2, 1)), CH2, 0x01, &p2);
        assert!(handler.channels.len() == 2);
        check_delivered(handler.handle_packet(&two_packet_msg(CH0, 0x10, &p0, 1)), CH0, 0x10, &p0);
        assert!(handler.channels.len() == 1);
        check_delivered(handler.handle_packet(&two_packet_msg(CH1, 0x03, &p1, 1)), CH1, 0x03, &p1);
        assert!(handler.channels.len() == 0);
        kani::cover!(true);
        core::mem::forget(handler);
    }

    #[kani::proof]
    #[kani::unwind(62)]
    fn c16_interleave3_210210() {
        let p0: [u8; 60] = kani::any();
        let p1: [u8; 60] = kani::any();
        let p2: [u8; 60] = kani::any();
        let mut handler = ChannelHandler::default();
        assert!(handler.handle_packet(&two_packet_msg(CH2, 0x01, &p2, 0)).is_none());
        assert!(handler.channels.len() == 1);
        assert!(handler.handle_packet(&two_packet_msg(CH1, 0x03, &p1, 0)).is_none());
        assert!(handler.channels.len() == 2);
        assert!(handler.handle_packet(&two_packet_msg(CH0, 0x10, &p0, 0)).is_none());
        assert!(handler.channels.len() == 3);
        check_delivered(handler.handle_packet(&two_packet_msg(CH2, 0x01, &p2, 1)), CH2, 0x01, &p2);
        assert!(handler.channels.len() == 2);
        check_delivered(handler.handle_packet(&two_packet_msg(CH1, 0x03, &p1, 1)), CH1, 0x03, &p1);
        assert!(handler.channels.len() == 1);
        check_delivered(handler.handle_packet(&two_packet_msg(CH0, 0x10, &p0, 1)), CH0, 0x10, &p0);
        assert!(handler.channels.len() == 0);
        kani::cover!(true);
        core::mem::forget(handler);
    }

    #[kani::proof]
    #[kani::unwind(62)]
    fn c16_interleave3_211002() {
        let p0: [u8; 60] = kani::any();
        let p1: [u8; 60] = kani::any();
        let p2: [u8; 60] = kani::any();
        let mut handler = ChannelHandler::default();
        assert!(handler.handle_packet(&two_packet_msg(CH2, 0x01, &p2, 0)).is_none());
        assert!(handler.channels.len() == 1);
        assert!(handler.handle_packet(&two_packet_msg(CH1, 0x03, &p1, 0)).is_none());
        assert!(handler.channels.len() == 2);
        check_delivered(handler.handle_packet(&two_packet_msg(CH1, 0x03, &p1, 1)), CH1, 0x03, &p1);
        assert!(handler.channels.len() == 1);
        assert!(handler.handle_packet(&two_packet_msg(CH0, 0x10, &p0, 0)).is_none());
        assert!(handler.channels.len() == 2);
        check_delivered(handler.handle_packet(&two_packet_msg(CH0, 0x10, &p0, 1)), CH0, 0x10, &p0);
        assert!(handler.channels.len() == 1);
        check_delivered(handler.handle_packet(&two_packet_msg(CH2, 0x01, &p2, 1)), CH2, 0x01, &p2);
        assert!(handler.channels.len() == 0);
        kani::cover!(true);
        core::mem::forget(handler);
    }

    #[kani::proof]
    #[kani::unwind(62)]
    fn c16_interleave3_211020() {
        let p0: [u8; 60] = kani::any();
        let p1: [u8; 60] = kani::any();
        let p2: [u8; 60] = kani::any();
        let mut handler = ChannelHandler::default();
        assert!(handler.handle_packet(&two_packet_msg(CH2, 0x01, &p2, 0)).is_none());
        assert!(handler.channels.len() == 1);
        assert!(handler.handle_packet(&two_packet_msg(CH1, 0x03, &p1, 0)).is_none());
        assert!(handler.channels.len() == 2);
        check_delivered(handler.handle_packet(&two_packet_msg(CH1, 0x03, &p1, 1)), CH1, 0x03, &p1);
        assert!(handler.channels.len() == 1);
        assert!(handler.handle_packet(&two_packet_msg(CH0, 0x10, &p0, 0)).is_none());
        assert!(handler.channels.len() == 2);
        check_delivered(handler.handle_packet(&two_packet_msg(CH2, 0x01, &p2, 1)), CH2, 0x01, &p2);
        assert!(handler.channels.len() == 1);
        check_delivered(handler.handle_packet(&two_packet_msg(CH0, 0x10, &p0, 1)), CH0, 0x10, &p0);
        assert!(handler.channels.len() == 0);
        kani::cover!(true);
        core::mem::forget(handler);
    }

    #[kani::proof]
    #[kani::unwind(62)]
    fn c16_interleave3_211200() {
        let p0: [u8; 60] = kani::any();
        let p1: [u8; 60] = kani::any();
        let p2: [u8; 60] = kani::any();
        let mut handler = ChannelHandler::default();
        assert!(handler.handle_packet(&two_packet_msg(CH2, 0x01, &p2, 0)).is_none());
        assert!(handler.channels.len() == 1);
        assert!(handler.handle_packet(&two_packet_msg(CH1, 0x03, &p1, 0)).is_none());
        assert!(handler.channels.len() == 2);
        check_delivered(handler.handle_packet(&two_packet_msg(CH1, 0x03, &p1, 1)), CH1, 0x03, &p1);
        assert!(handler.channels.len() == 1);
        check_delivered(handler.handle_packet(&two_packet_msg(CH2, 0x01, &p2, 1)), CH2, 0x01, &p2);
        assert!(handler.channels.len() == 0);
        assert!(handler.handle_packet(&two_packet_msg(CH0, 0x10, &p0, 0)).is_none());
        assert!(handler.channels.len() == 1);
        check_delivered(handler.handle_packet(&two_packet_msg(CH0, 0x10, &p0, 1)), CH0, 0x10, &p0);
        assert!(handler.channels.len() == 0);
        kani::cover!(true);
        core::mem::forget(handler);
    }

    #[kani::proof]
    #[kani::unwind(62)]
    fn c16_interleave3_212001() {
        let p0: [u8; 60] = kani::any();
        let p1: [u8; 60] = kani::any();
        let p2: [u8; 60] = kani::any();
        let mut handler = ChannelHandler::default();
        assert!(handler.handle_packet(&two_packet_msg(CH2, 0x01, &p2, 0)).is_none());
        assert!(handler.channels.len() == 1);
        assert!(handler.handle_packet(&two_packet_msg(CH1, 0x03, &p1, 0)).is_none());
        assert!(handler.channels.len() == 2);
        check_delivered(handler.handle_packet(&two_packet_msg(CH2, 0x01, &p2, 1)), CH2, 0x01, &p2);
        assert!(handler.channels.len() == 1);
        assert!(handler.handle_packet(&two_packet_msg(CH0, 0x10, &p0, 0)).is_none());
        assert!(handler.channels.len() == 2);
        check_delivered(handler.handle_packet(&two_packet_msg(CH0, 0x10, &p0, 1)), CH0, 0x10, &p0);
        assert!(handler.channels.len() == 1);
        check_delivered(handler.handle_packet(&two_packet_msg(CH1, 0x03, &p1, 1)), CH1, 0x03, &p1);
        assert!(handler.channels.len() == 0);
        kani::cover!(true);
        core::mem::forget(handler);
    }

    #[kani::proof]
    #[kani::unwind(62)]
    fn c16_interleave3_212010() {
        let p0: [u8; 60] = kani::any();
        let p1: [u8; 60] = kani::any();
        let p2: [u8; 60] = kani::any();
        let mut handler = ChannelHandler::default();
        assert!(handler.handle_packet(&two_packet_msg(CH2, 0x01, &p2, 0)).is_none());
        assert!(handler.channels.len() == 1);
        assert!(handler.handle_packet(&two_packet_msg(CH1, 0x03, &p1, 0)).is_none());
        assert!(handler.channels.len() == 2);
        check_delivered(handler.handle_packet(&two_packet_msg(CH2, 0x01, &p2, 1)), CH2, 0x01, &p2);
        assert!(handler.channels.len() == 1);
        assert!(handler.handle_packet(&two_packet_msg(CH0, 0x10, &p0, 0)).is_none());
        assert!(handler.channels.len() == 2);
        check_delivered(handler.handle_packet(&two_packet_msg(CH1, 0x03, &p1, 1)), CH1, 0x03, &p1);
        assert!(handler.channels.len() == 1);
        check_delivered(handler.handle_packet(&two_packet_msg(CH0, 0x10, &p0, 1)), CH0, 0x10, &p0);
        assert!(handler.channels.len() == 0);
        kani::cover!(true);
        core::mem::forget(handler);
    }

    #[kani::proof]
    #[kani::unwind(62)]
    fn c16_interleave3_212100() {
        let p0: [u8; 60] = kani::any();
        let p1: [u8; 60] = kani::any();
        let p2: [u8; 60] = kani::any();
        let mut handler = ChannelHandler::default();
        assert!(handler.handle_packet(&two_packet_msg(CH2, 0x01, &p2, 0)).is_none());
        assert!(handler.channels.len() == 1);
        assert!(handler.handle_packet(&two_packet_msg(CH1, 0x03, &p1, 0)).is_none());
        assert!(handler.channels.len() == 2);
        check_delivered(handler.handle_packet(&two_packet_msg(CH2, 0x01, &p2, 1)), CH2, 0x01, &p2);
        assert!(handler.channels.len() == 1);
        check_delivered(handler.handle_packet(&two_packet_msg(CH1, 0x03, &p1, 1)), CH1, 0x03, &p1);
        assert!(handler.channels.len() == 0);
        assert!(handler.handle_packet(&two_packet_msg(CH0, 0x10, &p0, 0)).is_none());
        assert!(handler.channels.len() == 1);
        check_delivered(handler.handle_packet(&two_packet_msg(CH0, 0x10, &p0, 1)), CH0, 0x10, &p0);
        assert!(handler.channels.len() == 0);
        kani::cover!(true);
        core::mem::forget(handler);
    }

    #[kani::proof]
    #[kani::unwind(62)]
    fn c16_interleave3_220011() {
        let p0: [u8; 60] = kani::any();
        let p1: [u8; 60] = kani::any();
        let p2: [u8; 60] = kani::any();
        let mut handler = ChannelHandler::default();
        assert!(handler.handle_packet(&two_packet_msg(CH2, 0x01, &p2, 0)).is_none());
        assert!(handler.channels.len() == 1);
        check_delivered(handler.handle_packet(&two_packet_msg(CH2, 0x01, &p2, 1)), CH2, 0x01, &p2);
        assert!(handler.channels.len() == 0);
        assert!(handler.handle_packet(&two_packet_msg(CH0, 0x10, &p0, 0)).is_none());
        assert!(handler.channels.len() == 1);
        check_delivered(handler.handle_packet(&two_packet_msg(CH0, 0x10, &p0, 1)), CH0, 0x10, &p0);
        assert!(handler.channels.len() == 0);
        assert!(handler.handle_packet(&two_packet_msg(CH1, 0x03, &p1, 0)).is_none());
        assert!(handler.channels.len() == 1);
        check_delivered(handler.handle_packet(&two_packet_msg(CH1, 0x03, &p1, 1)), CH1, 0x03, &p1);
        assert!(handler.channels.len() == 0);
        kani::cover!(true);
        core::mem::forget(handler);
    }

    #[kani::proof]
    #[kani::unwind(62)]
    fn c16_interleave3_220101() {
        let p0: [u8; 60] = kani::any();
        let p1: [u8; 60] = kani::any();
        let p2: [u8; 60] = kani::any();
        let mut handler = ChannelHandler::default();
        assert!(handler.handle_packet(&two_packet_msg(CH2, 0x01, &p2, 0)).is_none());
        assert!(handler.channels.len() == 1);
        check_delivered(handler.handle_packet(&two_packet_msg(CH2, 0x01, &p2, 1)), CH2, 0x01, &p2);
        assert!(handler.channels.len() == 0);
        assert!(handler.handle_packet(&two_packet_msg(CH0, 0x10, &p0, 0)).is_none());
        assert!(handler.channels.len() == 1);
        assert!(handler.handle_packet(&two_packet_msg(CH1, 0x03, &p1, 0)).is_none());
        assert!(handler.channels.len() == 2);
        check_delivered(handler.handle_packet(&two_packet_msg(CH0, 0x10, &p0, 1)), CH0, 0x10, &p0);
        assert!(handler.channels.len() == 1);
        check_delivered(handler.handle_packet(&two_packet_msg(CH1, 0x03, &p1, 1)), CH1, 0x03, &p1);
        assert!(handler.channels.len() == 0);
        kani::cover!(true);
        core::mem::forget(handler);
    }

    #[kani::proof]
    #[kani::unwind(62)]
    fn c16_interleave3_220110() {
        let p0: [u8; 60] = kani::any();
        let p1: [u8; 60] = kani::any();
        let p2: [u8; 60] = kani::any();
        let mut handler = ChannelHandler::default();
        assert!(handler.handle_packet(&two_packet_msg(CH2, 0x01, &p2, 0)).is_none());
        assert!(handler.channels.len() == 1);
        check_delivered(handler.handle_packet(&two_packet_msg(CH2, 0x01, &p2, 1)), CH2, 0x01, &p2);
        assert!(handler.channels.len() == 0);
        assert!(handler.handle_packet(&two_packet_msg(CH0, 0x10, &p0, 0)).is_none());
        assert!(handler.channels.len() == 1);
        assert!(handler.handle_packet(&two_packet_msg(CH1, 0x03, &p1, 0)).is_none());
        assert!(handler.channels.len() == 2);
        check_delivered(handler.handle_packet(&two_packet_msg(CH1, 0x03, &p1, 1)), CH1, 0x03, &p1);
        assert!(handler.channels.len() == 1);
        check_delivered(handler.handle_packet(&two_packet_msg(CH0, 0x10, &p0, 1)), CH0, 0x10, &p0);
        assert!(handler.channels.len() == 0);
        kani::cover!(true);
        core::mem::forget(handler);
    }

    #[kani::proof]
    #[kani::unwind(62)]
    fn c16_interleave3_221001() {
        let p0: [u8; 60] = kani::any();
        let p1: [u8; 60] = kani::any();
        let p2: [u8; 60] = kani::any();
        let mut handler = ChannelHandler::default();
        assert!(handler.handle_packet(&two_packet_msg(CH2, 0x01, &p2, 0)).is_none());
        assert!(handler.channels.len() == 1);
        check_delivered(handler.handle_packet(&two_packet_msg(CH2, 0x01, &p2, 1)), CH2, 0x01, &p2);
        assert!(handler.channels.len() == 0);
        assert!(handler.handle_packet(&two_packet_msg(CH1, 0x03, &p1, 0)).is_none());
        assert!(handler.channels.len() == 1);
        assert!(handler.handle_packet(&two_packet_msg(CH0, 0x10, &p0, 0)).is_none());
        assert!(handler.channels.len() == 2);
        check_delivered(handler.handle_packet(&two_packet_msg(CH0, 0x10, &p0, 1)), CH0, 0x10, &p0);
        assert!(handler.channels.len() == 1);
        check_delivered(handler.handle_packet(&two_packet_msg(CH1, 0x03, &p1, 1)), CH1, 0x03, &p1);
        assert!(handler.channels.len() == 0);
        kani::cover!(true);
        core::mem::forget(handler);
    }

    #[kani::proof]
    #[kani::unwind(62)]
    fn c16_interleave3_221010() {
        let p0: [u8; 60] = kani::any();
        let p1: [u8; 60] = kani::any();
        let p2: [u8; 60] = kani::any();
        let mut handler = ChannelHandler::default();
        assert!(handler.handle_packet(&two_packet_msg(CH2, 0x01, &p2, 0)).is_none());
        assert!(handler.channels.len() == 1);
        check_delivered(handler.handle_packet(&two_packet_msg(CH2, 0x01, &p2, 1)), CH2, 0x01, &p2);
        assert!(handler.channels.len() == 0);
        assert!(handler.handle_packet(&two_packet_msg(CH1, 0x03, &p1, 0)).is_none());
        assert!(handler.channels.len() == 1);
        assert!(handler.handle_packet(&two_packet_msg(CH0, 0x10, &p0, 0)).is_none());
        assert!(handler.channels.len() == 2);
        check_delivered(handler.handle_packet(&two_packet_msg(CH1, 0x03, &p1, 1)), CH1, 0x03, &p1);
        assert!(handler.channels.len() == 1);
        check_delivered(handler.handle_packet(&two_packet_msg(CH0, 0x10, &p0, 1)), CH0, 0x10, &p0);
        assert!(handler.channels.len() == 0);
        kani::cover!(true);
        core::mem::forget(handler);
    }

    #[kani::proof]
    #[kani::unwind(62)]
    fn c16_interleave3_221100() {
        let p0: [u8; 60] = kani::any();
        let p1: [u8; 60] = kani::any();
        let p2: [u8; 60] = kani::any();
        let mut handler = ChannelHandler::default();
        assert!(handler.handle_packet(&two_packet_msg(CH2, 0x01, &p2, 0)).is_none());
        assert!(handler.channels.len() == 1);
        check_delivered(handler.handle_packet(&two_packet_msg(CH2, 0x01, &p2, 1)), CH2, 0x01, &p2);
        assert!(handler.channels.len() == 0);
        assert!(handler.handle_packet(&two_packet_msg(CH1, 0x03, &p1, 0)).is_none());
        assert!(handler.channels.len() == 1);
        check_delivered(handler.handle_packet(&two_packet_msg(CH1, 0x03, &p1, 1)), CH1, 0x03, &p1);
        assert!(handler.channels.len() == 0);
        assert!(handler.handle_packet(&two_packet_msg(CH0, 0x10, &p0, 0)).is_none());
        assert!(handler.channels.len() == 1);
        check_delivered(handler.handle_packet(&two_packet_msg(CH0, 0x10, &p0, 1)), CH0, 0x10, &p0);
        assert!(handler.channels.len() == 0);
        kani::cover!(true);
        core::mem::forget(handler);
    }

    /// A continuation packet for a channel with no message in progress yields nothing and does not
    /// disturb the message in progress on another channel.  (sequence number fixed per instance,
    /// all 59 data bytes symbolic)
    fn stray_continuation(seq: u8, empty_first: bool) {
        let c0: u32 = CH0;
        let c1: u32 = CH1;
        let p0: [u8; 60] = kani::any();
        let cmd0 = 0x10;
        let mut handler = ChannelHandler::default();
        let body: [u8; 59] = kani::any();
        let mut stray = [0u8; 64];
        let chb = c1.to_ne_bytes();
        stray[0] = chb[0];
        stray[1] = chb[1];
        stray[2] = chb[2];
        stray[3] = chb[3];
        stray[4] = seq;
        let mut i = 0;
        while i < 59 {
            stray[5 + i] = body[i];
            i += 1;
        }
        if empty_first {
            // nothing in progress at all
            assert!(handler.handle_packet(&stray).is_none());
            assert!(handler.channels.len() == 0);
        }
        assert!(handler.handle_packet(&two_packet_msg(c0, cmd0, &p0, 0)).is_none());
        assert!(handler.handle_packet(&stray).is_none());
        assert!(handler.channels.len() == 1);
        let got = handler.handle_packet(&two_packet_msg(c0, cmd0, &p0, 1));
        check_delivered(got, c0, cmd0, &p0);
        kani::cover!(true);
        core::mem::forget(handler);
    }

    #[kani::proof]
    #[kani::unwind(62)]
    fn c16_stray_continuation_seq0() {
        stray_continuation(0, true);
    }

    #[kani::proof]
    #[kani::unwind(62)]
    fn c16_stray_continuation_seq1() {
        stray_continuation(1, false);
    }

    /// out-of-order continuation on the *same* channel is ignored and the message still completes
    #[kani::proof]
    #[kani::unwind(62)]
    fn c16_out_of_order_same_channel() {
        let p0: [u8; 60] = kani::any();
        let mut handler = ChannelHandler::default();
        assert!(handler.handle_packet(&two_packet_msg(CH0, 0x10, &p0, 0)).is_none());
        // a continuation with sequence number 1 while 0 is expected
        let body: [u8; 59] = kani::any();
        let mut bad = [0u8; 64];
        let chb = CH0.to_ne_bytes();
        bad[0] = chb[0];
        bad[1] = chb[1];
        bad[2] = chb[2];
        bad[3] = chb[3];
        bad[4] = 1;
        let mut i = 0;
        while i < 59 {
            bad[5 + i] = body[i];
            i += 1;
        }
        assert!(handler.handle_packet(&bad).is_none());
        assert!(handler.channels.len() == 1);
        let got = handler.handle_packet(&two_packet_msg(CH0, 0x10, &p0, 1));
        check_delivered(got, CH0, 0x10, &p0);
        kani::cover!(true);
        core::mem::forget(handler);
    }

    // ---------- C15: arbitrary packets of any length, no panic ----------------------------------

    #[kani::proof]
    #[kani::unwind(72)]
    fn c15_hid_one_packet_any_len() {
        let buf: [u8; 70] = kani::any();
        let len: usize = kani::any();
        kani::assume(len <= 70);
        let mut handler = ChannelHandler::default();
        let got = handler.handle_packet(&buf[..len]);
        if let Some(m) = &got {
            // whatever is delivered is complete and no longer than one packet's worth
            assert!(m.payload.len() == m.payload_len);
            kani::cover!(m.payload_len == 57);
        }
        kani::cover!(got.is_none() && len == 64);
        core::mem::forget(got);
        core::mem::forget(handler);
    }

    #[kani::proof]
    #[kani::unwind(72)]
    fn c15_hid_one_packet_any_len_twin() {
        let buf: [u8; 70] = kani::any();
        let len: usize = kani::any();
        kani::assume(len <= 70);
        let mut handler = ChannelHandler::default();
        let got = handler.handle_packet(&buf[..len]);
        core::mem::forget(got);
        core::mem::forget(handler);
        assert!(false);
    }

    /// two arbitrary packets of arbitrary lengths (any order, any channels): no panic, and a
    /// delivered message never holds more bytes than were announced
    #[kani::proof]
    #[kani::unwind(72)]
    fn c15_hid_two_packets_any_len() {
        let mut handler = ChannelHandler::default();
        let b1: [u8; 70] = kani::any();
        let l1: usize = kani::any();
        kani::assume(l1 <= 70);
        let g1 = handler.handle_packet(&b1[..l1]);
        core::mem::forget(g1);
        let b2: [u8; 70] = kani::any();
        let l2: usize = kani::any();
        kani::assume(l2 <= 70);
        let g2 = handler.handle_packet(&b2[..l2]);
        if let Some(m) = &g2 {
            assert!(m.payload.len() == m.payload_len);
            kani::cover!(m.payload_len > 57);
        }
        core::mem::forget(g2);
        core::mem::forget(handler);
    }

    /// three arbitrary 64-byte packets on one channel: the sequence counter never overflows,
    /// no arithmetic underflow in the remaining-bytes computation
    #[kani::proof]
    #[kani::unwind(66)]
    fn c15_hid_three_packets_64() {
        let mut handler = ChannelHandler::default();
        let mut k = 0;
        while k < 3 {
            let b: [u8; 64] = kani::any();
            let g = handler.handle_packet(&b);
            if let Some(m) = &g {
                assert!(m.payload.len() == m.payload_len);
                kani::cover!(k == 2 && m.payload_len == 120);
            }
            core::mem::forget(g);
            k += 1;
        }
        core::mem::forget(handler);
    }

    #[kani::proof]
    #[kani::unwind(8)]
    fn c15_hid_header_any_len() {
        let buf: [u8; 70] = kani::any();
        let len: usize = kani::any();
        kani::assume(len <= 70);
        let r = PacketHeader::try_from(&buf[..len]);
        if let Ok((h, data)) = &r {
            match h {
                PacketHeader::Initialization(i) => {
                    assert!(buf[4] & 0x80 != 0);
                    assert!(i.payload_len == ((buf[5] as usize) << 8 | buf[6] as usize));
                    kani::cover!(i.payload_len == 0);
                }
                PacketHeader::Continuation(c) => {
                    assert!(buf[4] & 0x80 == 0 && c.seq == buf[4]);
                    kani::cover!(c.seq == 127);
                }
            }
        } else {
            kani::cover!(len == 64);
        }
    }
}
