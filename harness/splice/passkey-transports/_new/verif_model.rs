//! Model of the standard `HashMap` used only under `cfg(kani)` (std's hashbrown tables are out of
//! reach for CBMC, DESIGN.md F4).  It is an association list with at most `CAP` live entries and
//! the `insert` / `get_mut` / `remove` semantics of a map.  More than `CAP` simultaneously
//! live keys are outside the bound (`kani::assume(false)`).
pub const CAP: usize = 4;

pub struct HashMap<K, V> {
    slots: [Option<(K, V)>; CAP],
}

impl<K, V> Default for HashMap<K, V> {
    fn default() -> Self {
        Self {
            slots: [None, None, None, None],
        }
    }
}

impl<K: PartialEq + Copy, V> HashMap<K, V> {
    pub fn insert(&mut self, k: K, v: V) -> Option<V> {
        let mut i = 0;
        while i < CAP {
            if let Some((kk, _)) = &self.slots[i] {
                if *kk == k {
                    return self.slots[i].replace((k, v)).map(|(_, old)| old);
                }
            }
            i += 1;
        }
        let mut i = 0;
        while i < CAP {
            if self.slots[i].is_none() {
                self.slots[i] = Some((k, v));
                return None;
            }
            i += 1;
        }
        kani::assume(false); // more than CAP live keys: outside the bound
        None
    }

    pub fn get_mut(&mut self, k: &K) -> Option<&mut V> {
        let mut found = CAP;
        let mut i = 0;
        while i < CAP {
            if let Some((kk, _)) = &self.slots[i] {
                if kk == k {
                    found = i;
                }
            }
            i += 1;
        }
        if found == CAP {
            return None;
        }
        self.slots[found].as_mut().map(|(_, v)| v)
    }

    pub fn remove(&mut self, k: &K) -> Option<V> {
        let mut i = 0;
        while i < CAP {
            let hit = matches!(&self.slots[i], Some((kk, _)) if kk == k);
            if hit {
                return self.slots[i].take().map(|(_, v)| v);
            }
            i += 1;
        }
        None
    }

    pub fn len(&self) -> usize {
        let mut n = 0;
        let mut i = 0;
        while i < CAP {
            if self.slots[i].is_some() {
                n += 1;
            }
            i += 1;
        }
        n
    }

    pub fn clear(&mut self) {
        let mut i = 0;
        while i < CAP {
            self.slots[i] = None;
            i += 1;
        }
    }

    pub fn is_empty(&self) -> bool {
        self.len() == 0
    }

    pub fn get(&self, k: &K) -> Option<&V> {
        let mut i = 0;
        while i < CAP {
            if let Some((kk, v)) = &self.slots[i] {
                if kk == k {
                    return Some(v);
                }
            }
            i += 1;
        }
        None
    }

    pub fn retain<F: FnMut(&K, &mut V) -> bool>(&mut self, mut f: F) {
        let mut i = 0;
        while i < CAP {
            let keep = match &mut self.slots[i] {
                Some((k, v)) => f(k, v),
                None => true,
            };
            if !keep {
                self.slots[i] = None;
            }
            i += 1;
        }
    }

    pub fn contains_key(&self, k: &K) -> bool {
        let mut i = 0;
        while i < CAP {
            if matches!(&self.slots[i], Some((kk, _)) if kk == k) {
                return true;
            }
            i += 1;
        }
        false
    }
}
