#[cfg(kani)]
#[allow(unused, clippy::all)]
mod verif_proofs {
    use super::*;
    use crate::verif_support::*;
    use crate::DiscoverabilitySupport;
    use passkey_types::ctap2::{Aaguid, Ctap2Error};
    use passkey_types::webauthn;

    fn ga_request(up: bool, uv: bool, rk: bool, pin_auth: bool) -> get_assertion::Request {
        get_assertion::Request {
            rp_id: "a.example".into(),
            client_data_hash: vec![0u8; 4].into(),
            allow_list: None,
            extensions: None,
            options: make_credential::Options { rk, up, uv },
            pin_auth: pin_auth.then(|| vec![1u8, 2].into()),
            pin_protocol: None,
        }
    }

    fn mc_request(up: bool, uv: bool, rk: bool, supported_alg: bool) -> make_credential::Request {
        make_credential::Request {
            client_data_hash: vec![0u8; 4].into(),
            rp: make_credential::PublicKeyCredentialRpEntity {
                id: "a.example".into(),
                name: None,
            },
            user: webauthn::PublicKeyCredentialUserEntity {
                id: vec![9u8; 2].into(),
                display_name: String::new(),
                name: String::new(),
            },
            pub_key_cred_params: vec![webauthn::PublicKeyCredentialParameters {
                ty: webauthn::PublicKeyCredentialType::PublicKey,
                alg: if supported_alg {
                    coset::iana::Algorithm::ES256
                } else {
                    coset::iana::Algorithm::RS256
                },
            }],
            exclude_list: None,
            extensions: None,
            options: make_credential::Options { rk, up, uv },
            pin_auth: None,
            pin_protocol: None,
        }
    }

    /// Two authenticators in the same state (same symbolic capability, validation outcome and
    /// store script): one driven through the sealed trait, one through the direct method.
    struct Env {
        consent_ok_for: fn(&Env, bool, bool) -> bool,
        verification: Option<bool>,
        outcome_ok: bool,
        presence: bool,
        verified: bool,
        only_non_discoverable: bool,
    }

    fn consent_ok(e: &Env, up: bool, uv: bool) -> bool {
        (!uv || e.verification == Some(true)) && e.outcome_ok && (!up || e.presence) && (!uv || e.verified)
    }

    fn twin_authenticators() -> (Authenticator<SymStore, SymUser>, Authenticator<SymStore, SymUser>, Env) {
        let cap: u8 = kani::any();
        let find_status: u8 = kani::any();
        let u = SymUser::any();
        let mk_user = |u: &SymUser| SymUser {
            verification: u.verification,
            presence_enabled: u.presence_enabled,
            outcome_ok: u.outcome_ok,
            presence: u.presence,
            verified: u.verified,
            error: u.error,
            calls: std::cell::Cell::new(0),
            got_up: std::cell::Cell::new(false),
            got_uv: std::cell::Cell::new(false),
            got_credential: std::cell::Cell::new(false),
        };
        let mk_store = || {
            let mut s = SymStore::any();
            s.capability = cap;
            s.find_status = find_status;
            s
        };
        let a = Authenticator::new(Aaguid::new_empty(), mk_store(), mk_user(&u));
        let b = Authenticator::new(Aaguid::new_empty(), mk_store(), mk_user(&u));
        let env = Env {
            consent_ok_for: consent_ok,
            verification: u.verification,
            outcome_ok: u.outcome_ok,
            presence: u.presence,
            verified: u.verified,
            only_non_discoverable: a.store().discoverability() == DiscoverabilitySupport::OnlyNonDiscoverable,
        };
        (a, b, env)
    }

    fn same_log(a: &Authenticator<SymStore, SymUser>, b: &Authenticator<SymStore, SymUser>) -> bool {
        a.store().finds.get() == b.store().finds.get()
            && a.store().saves.get() == b.store().saves.get()
            && a.store().updates.get() == b.store().updates.get()
    }

    /// getAssertion through the trait terminates and equals the direct call, on every request that
    /// ends before signing (the lookup of the scripted store never returns a credential): pin-auth,
    /// rk, unsupported uv, denied or failed consent, lookup error after consent.
    #[kani::proof]
    #[kani::unwind(6)]
    fn c18_get_assertion_trait_equals_direct() {
        let (mut via_trait, mut direct, env) = twin_authenticators();
        let (up, uv, rk, pin): (bool, bool, bool, bool) = (kani::any(), kani::any(), kani::any(), kani::any());
        let r1 = block_on(Ctap2Api::get_assertion(&mut via_trait, ga_request(up, uv, rk, pin)));
        let r2 = block_on(direct.get_assertion(ga_request(up, uv, rk, pin)));
        match (&r1, &r2) {
            (Err(e1), Err(e2)) => {
                assert!(e1 == e2);
                kani::cover!(*e1 == StatusCode::from(Ctap2Error::PinAuthInvalid));
                kani::cover!(*e1 == StatusCode::from(Ctap2Error::OperationDenied));
                kani::cover!(*e1 == StatusCode::from(Ctap2Error::NoCredentials));
            }
            // the scripted store never yields a credential, so no assertion can be produced
            _ => assert!(false),
        }
        assert!(same_log(&via_trait, &direct));
        assert!(via_trait.store().mutations() == 0);
        core::mem::forget((r1, r2));
        core::mem::forget((via_trait, direct));
    }

    /// makeCredential through the trait equals the direct call on the requests that end before key
    /// generation: up = false, failed consent, unsupported algorithm, rk on a non-discoverable store
    #[kani::proof]
    #[kani::unwind(6)]
    fn c18_make_credential_trait_equals_direct() {
        let (mut via_trait, mut direct, env) = twin_authenticators();
        let (up, uv, rk, alg_ok): (bool, bool, bool, bool) = (kani::any(), kani::any(), kani::any(), kani::any());
        // keep the request inside the early-exit families (key generation is out of reach)
        kani::assume(!up || !alg_ok || (rk && env.only_non_discoverable) || !consent_ok(&env, up, uv));
        let r1 = block_on(Ctap2Api::make_credential(&mut via_trait, mc_request(up, uv, rk, alg_ok)));
        let r2 = block_on(direct.make_credential(mc_request(up, uv, rk, alg_ok)));
        match (&r1, &r2) {
            (Err(e1), Err(e2)) => {
                assert!(e1 == e2);
                kani::cover!(*e1 == StatusCode::from(Ctap2Error::InvalidOption));
                kani::cover!(*e1 == StatusCode::from(Ctap2Error::UnsupportedAlgorithm));
                kani::cover!(*e1 == StatusCode::from(Ctap2Error::UnsupportedOption));
            }
            _ => assert!(false),
        }
        assert!(same_log(&via_trait, &direct));
        assert!(via_trait.store().mutations() == 0);
        core::mem::forget((r1, r2));
        core::mem::forget((via_trait, direct));
    }

    #[kani::proof]
    #[kani::unwind(6)]
    fn c18_get_info_trait_equals_direct() {
        let (via_trait, direct, _env) = twin_authenticators();
        let i1 = block_on(Ctap2Api::get_info(&via_trait));
        let i2 = block_on(direct.get_info());
        let (o1, o2) = (i1.options.as_ref().unwrap(), i2.options.as_ref().unwrap());
        assert!(o1.rk == o2.rk && o1.uv == o2.uv && o1.up == o2.up);
        assert!(i1.extensions.is_none() == i2.extensions.is_none());
        assert!(i1.versions.len() == i2.versions.len());
        assert!(same_log(&via_trait, &direct));
        kani::cover!(true);
        core::mem::forget((i1, i2));
        core::mem::forget((via_trait, direct));
    }

    #[kani::proof]
    #[kani::unwind(6)]
    fn c18_twin() {
        let (mut via_trait, _direct, _env) = twin_authenticators();
        let r1 = block_on(Ctap2Api::get_assertion(&mut via_trait, ga_request(true, false, false, true)));
        kani::assume(r1.is_err());
        core::mem::forget(r1);
        assert!(false);
    }

}
