#[cfg(kani)]
pub(crate) mod verif_support;
