#[cfg(kani)]
#[allow(unused, clippy::all)]
mod verif_proofs {
    use super::*;
    use crate::verif_support::*;
    use passkey_types::webauthn::PublicKeyCredentialType;

    const RP_A: &str = "a";
    const RP_B: &str = "b";

    fn passkey(rp: &str, id: [u8; 1]) -> Passkey {
        Passkey {
            key: Default::default(),
            credential_id: id.to_vec().into(),
            rp_id: rp.into(),
            user_handle: None,
            counter: None,
            extensions: Default::default(),
        }
    }

    fn descriptor(id: [u8; 1]) -> PublicKeyCredentialDescriptor {
        PublicKeyCredentialDescriptor {
            ty: PublicKeyCredentialType::PublicKey,
            id: id.to_vec().into(),
            transports: None,
        }
    }

    // ------------------------------------------------------------------------------------------
    // C05: the documented lookup contract ("find all credentials matching the given ids and rp_id")
    // on the shipped single-slot store
    // ------------------------------------------------------------------------------------------
    #[kani::proof]
    #[kani::unwind(3)]
    fn c05_option_store_lookup_contract() {
        let stored_rp_is_a: bool = kani::any();
        let query_rp_is_a: bool = kani::any();
        let stored_id: [u8; 1] = kani::any();
        let occupied: bool = kani::any();
        let store: Option<Passkey> =
            occupied.then(|| passkey(if stored_rp_is_a { RP_A } else { RP_B }, stored_id));
        let query_rp = if query_rp_is_a { RP_A } else { RP_B };
        // id list: absent, or one or two entries with arbitrary ids
        let n: u8 = kani::any();
        kani::assume(n <= 2);
        let has_list: bool = kani::any();
        let id0: [u8; 1] = kani::any();
        let id1: [u8; 1] = kani::any();
        let mut list = Vec::with_capacity(2);
        if n >= 1 {
            list.push(descriptor(id0));
        }
        if n >= 2 {
            list.push(descriptor(id1));
        }
        let ids = if has_list { Some(list.as_slice()) } else { None };
        let r = block_on(store.find_credentials(ids, query_rp));

        let listed = (n >= 1 && id0 == stored_id) || (n >= 2 && id1 == stored_id);
        let want = occupied && stored_rp_is_a == query_rp_is_a && (!has_list || listed);
        match r {
            Ok(v) => {
                assert!(want);
                assert!(v.len() == 1);
                assert!(v[0].rp_id.as_str() == query_rp);
                assert!(v[0].credential_id.len() == 1);
                assert!(v[0].credential_id[0] == stored_id[0]);
                kani::cover!(has_list && n == 2 && id1 == stored_id && id0 != stored_id);
                kani::cover!(!has_list);
                core::mem::forget(v);
            }
            Err(e) => {
                assert!(!want);
                assert!(e == StatusCode::from(Ctap2Error::NoCredentials));
                kani::cover!(occupied && stored_rp_is_a != query_rp_is_a);
                kani::cover!(occupied && has_list && !listed);
                kani::cover!(!occupied);
            }
        }
        core::mem::forget(list);
        core::mem::forget(store);
    }

    #[kani::proof]
    #[kani::unwind(3)]
    fn c05_option_store_twin() {
        let store: Option<Passkey> = Some(passkey(RP_A, kani::any()));
        let r = block_on(store.find_credentials(None, RP_A));
        kani::assume(r.is_ok());
        core::mem::forget(r);
        core::mem::forget(store);
        assert!(false);
    }

    /// save / update on the single-slot store replace the slot with exactly the given credential
    #[kani::proof]
    #[kani::unwind(3)]
    fn c05_option_store_save_update() {
        let mut store: Option<Passkey> = None;
        let id: [u8; 1] = kani::any();
        let counter: Option<u32> = kani::any();
        let mut pk = passkey(RP_A, id);
        pk.counter = counter;
        let use_update: bool = kani::any();
        let r = if use_update {
            block_on(store.update_credential(pk))
        } else {
            block_on(store.save_credential(
                pk,
                PublicKeyCredentialUserEntity {
                    id: Vec::new().into(),
                    display_name: None,
                    name: None,
                    icon_url: None,
                },
                PublicKeyCredentialRpEntity {
                    id: String::new(),
                    name: None,
                },
                Options::default(),
            ))
        };
        assert!(r.is_ok());
        let got = store.as_ref().unwrap();
        assert!(got.counter == counter);
        assert!(got.rp_id.as_str() == RP_A);
        assert!(got.credential_id.len() == 1 && got.credential_id[0] == id[0]);
        kani::cover!(use_update);
        kani::cover!(!use_update);
        core::mem::forget(store);
    }

    // ------------------------------------------------------------------------------------------
    // C11: discoverability capability
    // ------------------------------------------------------------------------------------------
    #[kani::proof]
    fn c11_is_passkey_discoverable_table() {
        let cap = any_discoverability();
        let rk: bool = kani::any();
        let d = cap.is_passkey_discoverable(rk);
        match cap {
            DiscoverabilitySupport::Full => assert!(d == rk),
            DiscoverabilitySupport::OnlyNonDiscoverable => assert!(!d),
            DiscoverabilitySupport::ForcedDiscoverable => assert!(d),
        }
        kani::cover!(d && !rk);
        kani::cover!(!d && rk);
    }

    /// get_info().options.rk is false exactly for a store that only supports non-discoverable
    /// credentials; uv / up mirror the validation method's capabilities
    #[kani::proof]
    #[kani::unwind(4)]
    fn c11_get_info_rk_option() {
        let store = SymStore::any();
        let cap = store.discoverability();
        let user = SymUser::any();
        let (uv_cap, up_cap) = (user.verification, user.presence_enabled);
        let auth = crate::Authenticator::new(passkey_types::ctap2::Aaguid::new_empty(), store, user);
        let info = block_on(auth.get_info());
        let opts = info.options.as_ref().unwrap();
        assert!(opts.rk == (cap != DiscoverabilitySupport::OnlyNonDiscoverable));
        assert!(opts.uv == uv_cap);
        assert!(opts.up == up_cap);
        assert!(auth.store().mutations() == 0);
        kani::cover!(opts.rk);
        kani::cover!(!opts.rk);
        core::mem::forget(info);
        core::mem::forget(auth);
    }

    /// the shipped stores report ForcedDiscoverable
    #[kani::proof]
    #[kani::unwind(4)]
    fn c11_shipped_option_store_capability() {
        let store: Option<Passkey> = None;
        let info = block_on(store.get_info());
        assert!(info.discoverability == DiscoverabilitySupport::ForcedDiscoverable);
        kani::cover!(true);
    }
}
