//! Harness-side environment for the passkey-authenticator Kani harnesses (cfg(kani) only):
//! a single-poll executor, a user-validation double and a credential-store double whose outcomes
//! are symbolic, and the tagged stand-ins for HMAC / randomness.
#![allow(unused, missing_docs)]
use std::cell::Cell;
use std::future::Future;
use std::task::{Context, Poll, Waker};

use passkey_types::{
    ctap2::{
        get_assertion::Options,
        make_credential::{PublicKeyCredentialRpEntity, PublicKeyCredentialUserEntity},
        Ctap2Error, StatusCode,
    },
    webauthn::PublicKeyCredentialDescriptor,
    Passkey,
};

use crate::{CredentialStore, DiscoverabilitySupport, StoreInfo, UserCheck, UserValidationMethod};

/// Drives a future whose leaf futures are always ready.  A `Pending` is outside the model.
pub fn block_on<F: Future>(f: F) -> F::Output {
    let mut f = core::pin::pin!(f);
    let waker = Waker::noop();
    let mut cx = Context::from_waker(waker);
    match f.as_mut().poll(&mut cx) {
        Poll::Ready(v) => v,
        Poll::Pending => {
            kani::assume(false);
            unreachable!()
        }
    }
}

/// an arbitrary explicitly defined CTAP2 error
pub fn any_ctap2_error() -> Ctap2Error {
    let b: u8 = kani::any();
    match Ctap2Error::try_from(b) {
        Ok(e) => e,
        Err(_) => {
            kani::assume(false);
            unreachable!()
        }
    }
}

/// User validation with symbolic capability and outcome; records how it was called.
pub struct SymUser {
    pub verification: Option<bool>,
    pub presence_enabled: bool,
    pub outcome_ok: bool,
    pub presence: bool,
    pub verified: bool,
    pub error: Ctap2Error,
    pub calls: Cell<u8>,
    pub got_up: Cell<bool>,
    pub got_uv: Cell<bool>,
    pub got_credential: Cell<bool>,
}

impl SymUser {
    pub fn any() -> Self {
        let v: u8 = kani::any();
        Self {
            verification: match v % 3 {
                0 => None,
                1 => Some(false),
                _ => Some(true),
            },
            presence_enabled: kani::any(),
            outcome_ok: kani::any(),
            presence: kani::any(),
            verified: kani::any(),
            error: any_ctap2_error(),
            calls: Cell::new(0),
            got_up: Cell::new(false),
            got_uv: Cell::new(false),
            got_credential: Cell::new(false),
        }
    }
}

#[async_trait::async_trait]
impl UserValidationMethod for SymUser {
    type PasskeyItem = Passkey;

    async fn check_user<'a>(
        &self,
        credential: Option<&'a Passkey>,
        presence: bool,
        verification: bool,
    ) -> Result<UserCheck, Ctap2Error> {
        self.calls.set(self.calls.get() + 1);
        self.got_up.set(presence);
        self.got_uv.set(verification);
        self.got_credential.set(credential.is_some());
        if self.outcome_ok {
            Ok(UserCheck {
                presence: self.presence,
                verification: self.verified,
            })
        } else {
            Err(self.error)
        }
    }

    fn is_presence_enabled(&self) -> bool {
        self.presence_enabled
    }

    fn is_verification_enabled(&self) -> Option<bool> {
        self.verification
    }
}

// SAFETY (model): the harness executor is single threaded
unsafe impl Sync for SymUser {}
unsafe impl Send for SymUser {}

pub fn any_discoverability() -> DiscoverabilitySupport {
    let v: u8 = kani::any();
    match v % 3 {
        0 => DiscoverabilitySupport::Full,
        1 => DiscoverabilitySupport::OnlyNonDiscoverable,
        _ => DiscoverabilitySupport::ForcedDiscoverable,
    }
}

/// Credential store double: lookups fail with a scripted status (no credential is ever returned),
/// every call is logged.
pub struct SymStore {
    pub capability: u8,
    pub find_status: u8,
    pub finds: Cell<u8>,
    pub saves: Cell<u8>,
    pub updates: Cell<u8>,
    pub infos: Cell<u8>,
}

impl SymStore {
    pub fn any() -> Self {
        Self {
            capability: kani::any(),
            find_status: kani::any(),
            finds: Cell::new(0),
            saves: Cell::new(0),
            updates: Cell::new(0),
            infos: Cell::new(0),
        }
    }
    pub fn discoverability(&self) -> DiscoverabilitySupport {
        match self.capability % 3 {
            0 => DiscoverabilitySupport::Full,
            1 => DiscoverabilitySupport::OnlyNonDiscoverable,
            _ => DiscoverabilitySupport::ForcedDiscoverable,
        }
    }
    pub fn mutations(&self) -> u8 {
        self.saves.get() + self.updates.get()
    }
}

unsafe impl Sync for SymStore {}
unsafe impl Send for SymStore {}

#[async_trait::async_trait]
impl CredentialStore for SymStore {
    type PasskeyItem = Passkey;

    async fn find_credentials(
        &self,
        _ids: Option<&[PublicKeyCredentialDescriptor]>,
        _rp_id: &str,
    ) -> Result<Vec<Passkey>, StatusCode> {
        self.finds.set(self.finds.get() + 1);
        Err(StatusCode::from(self.find_status))
    }

    async fn save_credential(
        &mut self,
        _cred: Passkey,
        _user: PublicKeyCredentialUserEntity,
        _rp: PublicKeyCredentialRpEntity,
        _options: Options,
    ) -> Result<(), StatusCode> {
        self.saves.set(self.saves.get() + 1);
        Ok(())
    }

    async fn update_credential(&mut self, _cred: Passkey) -> Result<(), StatusCode> {
        self.updates.set(self.updates.get() + 1);
        Ok(())
    }

    async fn get_info(&self) -> StoreInfo {
        self.infos.set(self.infos.get() + 1);
        StoreInfo {
            discoverability: self.discoverability(),
        }
    }
}

/// Tagged stand-in for HMAC-SHA-256: the output names the key and the message (lengths, first
/// bytes, a byte from the middle and the last byte of each), so "which key, which message" is
/// observable.  HMAC itself is trusted (RustCrypto).
pub fn hmac_tag(key: &[u8], data: &[u8]) -> [u8; 32] {
    let mut out = [0u8; 32];
    out[0] = key.len() as u8;
    out[1] = data.len() as u8;
    let mut i = 0;
    while i < 6 {
        if i < key.len() {
            out[2 + i] = key[i];
        }
        i += 1;
    }
    if !key.is_empty() {
        out[8] = key[key.len() - 1];
        out[9] = key[key.len() / 2];
    }
    let mut i = 0;
    while i < 20 {
        if i < data.len() {
            out[10 + i] = data[i];
        }
        i += 1;
    }
    if !data.is_empty() {
        out[30] = data[data.len() - 1];
        out[31] = data[data.len() / 2];
    }
    out
}

/// stand-in for the random generator: `len` bytes of a fresh symbolic value
pub fn random_marked(len: usize) -> Vec<u8> {
    let b: u8 = kani::any();
    vec![b; len]
}
