#[cfg(kani)]
#[allow(unused, clippy::all)]
mod verif_proofs {
    use super::*;
    use crate::verif_support::*;
    use passkey_types::ctap2::make_credential::Options;
    use passkey_types::Passkey;

    // ------------------------------------------------------------------------------------------
    // C04: check_user - capability check, call to the validation method, enforcement, flags
    // ------------------------------------------------------------------------------------------

    #[kani::proof]
    #[kani::unwind(4)]
    fn c04_check_user_truth_table() {
        let up: bool = kani::any();
        let uv: bool = kani::any();
        let rk: bool = kani::any();
        let user = SymUser::any();
        let cap = user.verification;
        let (outcome_ok, presence, verified, error) =
            (user.outcome_ok, user.presence, user.verified, user.error);
        let auth = Authenticator::new(Aaguid::new_empty(), None::<Passkey>, user);
        let options = Options { rk, up, uv };
        let r = block_on(auth.check_user(&options, None));

        let capability_ok = !uv || cap == Some(true);
        // the validation method is asked iff the capability check passes, exactly once, with
        // exactly the requested (up, uv)
        if capability_ok {
            assert!(auth.user_validation.calls.get() == 1);
            assert!(auth.user_validation.got_up.get() == up);
            assert!(auth.user_validation.got_uv.get() == uv);
            assert!(!auth.user_validation.got_credential.get());
        } else {
            assert!(auth.user_validation.calls.get() == 0);
        }
        let expect_ok = capability_ok && outcome_ok && (!up || presence) && (!uv || verified);
        match r {
            Ok(flags) => {
                assert!(expect_ok);
                // flags are exactly what was reported, nothing else
                assert!(flags.contains(Flags::UP) == presence);
                assert!(flags.contains(Flags::UV) == verified);
                assert!((flags - Flags::UP - Flags::UV).is_empty());
                kani::cover!(presence && verified && !up && !uv);
                kani::cover!(!presence && !verified);
            }
            Err(e) => {
                assert!(!expect_ok);
                if !capability_ok {
                    assert!(e == Ctap2Error::UnsupportedOption);
                } else if !outcome_ok {
                    assert!(e == error); // the validation method's own error is passed through
                } else {
                    assert!(e == Ctap2Error::OperationDenied);
                }
                kani::cover!(!capability_ok && cap == Some(false));
                kani::cover!(capability_ok && !outcome_ok);
                kani::cover!(capability_ok && outcome_ok && uv && !verified);
            }
        }
        core::mem::forget(auth);
    }

    #[kani::proof]
    #[kani::unwind(4)]
    fn c04_check_user_twin() {
        let user = SymUser::any();
        let auth = Authenticator::new(Aaguid::new_empty(), None::<Passkey>, user);
        let options = Options {
            rk: kani::any(),
            up: kani::any(),
            uv: kani::any(),
        };
        let r = block_on(auth.check_user(&options, None));
        kani::assume(r.is_ok());
        core::mem::forget(auth);
        assert!(false);
    }

    // ------------------------------------------------------------------------------------------
    // C02: algorithm choice and credential-id length clamping
    // ------------------------------------------------------------------------------------------

    fn any_alg() -> iana::Algorithm {
        let k: u8 = kani::any();
        match k % 6 {
            0 => iana::Algorithm::ES256,
            1 => iana::Algorithm::EdDSA,
            2 => iana::Algorithm::RS256,
            3 => iana::Algorithm::ES384,
            4 => iana::Algorithm::PS256,
            _ => iana::Algorithm::ES512,
        }
    }

    fn param(alg: iana::Algorithm) -> webauthn::PublicKeyCredentialParameters {
        webauthn::PublicKeyCredentialParameters {
            ty: webauthn::PublicKeyCredentialType::PublicKey,
            alg,
        }
    }

    /// choose_algorithm returns the first entry of the preference list that the authenticator
    /// supports, UnsupportedAlgorithm iff none is.  Supported set: the default [ES256] or, to tell
    /// "first of the preference list" from "first of the supported list", [ES256, EdDSA] / [EdDSA, ES256].
    #[kani::proof]
    #[kani::unwind(6)]
    fn c02_choose_algorithm_first_supported() {
        let user = SymUser::any();
        let mut auth = Authenticator::new(Aaguid::new_empty(), None::<Passkey>, user);
        assert!(auth.algs.len() == 1 && auth.algs[0] == iana::Algorithm::ES256);
        let variant: u8 = kani::any();
        kani::assume(variant < 3);
        if variant == 1 {
            auth.algs = vec![iana::Algorithm::ES256, iana::Algorithm::EdDSA];
        } else if variant == 2 {
            auth.algs = vec![iana::Algorithm::EdDSA, iana::Algorithm::ES256];
        }
        let supported =
            |a: iana::Algorithm| a == iana::Algorithm::ES256 || (variant != 0 && a == iana::Algorithm::EdDSA);
        let n: usize = kani::any();
        kani::assume(n <= 4);
        let algs = [any_alg(), any_alg(), any_alg(), any_alg()];
        let mut params = Vec::with_capacity(4);
        let mut i = 0;
        while i < n {
            params.push(param(algs[i]));
            i += 1;
        }
        let r = auth.choose_algorithm(&params);
        // reference: scan the preference list in order
        let mut want = None;
        let mut i = 0;
        while i < n {
            if want.is_none() && supported(algs[i]) {
                want = Some(algs[i]);
            }
            i += 1;
        }
        match r {
            Ok(a) => {
                assert!(want == Some(a));
                kani::cover!(n == 4 && a == iana::Algorithm::EdDSA && algs[3] == iana::Algorithm::ES256);
            }
            Err(e) => {
                assert!(want.is_none());
                assert!(e == Ctap2Error::UnsupportedAlgorithm);
                kani::cover!(n == 0);
                kani::cover!(n == 4);
            }
        }
        core::mem::forget(params);
        core::mem::forget(auth);
    }

    #[kani::proof]
    fn c02_credential_id_length_clamp() {
        let v: u8 = kani::any();
        let l = CredentialIdLength::from(v);
        let n = usize::from(l);
        assert!(n >= 16 && n <= 64);
        let want = if v < 16 {
            16
        } else if v > 64 {
            64
        } else {
            v as usize
        };
        assert!(n == want);
        assert!(usize::from(CredentialIdLength::default()) == 16);
        assert!(usize::from(CredentialIdLength::DEFAULT) == 16);
        kani::cover!(v == 0);
        kani::cover!(v == 255);
        kani::cover!(v == 40);
    }

    #[kani::proof]
    fn c02_credential_id_length_twin() {
        let v: u8 = kani::any();
        let n = usize::from(CredentialIdLength::from(v));
        kani::assume(n == 33);
        assert!(false);
    }
}
