#[cfg(kani)]
#[allow(unused, clippy::all)]
mod verif_proofs {
    use super::*;
    use crate::verif_support::*;
    use passkey_types::ctap2::Aaguid;
    use passkey_types::{Passkey, StoredHmacSecret};

    fn any_config() -> Option<HmacSecretConfig> {
        let k: u8 = kani::any();
        let mc: bool = kani::any();
        match k % 3 {
            0 => None,
            1 => Some(HmacSecretConfig {
                credentials: HmacSecretCredentialSupport::WithUvOnly,
                on_make_credential_support: mc,
            }),
            _ => Some(HmacSecretConfig {
                credentials: HmacSecretCredentialSupport::WithoutUv,
                on_make_credential_support: mc,
            }),
        }
    }

    fn eq32(a: &[u8], b: &[u8; 32]) -> bool {
        if a.len() != 32 {
            return false;
        }
        let mut i = 0;
        let mut ok = true;
        while i < 32 {
            if a[i] != b[i] {
                ok = false;
            }
            i += 1;
        }
        ok
    }

    /// calculate_hmac_secret keys the HMAC with the UV-gated secret iff the user was verified,
    /// otherwise with the non-gated one, or fails with UserVerificationBlocked if there is none;
    /// the message is the salt passed in.
    #[kani::proof]
    #[kani::stub(passkey_types::crypto::hmac_sha256, crate::verif_support::hmac_tag)]
    #[kani::unwind(34)]
    fn c09_calculate_hmac_secret_key_selection() {
        let with_uv: [u8; 32] = kani::any();
        let without_uv: [u8; 32] = kani::any();
        let has_second_secret: bool = kani::any();
        let creds = StoredHmacSecret {
            cred_with_uv: with_uv.to_vec(),
            cred_without_uv: has_second_secret.then(|| without_uv.to_vec()),
        };
        let salt1: [u8; 32] = kani::any();
        let salt2: [u8; 32] = kani::any();
        let two: bool = kani::any();
        let salts = HmacSecretSaltOrOutput::new(salt1, two.then_some(salt2));
        let no_uv_cfg: bool = kani::any();
        let config = HmacSecretConfig {
            credentials: if no_uv_cfg {
                HmacSecretCredentialSupport::WithoutUv
            } else {
                HmacSecretCredentialSupport::WithUvOnly
            },
            on_make_credential_support: kani::any(),
        };
        let uv: bool = kani::any();
        let r = calculate_hmac_secret(&creds, salts, &config, uv);
        match r {
            Ok(out) => {
                assert!(uv || has_second_secret);
                let key: &[u8; 32] = if uv { &with_uv } else { &without_uv };
                let want1 = passkey_types::crypto::hmac_sha256(key, &salt1);
                assert!(eq32(out.first(), &want1));
                if let Some(o2) = out.second() {
                    // a second result exists only for a second salt and is keyed the same way
                    assert!(two);
                    let want2 = passkey_types::crypto::hmac_sha256(key, &salt2);
                    assert!(eq32(o2, &want2));
                    kani::cover!(uv);
                    kani::cover!(!uv);
                }
                kani::cover!(uv && has_second_secret);
                kani::cover!(!uv && has_second_secret);
            }
            Err(e) => {
                assert!(!uv && !has_second_secret);
                assert!(e == StatusCode::from(Ctap2Error::UserVerificationBlocked));
                kani::cover!(true);
            }
        }
        core::mem::forget(creds);
    }

    #[kani::proof]
    #[kani::stub(passkey_types::crypto::hmac_sha256, crate::verif_support::hmac_tag)]
    #[kani::unwind(34)]
    fn c09_calculate_hmac_secret_twin() {
        let creds = StoredHmacSecret {
            cred_with_uv: vec![1u8; 32],
            cred_without_uv: None,
        };
        let salts = HmacSecretSaltOrOutput::new(kani::any(), None);
        let config = HmacSecretConfig::new_with_uv_only();
        let r = calculate_hmac_secret(&creds, salts, &config, true);
        kani::assume(r.is_ok());
        core::mem::forget(creds);
        assert!(false);
    }

    /// make_hmac_secret stores secrets iff the capability is present and the extension was requested;
    /// the second (non-gated) secret iff the configuration supports it; both 32 bytes.
    #[kani::proof]
    #[kani::stub(passkey_types::rand::random_vec, crate::verif_support::random_marked)]
    #[kani::unwind(34)]
    fn c09_make_hmac_secret_storage() {
        let cfg = any_config();
        let has_cfg = cfg.is_some();
        let supports_no_uv = matches!(
            cfg,
            Some(HmacSecretConfig {
                credentials: HmacSecretCredentialSupport::WithoutUv,
                ..
            })
        );
        let mut auth = Authenticator::new(Aaguid::new_empty(), None::<Passkey>, SymUser::any());
        auth.extensions.hmac_secret = cfg;
        let req: Option<bool> = kani::any();
        let r = auth.make_hmac_secret(req);
        match &r {
            Some(s) => {
                assert!(has_cfg && req == Some(true));
                assert!(s.cred_with_uv.len() == 32);
                assert!(s.cred_without_uv.is_some() == supports_no_uv);
                if let Some(c) = &s.cred_without_uv {
                    assert!(c.len() == 32);
                }
                kani::cover!(supports_no_uv);
                kani::cover!(!supports_no_uv);
            }
            None => {
                assert!(!has_cfg || req != Some(true));
                kani::cover!(has_cfg);
                kani::cover!(!has_cfg && req == Some(true));
            }
        }
        core::mem::forget(r);
        core::mem::forget(auth);
    }

    /// make_prf: no capability -> no output; capability but no stored secrets -> enabled = false and
    /// no results; secrets stored -> enabled = true, results only when evaluation at creation is on
    /// and inputs were given, keyed by the uv flag passed in.
    #[kani::proof]
    #[kani::stub(passkey_types::crypto::hmac_sha256, crate::verif_support::hmac_tag)]
    #[kani::unwind(34)]
    fn c09_make_prf_enabled_and_gating() {
        let cfg = any_config();
        let has_cfg = cfg.is_some();
        let mc = matches!(
            cfg,
            Some(HmacSecretConfig {
                on_make_credential_support: true,
                ..
            })
        );
        let mut auth = Authenticator::new(Aaguid::new_empty(), None::<Passkey>, SymUser::any());
        auth.extensions.hmac_secret = cfg;
        let with_uv: [u8; 32] = kani::any();
        let without_uv: [u8; 32] = kani::any();
        let stored: bool = kani::any();
        let has_second_secret: bool = kani::any();
        let creds = StoredHmacSecret {
            cred_with_uv: with_uv.to_vec(),
            cred_without_uv: has_second_secret.then(|| without_uv.to_vec()),
        };
        let salt1: [u8; 32] = kani::any();
        let has_eval: bool = kani::any();
        let request = AuthenticatorPrfInputs {
            eval: has_eval.then_some(AuthenticatorPrfValues {
                first: salt1,
                second: None,
            }),
            eval_by_credential: None,
        };
        let uv: bool = kani::any();
        let r = auth.make_prf(stored.then_some(&creds), request, uv);
        match r {
            Ok(None) => {
                assert!(!has_cfg);
                kani::cover!(true);
            }
            Ok(Some(out)) => {
                assert!(has_cfg);
                // "enabled" exactly when secrets were stored with the new credential
                assert!(out.enabled == stored);
                match out.results {
                    Some(v) => {
                        assert!(stored && mc && has_eval);
                        assert!(uv || has_second_secret);
                        let key: &[u8; 32] = if uv { &with_uv } else { &without_uv };
                        let want = passkey_types::crypto::hmac_sha256(key, &salt1);
                        assert!(eq32(&v.first, &want));
                        assert!(v.second.is_none());
                        kani::cover!(uv);
                        kani::cover!(!uv);
                    }
                    None => {
                        assert!(!(stored && mc && has_eval));
                        kani::cover!(stored && !mc);
                        kani::cover!(!stored);
                    }
                }
            }
            Err(e) => {
                assert!(has_cfg && stored && mc && has_eval && !uv && !has_second_secret);
                assert!(e == StatusCode::from(Ctap2Error::UserVerificationBlocked));
                kani::cover!(true);
            }
        }
        core::mem::forget(creds);
        core::mem::forget(auth);
    }

    /// get_prf (default inputs only - the per-credential map is a std HashMap, F4): an authenticator
    /// without the capability yields no output; otherwise HMAC with the secret selected by uv
    #[kani::proof]
    #[kani::stub(passkey_types::crypto::hmac_sha256, crate::verif_support::hmac_tag)]
    #[kani::unwind(34)]
    fn c09_get_prf_default_inputs() {
        let cfg = any_config();
        let has_cfg = cfg.is_some();
        let mut auth = Authenticator::new(Aaguid::new_empty(), None::<Passkey>, SymUser::any());
        auth.extensions.hmac_secret = cfg;
        let with_uv: [u8; 32] = kani::any();
        let without_uv: [u8; 32] = kani::any();
        let stored: bool = kani::any();
        let has_second_secret: bool = kani::any();
        let creds = StoredHmacSecret {
            cred_with_uv: with_uv.to_vec(),
            cred_without_uv: has_second_secret.then(|| without_uv.to_vec()),
        };
        let salt1: [u8; 32] = kani::any();
        let has_eval: bool = kani::any();
        let request = AuthenticatorPrfInputs {
            eval: has_eval.then_some(AuthenticatorPrfValues {
                first: salt1,
                second: None,
            }),
            eval_by_credential: None,
        };
        let uv: bool = kani::any();
        let cred_id = [7u8; 4];
        let r = auth.get_prf(&cred_id, stored.then_some(&creds), request, uv);
        match r {
            Ok(None) => {
                assert!(!has_cfg || (stored && !has_eval));
                kani::cover!(!has_cfg);
                kani::cover!(has_cfg && !has_eval);
            }
            Ok(Some(out)) => {
                assert!(has_cfg && stored && has_eval);
                assert!(uv || has_second_secret);
                let key: &[u8; 32] = if uv { &with_uv } else { &without_uv };
                let want = passkey_types::crypto::hmac_sha256(key, &salt1);
                assert!(eq32(&out.results.first, &want));
                assert!(out.results.second.is_none());
                kani::cover!(uv);
                kani::cover!(!uv);
            }
            Err(e) => {
                assert!(has_cfg);
                if !stored {
                    // the credential has no secrets
                    kani::cover!(true);
                } else {
                    assert!(has_eval && !uv && !has_second_secret);
                    assert!(e == StatusCode::from(Ctap2Error::UserVerificationBlocked));
                    kani::cover!(true);
                }
            }
        }
        core::mem::forget(creds);
        core::mem::forget(auth);
    }
}
