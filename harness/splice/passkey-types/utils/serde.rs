#[cfg(kani)]
#[allow(unused, clippy::all)]
pub(crate) mod verif_proofs {
    use super::*;
    use serde::de::{self, DeserializeSeed, SeqAccess};
    use std::marker::PhantomData;

    /// minimal serde error (message construction is not the subject)
    #[derive(Debug)]
    pub(crate) struct E;
    impl std::fmt::Display for E {
        fn fmt(&self, _f: &mut std::fmt::Formatter<'_>) -> std::fmt::Result {
            Ok(())
        }
    }
    impl std::error::Error for E {}
    impl de::Error for E {
        fn custom<T: std::fmt::Display>(_msg: T) -> Self {
            E
        }
    }

    // ------------------------------------------------------------------------------------------
    // C14: numbers presented as integers of any width, numeric strings or integral floats
    // ------------------------------------------------------------------------------------------

    /// equal values presented as u8/u16/u32/u64/i64 give the same u32 (timeouts); out-of-range rejected
    #[kani::proof]
    fn c14_string_or_num_u32_integer_presentations() {
        let v: u32 = kani::any();
        let r64: Result<u32, E> = StringOrNum::<u32>(PhantomData).visit_u64(v as u64);
        let ri: Result<u32, E> = StringOrNum::<u32>(PhantomData).visit_i64(v as i64);
        let r32: Result<u32, E> = StringOrNum::<u32>(PhantomData).visit_u32(v);
        assert!(r64.unwrap() == v && ri.unwrap() == v && r32.unwrap() == v);
        if v <= 0xFFFF {
            let r16: Result<u32, E> = StringOrNum::<u32>(PhantomData).visit_u16(v as u16);
            assert!(r16.unwrap() == v);
        }
        let big: u64 = kani::any();
        kani::assume(big > u32::MAX as u64);
        let rb: Result<u32, E> = StringOrNum::<u32>(PhantomData).visit_u64(big);
        assert!(rb.is_err());
        let neg: i64 = kani::any();
        kani::assume(neg < 0);
        let rn: Result<u32, E> = StringOrNum::<u32>(PhantomData).visit_i64(neg);
        assert!(rn.is_err());
        kani::cover!(v == u32::MAX);
    }

    /// an integral float presentation of an algorithm identifier / timeout gives the same value as
    /// the integer presentation (both signs, |k| <= 70000)
    #[kani::proof]
    fn c14_string_or_num_integral_floats() {
        let k: i32 = kani::any();
        kani::assume(k >= -70_000 && k <= 70_000 && k != 0);
        let f = k as f64;
        let as_i64: Result<i64, E> = StringOrNum::<i64>(PhantomData).visit_f64(f);
        assert!(as_i64.unwrap() == k as i64);
        let as_f32: Result<i64, E> = StringOrNum::<i64>(PhantomData).visit_f32(k as f32);
        if k > -16_000_000 && k < 16_000_000 {
            assert!(as_f32.unwrap() == k as i64);
        }
        let as_u32: Result<u32, E> = StringOrNum::<u32>(PhantomData).visit_f64(f);
        if k > 0 {
            assert!(as_u32.unwrap() == k as u32);
        } else {
            assert!(as_u32.is_err());
        }
        kani::cover!(k == -7);
        kani::cover!(k == -257);
        kani::cover!(k == 60000);
    }

    #[kani::proof]
    fn c14_string_or_num_twin() {
        let k: i32 = kani::any();
        kani::assume(k >= -300 && k <= 300 && k != 0);
        let r: Result<i64, E> = StringOrNum::<i64>(PhantomData).visit_f64(k as f64);
        kani::assume(r.is_ok());
        assert!(false);
    }

    // ------------------------------------------------------------------------------------------
    // C15: a declared sequence length must not drive the allocation
    // ------------------------------------------------------------------------------------------

    /// SeqAccess announcing an arbitrary length but holding K bytes
    pub(crate) struct Seq<const K: usize> {
        pub hint: Option<usize>,
        pub data: [u8; K],
        pub pos: usize,
    }

    struct U8De(u8);
    impl<'de> de::Deserializer<'de> for U8De {
        type Error = E;
        fn deserialize_any<V: de::Visitor<'de>>(self, visitor: V) -> Result<V::Value, E> {
            visitor.visit_u8(self.0)
        }
        serde::forward_to_deserialize_any! {
            bool i8 i16 i32 i64 i128 u8 u16 u32 u64 u128 f32 f64 char str string bytes byte_buf option unit
            unit_struct newtype_struct seq tuple tuple_struct map struct enum identifier ignored_any
        }
    }

    impl<'de, const K: usize> SeqAccess<'de> for Seq<K> {
        type Error = E;
        fn next_element_seed<T: DeserializeSeed<'de>>(&mut self, seed: T) -> Result<Option<T::Value>, E> {
            if self.pos >= K {
                return Ok(None);
            }
            let b = self.data[self.pos];
            self.pos += 1;
            seed.deserialize(U8De(b)).map(Some)
        }
        fn size_hint(&self) -> Option<usize> {
            self.hint
        }
    }

    pub(crate) struct SeqDe<const K: usize>(pub Seq<K>);
    impl<'de, const K: usize> de::Deserializer<'de> for SeqDe<K> {
        type Error = E;
        fn deserialize_any<V: de::Visitor<'de>>(self, visitor: V) -> Result<V::Value, E> {
            visitor.visit_seq(self.0)
        }
        serde::forward_to_deserialize_any! {
            bool i8 i16 i32 i64 i128 u8 u16 u32 u64 u128 f32 f64 char str string bytes byte_buf option unit
            unit_struct newtype_struct seq tuple tuple_struct map struct enum identifier ignored_any
        }
    }

    /// ignore_unknown_opt_vec: K elements behind any announced length -> K elements, and the memory
    /// reserved is bounded by what was actually read (plus a fixed allowance), never by the announcement
    #[kani::proof]
    #[kani::unwind(6)]
    fn c15_opt_vec_size_hint_not_trusted() {
        let hint: Option<usize> = kani::any();
        let data: [u8; 3] = kani::any();
        let de = SeqDe::<3>(Seq { hint, data, pos: 0 });
        let r: Result<Option<Vec<u8>>, E> = ignore_unknown_opt_vec(de);
        let v = r.unwrap().unwrap();
        assert!(v.len() == 3);
        assert!(v[0] == data[0] && v[2] == data[2]);
        assert!(v.capacity() <= 4096 + 3);
        kani::cover!(hint == Some(usize::MAX));
        kani::cover!(hint.is_none());
        core::mem::forget(v);
    }
}
