#[cfg(kani)]
#[allow(unused, clippy::all)]
mod verif_proofs {
    use super::*;
    use crate::utils::serde::verif_proofs::{Seq, SeqDe, E};

    /// Bytes from a sequence: K elements behind any announced length -> those K bytes; the memory
    /// reserved is never driven by the announcement
    #[kani::proof]
    #[kani::unwind(6)]
    fn c15_bytes_seq_size_hint_not_trusted() {
        let hint: Option<usize> = kani::any();
        let data: [u8; 3] = kani::any();
        let de = SeqDe::<3>(Seq { hint, data, pos: 0 });
        let r: Result<Bytes, E> = Bytes::deserialize(de);
        let b = r.unwrap();
        assert!(b.len() == 3);
        assert!(b[0] == data[0] && b[1] == data[1] && b[2] == data[2]);
        assert!(b.capacity() <= 4096 + 3);
        kani::cover!(hint == Some(usize::MAX));
        kani::cover!(hint == Some(3));
        core::mem::forget(b);
    }

    #[kani::proof]
    #[kani::unwind(6)]
    fn c15_bytes_seq_twin() {
        let data: [u8; 3] = kani::any();
        let de = SeqDe::<3>(Seq { hint: Some(3), data, pos: 0 });
        let r: Result<Bytes, E> = Bytes::deserialize(de);
        kani::assume(r.is_ok());
        core::mem::forget(r);
        assert!(false);
    }
}
