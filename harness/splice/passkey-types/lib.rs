#[cfg(kani)]
#[allow(unused, clippy::all)]
mod verif_proofs {
    //! Kani proof harnesses spliced into a scratch copy of passkey-types by /verif/check.
    //! Naming: `<property>_<topic>[_<instance>]`; `*_twin` harnesses end in `assert!(false)` and
    //! must FAIL (reachability witness).
    use crate::ctap2::{
        AttestedCredentialData, AuthenticatorData, Ctap2Code, Ctap2Error, Flags, StatusCode,
        U2FError,
    };
    use crate::u2f;

    // ------------------------------------------------------------------------------------------
    // C13: status bytes
    // ------------------------------------------------------------------------------------------

    #[kani::proof]
    fn c13_status_roundtrip() {
        let b: u8 = kani::any();
        let s = StatusCode::from(b); // must not panic (unwrap inside)
        // the value produced carries this byte, and the spec-defined ranges are respected
        match &s {
            StatusCode::Ctap2(Ctap2Code::Known(e)) => assert!(u8::from(*e) == b),
            StatusCode::Ctap2(Ctap2Code::Extension(_)) => assert!((0xE0..=0xEF).contains(&b)),
            StatusCode::Ctap2(Ctap2Code::Vendor(_)) => assert!(b >= 0xF0),
            StatusCode::Ctap2(Ctap2Code::Other(_)) => assert!(b < 0xE0),
            StatusCode::Ctap1(e) => assert!(u8::from(*e) == b),
        }
        kani::cover!(matches!(s, StatusCode::Ctap2(Ctap2Code::Known(_))));
        kani::cover!(matches!(s, StatusCode::Ctap2(Ctap2Code::Other(_))));
        kani::cover!(matches!(s, StatusCode::Ctap2(Ctap2Code::Extension(_))));
        kani::cover!(matches!(s, StatusCode::Ctap2(Ctap2Code::Vendor(_))));
        // "exactly one status value": conversion is a function, and distinct bytes give
        // distinct values (follows from the round trip below)
        let s2 = StatusCode::from(b);
        assert!(s == s2);
        let back: u8 = s.into();
        assert!(back == b);
    }

    #[kani::proof]
    fn c13_status_roundtrip_twin() {
        let b: u8 = kani::any();
        let s = StatusCode::from(b);
        let back: u8 = s.into();
        assert!(back == b);
        assert!(false);
    }

    /// every explicitly defined CTAP2 / CTAP1 error converts to its own byte and back
    #[kani::proof]
    fn c13_status_known_values() {
        let b: u8 = kani::any();
        if let Ok(e) = Ctap2Error::try_from(b) {
            assert!(u8::from(e) == b);
            assert!(StatusCode::from(b) == StatusCode::from(e));
            kani::cover!(b == 0x2E);
        }
        if let Ok(e) = U2FError::try_from(b) {
            assert!(u8::from(e) == b);
            assert!(u8::from(StatusCode::from(e)) == b);
            kani::cover!(b == 0x7F);
        }
        // the spec values the client relies on
        assert!(u8::from(Ctap2Error::NoCredentials) == 0x2E);
        assert!(u8::from(Ctap2Error::OperationDenied) == 0x27);
        assert!(u8::from(Ctap2Error::UnsupportedOption) == 0x2B);
        assert!(u8::from(Ctap2Error::InvalidOption) == 0x2C);
        assert!(u8::from(Ctap2Error::CredentialExcluded) == 0x19);
        assert!(u8::from(Ctap2Error::UnsupportedAlgorithm) == 0x26);
        assert!(u8::from(Ctap2Error::PinAuthInvalid) == 0x33);
        assert!(u8::from(Ctap2Error::UserVerificationBlocked) == 0x3C);
    }

    #[kani::proof]
    fn c13_options_default() {
        let o = crate::ctap2::make_credential::Options::default();
        assert!(!o.rk && o.up && !o.uv);
        let g = crate::ctap2::get_info::Options::default();
        kani::cover!(true);
    }

    // ------------------------------------------------------------------------------------------
    // C15 / C17: U2F raw request frames
    // ------------------------------------------------------------------------------------------

    /// every byte string of length <= 80 is either parsed or rejected; no panic, no overflow
    #[kani::proof]
    #[kani::unwind(12)]
    fn c15_u2f_request_no_panic() {
        let buf: [u8; 80] = kani::any();
        let len: usize = kani::any();
        kani::assume(len <= 80);
        let r = u2f::Request::try_from(&buf[..len]);
        kani::cover!(r.is_ok());
        kani::cover!(r.is_err());
        if let Ok(req) = r {
            // an accepted frame is long enough for what was extracted from it
            assert!(len >= 7 + req.data_len);
            kani::cover!(matches!(req.data, u2f::RequestPayload::Authenticate(_)));
            kani::cover!(matches!(req.data, u2f::RequestPayload::Register(_)));
            core::mem::forget(req);
        }
    }

    #[kani::proof]
    #[kani::unwind(12)]
    fn c15_u2f_request_no_panic_twin() {
        let buf: [u8; 80] = kani::any();
        let len: usize = kani::any();
        kani::assume(len <= 80);
        let r = u2f::Request::try_from(&buf[..len]);
        core::mem::forget(r);
        assert!(false);
    }
}
