#[cfg(kani)]
#[allow(unused, clippy::all)]
mod verif_proofs {
    //! Kani proof harnesses spliced into a scratch copy of passkey-types by /verif/check.
    //! Naming: `<property>_<topic>[_<instance>]`; `*_twin` harnesses end in `assert!(false)` and
    //! must FAIL (reachability witness).
    use crate::ctap2::{
        AttestedCredentialData, AuthenticatorData, Ctap2Code, Ctap2Error, Flags, StatusCode,
        U2FError,
    };
    use crate::u2f;

    // ------------------------------------------------------------------------------------------
    // C13: status bytes
    // ------------------------------------------------------------------------------------------

    #[kani::proof]
    fn c13_status_roundtrip() {
        let b: u8 = kani::any();
        let s = StatusCode::from(b); // must not panic (unwrap inside)
        // the value produced carries this byte, and the spec-defined ranges are respected
        match &s {
            StatusCode::Ctap2(Ctap2Code::Known(e)) => assert!(u8::from(*e) == b),
            StatusCode::Ctap2(Ctap2Code::Extension(_)) => assert!((0xE0..=0xEF).contains(&b)),
            StatusCode::Ctap2(Ctap2Code::Vendor(_)) => assert!(b >= 0xF0),
            StatusCode::Ctap2(Ctap2Code::Other(_)) => assert!(b < 0xE0),
            StatusCode::Ctap1(e) => assert!(u8::from(*e) == b),
        }
        kani::cover!(matches!(s, StatusCode::Ctap2(Ctap2Code::Known(_))));
        kani::cover!(matches!(s, StatusCode::Ctap2(Ctap2Code::Other(_))));
        kani::cover!(matches!(s, StatusCode::Ctap2(Ctap2Code::Extension(_))));
        kani::cover!(matches!(s, StatusCode::Ctap2(Ctap2Code::Vendor(_))));
        // "exactly one status value": conversion is a function, and distinct bytes give
        // distinct values (follows from the round trip below)
        let s2 = StatusCode::from(b);
        assert!(s == s2);
        let back: u8 = s.into();
        assert!(back == b);
    }

    #[kani::proof]
    fn c13_status_roundtrip_twin() {
        let b: u8 = kani::any();
        let s = StatusCode::from(b);
        let back: u8 = s.into();
        assert!(back == b);
        assert!(false);
    }

    /// every explicitly defined CTAP2 / CTAP1 error converts to its own byte and back
    #[kani::proof]
    fn c13_status_known_values() {
        let b: u8 = kani::any();
        if let Ok(e) = Ctap2Error::try_from(b) {
            assert!(u8::from(e) == b);
            assert!(StatusCode::from(b) == StatusCode::from(e));
            kani::cover!(b == 0x2E);
        }
        if let Ok(e) = U2FError::try_from(b) {
            assert!(u8::from(e) == b);
            assert!(u8::from(StatusCode::from(e)) == b);
            kani::cover!(b == 0x7F);
        }
        // the spec values the client relies on
        assert!(u8::from(Ctap2Error::NoCredentials) == 0x2E);
        assert!(u8::from(Ctap2Error::OperationDenied) == 0x27);
        assert!(u8::from(Ctap2Error::UnsupportedOption) == 0x2B);
        assert!(u8::from(Ctap2Error::InvalidOption) == 0x2C);
        assert!(u8::from(Ctap2Error::CredentialExcluded) == 0x19);
        assert!(u8::from(Ctap2Error::UnsupportedAlgorithm) == 0x26);
        assert!(u8::from(Ctap2Error::PinAuthInvalid) == 0x33);
        assert!(u8::from(Ctap2Error::UserVerificationBlocked) == 0x3C);
    }

    #[kani::proof]
    fn c13_options_default() {
        let o = crate::ctap2::make_credential::Options::default();
        assert!(!o.rk && o.up && !o.uv);
        let g = crate::ctap2::get_info::Options::default();
        kani::cover!(true);
    }

    // ------------------------------------------------------------------------------------------
    // C15 / C17: U2F raw request frames
    // ------------------------------------------------------------------------------------------

    /// every byte string of length <= 80 is either parsed or rejected; no panic, no overflow
    #[kani::proof]
    #[kani::unwind(12)]
    fn c15_u2f_request_no_panic() {
        let buf: [u8; 80] = kani::any();
        let len: usize = kani::any();
        kani::assume(len <= 80);
        let r = u2f::Request::try_from(&buf[..len]);
        kani::cover!(r.is_ok());
        kani::cover!(r.is_err());
        if let Ok(req) = r {
            // an accepted frame is long enough for what was extracted from it
            assert!(len >= 7 + req.data_len);
            kani::cover!(matches!(req.data, u2f::RequestPayload::Authenticate(_)));
            kani::cover!(matches!(req.data, u2f::RequestPayload::Register(_)));
            core::mem::forget(req);
        }
    }

    #[kani::proof]
    #[kani::unwind(12)]
    fn c15_u2f_request_no_panic_twin() {
        let buf: [u8; 80] = kani::any();
        let len: usize = kani::any();
        kani::assume(len <= 80);
        let r = u2f::Request::try_from(&buf[..len]);
        core::mem::forget(r);
        assert!(false);
    }

    // ------------------------------------------------------------------------------------------
    // C12: authenticator data binary layout
    // ------------------------------------------------------------------------------------------

    /// SHA-256 replaced by an arbitrary 32-byte value (its identity is not the subject of C12)
    fn sha256_any(_data: &[u8]) -> [u8; 32] {
        kani::any()
    }

    /// flags that may be set without a section following: UP, UV, BE, BS in any combination
    fn any_plain_flags() -> Flags {
        let mut f = Flags::empty();
        if kani::any() {
            f |= Flags::UP;
        }
        if kani::any() {
            f |= Flags::UV;
        }
        if kani::any() {
            f |= Flags::BE;
        }
        if kani::any() {
            f |= Flags::BS;
        }
        f
    }

    /// to_vec = rpIdHash(32) || flags(1) || big-endian counter(4), nothing else when no section is set
    #[kani::proof]
    #[kani::stub(crate::utils::crypto::sha256, sha256_any)]
    #[kani::unwind(40)]
    fn c12_to_vec_layout() {
        let counter: Option<u32> = kani::any();
        let mut ad = AuthenticatorData::new("example.com", counter);
        // constructor: default flags BE|BS, the counter as given, no sections
        assert!(ad.flags == (Flags::BE | Flags::BS));
        assert!(ad.counter == counter);
        let flags = any_plain_flags();
        ad.flags = flags;
        let hash: [u8; 32] = ad.rp_id_hash().try_into().unwrap();
        let v = ad.to_vec();
        assert!(v.len() == 37);
        let mut i = 0;
        while i < 32 {
            assert!(v[i] == hash[i]);
            i += 1;
        }
        assert!(v[32] == flags.bits());
        assert!(v[32] & 0xC0 == 0); // AT / ED clear: no section present
        let c = counter.unwrap_or(0).to_be_bytes();
        assert!(v[33] == c[0] && v[34] == c[1] && v[35] == c[2] && v[36] == c[3]);
        kani::cover!(counter.is_none());
        kani::cover!(counter == Some(0x01020304));
        core::mem::forget(v);
        core::mem::forget(ad);
    }

    #[kani::proof]
    #[kani::stub(crate::utils::crypto::sha256, sha256_any)]
    #[kani::unwind(40)]
    fn c12_to_vec_layout_twin() {
        let counter: Option<u32> = kani::any();
        let ad = AuthenticatorData::new("example.com", counter);
        let v = ad.to_vec();
        core::mem::forget(v);
        core::mem::forget(ad);
        assert!(false);
    }

    /// AT / ED announce a section: whatever is passed to the public flag setter (any of the six defined
    /// flags, AT and ED included), the encoding carries those two bits exactly when the section is there
    #[kani::proof]
    #[kani::stub(crate::utils::crypto::sha256, sha256_any)]
    #[kani::unwind(40)]
    fn c12_section_bits_follow_sections() {
        let mut extra = any_plain_flags();
        let at: bool = kani::any();
        let ed: bool = kani::any();
        if at {
            extra |= Flags::AT;
        }
        if ed {
            extra |= Flags::ED;
        }
        let ad = AuthenticatorData::new("a", kani::any()).set_flags(extra);
        let v = ad.to_vec();
        assert!(v.len() == 37);
        assert!(v[32] & 0x40 == 0, "AT set although no attested credential data was attached");
        assert!(v[32] & 0x80 == 0, "ED set although no extension output was attached");
        assert!(v[32] & 0x1D == (Flags::BE | Flags::BS | extra).bits() & 0x1D);
        kani::cover!(at && ed);
        kani::cover!(!at && !ed && extra.contains(Flags::UV));
        core::mem::forget(v);
        core::mem::forget(ad);
    }

    /// set_flags ORs, set_attested_credential_data sets AT and stores the section
    #[kani::proof]
    #[kani::stub(crate::utils::crypto::sha256, sha256_any)]
    #[kani::unwind(4)]
    fn c12_setters_set_section_flags() {
        let extra = any_plain_flags();
        let ad = AuthenticatorData::new("a", None).set_flags(extra);
        assert!(ad.flags == (Flags::BE | Flags::BS | extra));
        let acd =
            AttestedCredentialData::new(crate::ctap2::Aaguid::new_empty(), Vec::new(), coset::CoseKey::default())
                .unwrap();
        let ad = ad.set_attested_credential_data(acd);
        assert!(ad.flags.contains(Flags::AT));
        assert!(ad.attested_credential_data.is_some());
        assert!(!ad.flags.contains(Flags::ED));
        // absent / empty extension outputs do not set ED
        let ad = ad.set_make_credential_extensions(None).unwrap();
        assert!(!ad.flags.contains(Flags::ED) && ad.extensions.is_none());
        let ad = ad.set_assertion_extensions(None).unwrap();
        assert!(!ad.flags.contains(Flags::ED) && ad.extensions.is_none());
        kani::cover!(extra.contains(Flags::UV));
        core::mem::forget(ad);
    }

    /// decoding a 37-byte header with flag byte F (no section bits): fields equal the bytes.
    /// The flag byte is concrete per instance (a symbolic one drags the CBOR parsers in, F6).
    fn from_slice_header(flag: u8) {
        let hash: [u8; 32] = kani::any();
        let counter: u32 = kani::any();
        let mut buf = [0u8; 37];
        let mut i = 0;
        while i < 32 {
            buf[i] = hash[i];
            i += 1;
        }
        buf[32] = flag;
        let c = counter.to_be_bytes();
        buf[33] = c[0];
        buf[34] = c[1];
        buf[35] = c[2];
        buf[36] = c[3];
        let ad = AuthenticatorData::from_slice(&buf).unwrap();
        assert!(ad.flags.bits() == flag);
        assert!(ad.counter == Some(counter)); // an absent counter (encoded 0) reads back as Some(0)
        assert!(ad.attested_credential_data.is_none());
        assert!(ad.extensions.is_none());
        let h = ad.rp_id_hash();
        assert!(h.len() == 32);
        let mut i = 0;
        while i < 32 {
            assert!(h[i] == hash[i]);
            i += 1;
        }
        kani::cover!(counter == 0);
        core::mem::forget(ad);
    }

    macro_rules! from_slice_header_instance {
        ($name:ident, $flag:expr) => {
            #[kani::proof]
            #[kani::unwind(40)]
            fn $name() {
                from_slice_header($flag);
            }
        };
    }
    from_slice_header_instance!(c12_from_slice_flags_00, 0x00);
    from_slice_header_instance!(c12_from_slice_flags_01, 0x01);
    from_slice_header_instance!(c12_from_slice_flags_04, 0x04);
    from_slice_header_instance!(c12_from_slice_flags_05, 0x05);
    from_slice_header_instance!(c12_from_slice_flags_08, 0x08);
    from_slice_header_instance!(c12_from_slice_flags_09, 0x09);
    from_slice_header_instance!(c12_from_slice_flags_0c, 0x0C);
    from_slice_header_instance!(c12_from_slice_flags_0d, 0x0D);
    from_slice_header_instance!(c12_from_slice_flags_10, 0x10);
    from_slice_header_instance!(c12_from_slice_flags_11, 0x11);
    from_slice_header_instance!(c12_from_slice_flags_14, 0x14);
    from_slice_header_instance!(c12_from_slice_flags_15, 0x15);
    from_slice_header_instance!(c12_from_slice_flags_18, 0x18);
    from_slice_header_instance!(c12_from_slice_flags_19, 0x19);
    from_slice_header_instance!(c12_from_slice_flags_1c, 0x1C);
    from_slice_header_instance!(c12_from_slice_flags_1d, 0x1D);

    #[kani::proof]
    #[kani::unwind(40)]
    fn c12_from_slice_twin() {
        from_slice_header(0x1D);
        assert!(false);
    }

    /// every input shorter than 37 bytes is rejected.  The length is symbolic; the byte at offset 32
    /// (the would-be flag byte, present only for lengths 33..=36) is fixed per instance so that the
    /// infeasible continuation past the length guard stays cheap for the symbolic executor.
    fn from_slice_short(flag_if_present: u8) {
        let body: [u8; 36] = kani::any();
        let mut buf = [0u8; 36];
        let mut i = 0;
        while i < 36 {
            buf[i] = body[i];
            i += 1;
        }
        buf[32] = flag_if_present;
        let len: usize = kani::any();
        kani::assume(len <= 36);
        let r = AuthenticatorData::from_slice(&buf[..len]);
        assert!(r.is_err());
        kani::cover!(len == 36);
        kani::cover!(len == 0);
        core::mem::forget(r);
    }
    #[kani::proof]
    #[kani::unwind(40)]
    fn c12_from_slice_short_rejected_f00() {
        from_slice_short(0x00);
    }
    #[kani::proof]
    #[kani::unwind(40)]
    fn c12_from_slice_short_rejected_f1d() {
        from_slice_short(0x1D);
    }

    /// AT flagged but the attested credential data section is missing or cut inside its fixed-size
    /// part (aaguid 16 + id length 2): rejected.  K trailing bytes, concrete per instance.
    fn from_slice_truncated_at<const K: usize, const TOTAL: usize>() {
        let body: [u8; TOTAL] = kani::any();
        let mut buf = [0u8; TOTAL];
        let mut i = 0;
        while i < TOTAL {
            buf[i] = body[i];
            i += 1;
        }
        buf[32] = 0x41; // UP | AT
        let r = AuthenticatorData::from_slice(&buf);
        assert!(r.is_err());
        kani::cover!(true);
        core::mem::forget(r);
    }
    macro_rules! truncated_at_instance {
        ($name:ident, $k:expr) => {
            #[kani::proof]
            #[kani::unwind(60)]
            fn $name() {
                from_slice_truncated_at::<{ $k }, { 37 + $k }>();
            }
        };
    }
    truncated_at_instance!(c12_from_slice_at_truncated_0, 0);
    truncated_at_instance!(c12_from_slice_at_truncated_1, 1);
    truncated_at_instance!(c12_from_slice_at_truncated_16, 16);
    truncated_at_instance!(c12_from_slice_at_truncated_17, 17);

    /// ED flagged but the extension map is missing (nothing after the header) or cut after its first
    /// byte: rejected.  All header bytes symbolic, trailing bytes concrete (CBOR on symbolic bytes is
    /// out of reach).
    #[kani::proof]
    #[kani::unwind(60)]
    fn c12_from_slice_ed_missing() {
        let body: [u8; 37] = kani::any();
        let mut buf = [0u8; 37];
        let mut i = 0;
        while i < 37 {
            buf[i] = body[i];
            i += 1;
        }
        buf[32] = 0x81; // UP | ED
        let r = AuthenticatorData::from_slice(&buf);
        assert!(r.is_err());
        kani::cover!(true);
        core::mem::forget(r);
    }

    #[kani::proof]
    #[kani::unwind(60)]
    fn c12_from_slice_ed_cut() {
        let body: [u8; 37] = kani::any();
        let mut buf = [0u8; 38];
        let mut i = 0;
        while i < 37 {
            buf[i] = body[i];
            i += 1;
        }
        buf[32] = 0x81; // UP | ED
        buf[37] = 0xA1; // map(1) with no entry following
        let r = AuthenticatorData::from_slice(&buf);
        assert!(r.is_err());
        kani::cover!(true);
        core::mem::forget(r);
    }

    /// reserved flag bits (1 and 5) are rejected: all 256 bytes at the flags level, three instances
    /// at the from_slice level
    #[kani::proof]
    fn c12_flags_reserved_bits() {
        let b: u8 = kani::any();
        let f = Flags::from_bits(b);
        assert!(f.is_some() == (b & 0x22 == 0));
        if let Some(f) = f {
            assert!(f.bits() == b);
            assert!(u8::from(f) == b);
            kani::cover!(b == 0xDD);
        }
        assert!(Flags::try_from(b).is_ok() == (b & 0x22 == 0));
        assert!(Flags::UP.bits() == 0x01 && Flags::UV.bits() == 0x04 && Flags::BE.bits() == 0x08);
        assert!(Flags::BS.bits() == 0x10 && Flags::AT.bits() == 0x40 && Flags::ED.bits() == 0x80);
    }

    fn from_slice_reserved(flag: u8) {
        let body: [u8; 37] = kani::any();
        let mut buf = [0u8; 37];
        let mut i = 0;
        while i < 37 {
            buf[i] = body[i];
            i += 1;
        }
        buf[32] = flag;
        let r = AuthenticatorData::from_slice(&buf);
        assert!(r.is_err());
        core::mem::forget(r);
    }
    #[kani::proof]
    #[kani::unwind(40)]
    fn c12_from_slice_reserved_02() {
        from_slice_reserved(0x02);
    }
    #[kani::proof]
    #[kani::unwind(40)]
    fn c12_from_slice_reserved_20() {
        from_slice_reserved(0x20);
    }
    #[kani::proof]
    #[kani::unwind(40)]
    fn c12_from_slice_reserved_23() {
        from_slice_reserved(0x23);
    }

    /// credential ids longer than 65535 bytes are refused at construction, others accepted
    #[kani::proof]
    #[kani::unwind(2)]
    fn c12_attested_credential_id_length_guard() {
        let n: usize = kani::any();
        kani::assume(n <= 70_000);
        let id = vec![0u8; n];
        let r = AttestedCredentialData::new(crate::ctap2::Aaguid::new_empty(), id, coset::CoseKey::default());
        assert!(r.is_ok() == (n <= 65_535));
        if let Ok(a) = &r {
            assert!(a.credential_id().len() == n);
        }
        kani::cover!(n == 65_535);
        kani::cover!(n == 65_536);
        core::mem::forget(r);
    }

    // ------------------------------------------------------------------------------------------
    // C17: U2F raw message encodings
    // ------------------------------------------------------------------------------------------

    /// key-handle and signature lengths are concrete per instance (symbolic lengths through the
    /// chained iterators do not finish), all contents symbolic
    fn register_response_encode<const KHL: usize, const SL: usize>() {
        let x: [u8; 32] = kani::any();
        let y: [u8; 32] = kani::any();
        let kh: [u8; KHL] = kani::any();
        let cert: [u8; 4] = kani::any();
        let sig: [u8; SL] = kani::any();
        let r = u2f::RegisterResponse {
            public_key: u2f::PublicKey { x, y },
            key_handle: kh.to_vec(),
            attestation_certificate: cert.to_vec(),
            signature: sig.to_vec(),
        };
        let v = r.encode();
        // 0x05 || 0x04 x y || L || key handle || certificate || signature || 0x9000
        assert!(v.len() == 1 + 65 + 1 + KHL + 4 + SL + 2);
        assert!(v[0] == 0x05);
        assert!(v[1] == 0x04);
        let mut i = 0;
        while i < 32 {
            assert!(v[2 + i] == x[i]);
            assert!(v[34 + i] == y[i]);
            i += 1;
        }
        assert!(v[66] as usize == KHL);
        let mut i = 0;
        while i < KHL {
            assert!(v[67 + i] == kh[i]);
            i += 1;
        }
        let mut i = 0;
        while i < 4 {
            assert!(v[67 + KHL + i] == cert[i]);
            i += 1;
        }
        let mut i = 0;
        while i < SL {
            assert!(v[71 + KHL + i] == sig[i]);
            i += 1;
        }
        assert!(v[71 + KHL + SL] == 0x90 && v[72 + KHL + SL] == 0x00);
        kani::cover!(true);
        core::mem::forget(v);
    }

    #[kani::proof]
    #[kani::unwind(90)]
    fn c17_register_response_encode_0_0() {
        register_response_encode::<0, 0>();
    }
    #[kani::proof]
    #[kani::unwind(90)]
    fn c17_register_response_encode_8_8() {
        register_response_encode::<8, 8>();
    }
    #[kani::proof]
    #[kani::unwind(160)]
    fn c17_register_response_encode_32_72() {
        register_response_encode::<32, 72>();
    }

    fn authentication_response_encode<const SL: usize>() {
        let flags = any_plain_flags();
        let counter: u32 = kani::any();
        let sig: [u8; SL] = kani::any();
        let r = u2f::AuthenticationResponse {
            user_presence: flags,
            counter,
            signature: sig.to_vec(),
        };
        let v = r.encode();
        assert!(v.len() == 1 + 4 + SL + 2);
        assert!(v[0] == flags.bits());
        let c = counter.to_be_bytes();
        assert!(v[1] == c[0] && v[2] == c[1] && v[3] == c[2] && v[4] == c[3]);
        let mut i = 0;
        while i < SL {
            assert!(v[5 + i] == sig[i]);
            i += 1;
        }
        assert!(v[5 + SL] == 0x90 && v[6 + SL] == 0x00);
        kani::cover!(true);
        core::mem::forget(v);
    }
    #[kani::proof]
    #[kani::unwind(20)]
    fn c17_authentication_response_encode_0() {
        authentication_response_encode::<0>();
    }
    #[kani::proof]
    #[kani::unwind(20)]
    fn c17_authentication_response_encode_8() {
        authentication_response_encode::<8>();
    }
    #[kani::proof]
    #[kani::unwind(80)]
    fn c17_authentication_response_encode_72() {
        authentication_response_encode::<72>();
    }

    #[kani::proof]
    #[kani::unwind(10)]
    fn c17_version_encode_and_status_words() {
        let v = u2f::Version.encode();
        assert!(v.len() == 8);
        assert!(v[0] == b'U' && v[1] == b'2' && v[2] == b'F' && v[3] == b'_' && v[4] == b'V' && v[5] == b'2');
        assert!(v[6] == 0x90 && v[7] == 0x00);
        assert!(u16::from(u2f::ResponseStatusWords::NoError) == 0x9000);
        assert!(u2f::ResponseStatusWords::ConditionsNotSatisfied.as_primitive() == 0x6985);
        assert!(u2f::ResponseStatusWords::WrongData.as_primitive() == 0x6A80);
        assert!(u2f::ResponseStatusWords::WrongLength.as_primitive() == 0x6700);
        assert!(u2f::ResponseStatusWords::ClaNotSupported.as_primitive() == 0x6E00);
        assert!(u2f::ResponseStatusWords::InsNotSupported.as_primitive() == 0x6D00);
        kani::cover!(true);
        core::mem::forget(v);
    }

    /// parsing the raw encoding of any well-formed extended-length register frame returns it
    #[kani::proof]
    #[kani::unwind(75)]
    fn c17_parse_register_frame() {
        let chal: [u8; 32] = kani::any();
        let app: [u8; 32] = kani::any();
        let mut f = [0u8; 73];
        f[1] = 0x01; // INS register
        f[6] = 64; // Lc = 00 00 40
        let mut i = 0;
        while i < 32 {
            f[7 + i] = chal[i];
            f[39 + i] = app[i];
            i += 1;
        }
        // with or without the two Le bytes
        let with_le: bool = kani::any();
        let len = if with_le { 73 } else { 71 };
        let r = u2f::Request::try_from(&f[..len]);
        match r {
            Ok(req) => {
                assert!(req.cla == 0 && req.p1 == 0 && req.data_len == 64);
                assert!(matches!(req.ins, u2f::Command::Register));
                match req.data {
                    u2f::RequestPayload::Register(rr) => {
                        let mut i = 0;
                        while i < 32 {
                            assert!(rr.challenge[i] == chal[i]);
                            assert!(rr.application[i] == app[i]);
                            i += 1;
                        }
                    }
                    _ => assert!(false),
                }
                kani::cover!(with_le);
            }
            Err(_) => assert!(false),
        }
    }

    /// ... any well-formed authenticate frame (control byte 3, 7 or 8; key handle 0..=8 bytes)
    #[kani::proof]
    #[kani::unwind(85)]
    fn c17_parse_authenticate_frame() {
        let chal: [u8; 32] = kani::any();
        let app: [u8; 32] = kani::any();
        let kh: [u8; 8] = kani::any();
        let khl: usize = kani::any();
        kani::assume(khl <= 8);
        let p1: u8 = kani::any();
        kani::assume(p1 == 3 || p1 == 7 || p1 == 8);
        let mut f = [0u8; 82];
        f[1] = 0x02; // INS authenticate
        f[2] = p1;
        f[6] = (65 + khl) as u8;
        let mut i = 0;
        while i < 32 {
            f[7 + i] = chal[i];
            f[39 + i] = app[i];
            i += 1;
        }
        f[71] = khl as u8;
        let mut i = 0;
        while i < khl {
            f[72 + i] = kh[i];
            i += 1;
        }
        let with_le: bool = kani::any();
        let len = 7 + 65 + khl + if with_le { 2 } else { 0 };
        let r = u2f::Request::try_from(&f[..len]);
        match r {
            Ok(req) => {
                assert!(req.cla == 0 && req.p1 == p1 && req.data_len == 65 + khl);
                assert!(matches!(req.ins, u2f::Command::Authenticate));
                match req.data {
                    u2f::RequestPayload::Authenticate(a) => {
                        assert!(u8::from(a.parameter) == p1);
                        let mut i = 0;
                        while i < 32 {
                            assert!(a.challenge[i] == chal[i]);
                            assert!(a.application[i] == app[i]);
                            i += 1;
                        }
                        assert!(a.key_handle.len() == khl);
                        let mut i = 0;
                        while i < khl {
                            assert!(a.key_handle[i] == kh[i]);
                            i += 1;
                        }
                        kani::cover!(khl == 8 && p1 == 7);
                        kani::cover!(khl == 0 && p1 == 8);
                        core::mem::forget(a.key_handle);
                    }
                    _ => assert!(false),
                }
            }
            Err(_) => assert!(false),
        }
    }

    #[kani::proof]
    #[kani::unwind(12)]
    fn c17_parse_version_frame() {
        let mut f = [0u8; 9];
        f[1] = 0x03;
        let with_le: bool = kani::any();
        let len = if with_le { 9 } else { 7 };
        let r = u2f::Request::try_from(&f[..len]);
        match r {
            Ok(req) => {
                assert!(matches!(req.ins, u2f::Command::Version));
                assert!(matches!(req.data, u2f::RequestPayload::Version));
                assert!(req.data_len == 0);
                kani::cover!(with_le);
            }
            Err(_) => assert!(false),
        }
        // command byte conversions are mutually inverse
        let b: u8 = kani::any();
        assert!(u8::from(u2f::Command::from(b)) == b);
    }

    #[kani::proof]
    #[kani::unwind(85)]
    fn c17_parse_twin() {
        let f: [u8; 82] = kani::any();
        let r = u2f::Request::try_from(&f[..]);
        kani::assume(r.is_ok());
        core::mem::forget(r);
        assert!(false);
    }

    // ------------------------------------------------------------------------------------------
    // C14: base64 / base64url presentations of binary members
    // ------------------------------------------------------------------------------------------

    const STD: &[u8; 64] = b"ABCDEFGHIJKLMNOPQRSTUVWXYZabcdefghijklmnopqrstuvwxyz0123456789+/";
    const URL: &[u8; 64] = b"ABCDEFGHIJKLMNOPQRSTUVWXYZabcdefghijklmnopqrstuvwxyz0123456789-_";

    /// reference RFC 4648 encoder for N <= 3 bytes (one quantum), with `pad` '=' characters appended
    fn ref_b64<const N: usize>(d: &[u8; N], alphabet: &[u8; 64], padded: bool, out: &mut [u8; 4]) -> usize {
        let b0 = d[0] as u32;
        let b1 = if N > 1 { d[1] as u32 } else { 0 };
        let b2 = if N > 2 { d[2] as u32 } else { 0 };
        let w = (b0 << 16) | (b1 << 8) | b2;
        out[0] = alphabet[((w >> 18) & 63) as usize];
        out[1] = alphabet[((w >> 12) & 63) as usize];
        let mut n = 2;
        if N > 1 {
            out[2] = alphabet[((w >> 6) & 63) as usize];
            n = 3;
        }
        if N > 2 {
            out[3] = alphabet[(w & 63) as usize];
            n = 4;
        }
        if padded {
            while n < 4 {
                out[n] = b'=';
                n += 1;
            }
        }
        n
    }

    /// every presentation (base64 / base64url, padded or not) of N bytes decodes to those bytes
    fn base64_presentations<const N: usize>() {
        let d: [u8; N] = kani::any();
        let url: bool = kani::any();
        let padded: bool = kani::any();
        let mut buf = [0u8; 4];
        let n = ref_b64::<N>(&d, if url { URL } else { STD }, padded, &mut buf);
        let s = unsafe { core::str::from_utf8_unchecked(&buf[..n]) };
        let got = crate::Bytes::try_from(s);
        match got {
            Ok(b) => {
                assert!(b.len() == N);
                let mut i = 0;
                while i < N {
                    assert!(b[i] == d[i]);
                    i += 1;
                }
                core::mem::forget(b);
            }
            Err(_) => assert!(false),
        }
        // the library's own encoders produce the unpadded forms
        if !padded {
            let enc = if url { crate::encoding::base64url(&d) } else { crate::encoding::base64(&d) };
            assert!(enc.len() == n);
            let mut i = 0;
            while i < n {
                assert!(enc.as_bytes()[i] == buf[i]);
                i += 1;
            }
            core::mem::forget(enc);
        }
        kani::cover!(url && padded);
        kani::cover!(!url && padded);
        kani::cover!(!url && !padded);
    }

    #[kani::proof]
    #[kani::unwind(260)]
    fn c14_base64_presentations_1() {
        base64_presentations::<1>();
    }
    #[kani::proof]
    #[kani::unwind(260)]
    fn c14_base64_presentations_2() {
        base64_presentations::<2>();
    }
    #[kani::proof]
    #[kani::unwind(260)]
    fn c14_base64_presentations_3() {
        base64_presentations::<3>();
    }
    #[kani::proof]
    #[kani::unwind(260)]
    fn c14_base64_twin() {
        base64_presentations::<2>();
        assert!(false);
    }
}
