/// Byte-loop models of `str::rfind('.')` and of the empty-label test: the std versions (memrchr, two-way
/// search) do not finish under CBMC even on 3-byte names. The check's prepare step rewrites the five call
/// sites in this file to these functions; natively they are the std calls themselves.
#[cfg(kani)]
pub(crate) mod verif_str {
    pub fn rfind_dot(s: &str) -> Option<usize> {
        let b = s.as_bytes();
        let mut i = b.len();
        while i > 0 {
            i -= 1;
            if b[i] == b'.' {
                return Some(i);
            }
        }
        None
    }
    pub fn has_empty_label(s: &str) -> bool {
        let b = s.as_bytes();
        if b.is_empty() {
            return false;
        }
        if b[0] == b'.' || b[b.len() - 1] == b'.' {
            return true;
        }
        let mut i = 1;
        while i < b.len() {
            if b[i] == b'.' && b[i - 1] == b'.' {
                return true;
            }
            i += 1;
        }
        false
    }
}
#[cfg(not(kani))]
pub(crate) mod verif_str {
    pub fn rfind_dot(s: &str) -> Option<usize> {
        s.rfind('.')
    }
    pub fn has_empty_label(s: &str) -> bool {
        s.starts_with('.') || s.ends_with('.') || s.contains("..")
    }
}

#[cfg(kani)]
#[allow(unused, clippy::all)]
mod verif_proofs {
    use super::*;

    // ------------------------------------------------------------------------------------------
    // C10 (b): the shipped table is well-formed - one inductive step of "no lookup indexes out of
    // bounds, whatever the input string": every decoded offset/length/index/range stays inside the
    // arrays, for a symbolic node / children index.
    // ------------------------------------------------------------------------------------------
    type S = tld_list::TLDList;

    #[kani::proof]
    fn c10_table_node_fields_in_bounds() {
        let i: usize = kani::any();
        kani::assume(i < S::NODES.len());
        let mut x = S::NODES[i];
        let length = (x & ((1 << S::NODES_BITS_TEXT_LENGTH) - 1)) as usize;
        x >>= S::NODES_BITS_TEXT_LENGTH;
        let offset = (x & ((1 << S::NODES_BITS_TEXT_OFFSET) - 1)) as usize;
        x >>= S::NODES_BITS_TEXT_OFFSET;
        x >>= S::NODES_BITS_ICANN;
        let child = (x & ((1 << S::NODES_BITS_CHILDREN) - 1)) as usize;
        assert!(length >= 1);
        assert!(offset + length <= S::TEXT.len());
        assert!(child < S::CHILDREN.len());
        kani::cover!(i == S::NODES.len() - 1);
        kani::cover!(length == 1);
    }

    #[kani::proof]
    fn c10_table_children_ranges() {
        let c: usize = kani::any();
        kani::assume(c < S::CHILDREN.len());
        let mut u = S::CHILDREN[c];
        let lo = u & ((1 << S::CHILDREN_BITS_LO) - 1);
        u >>= S::CHILDREN_BITS_LO;
        let hi = u & ((1 << S::CHILDREN_BITS_HI) - 1);
        u >>= S::CHILDREN_BITS_HI;
        let ty = u & ((1 << S::CHILDREN_BITS_NODE_TYPE) - 1);
        assert!(lo <= hi);
        assert!(hi as usize <= S::NODES.len());
        assert!(ty <= 2);
        // children never point back into the top-level range
        assert!(lo == hi || lo >= S::NUM_TLD);
        kani::cover!(lo < hi);
        kani::cover!(ty == S::NODE_TYPE_EXCEPTION);
    }

    #[kani::proof]
    fn c10_table_text_is_ascii() {
        let j: usize = kani::any();
        kani::assume(j < S::TEXT.len());
        assert!(S::TEXT.as_bytes()[j] < 0x80);
        assert!(S::TEXT.as_bytes()[j] != b'.');
        assert!((S::NUM_TLD as usize) <= S::NODES.len());
        assert!(S::NUM_TLD > 0);
        kani::cover!(j == S::TEXT.len() - 1);
    }

    /// the real `node_label` on every node index: slicing TEXT never panics and gives 1..=63 bytes
    #[kani::proof]
    fn c10_node_label_no_panic() {
        let i: u32 = kani::any();
        kani::assume((i as usize) < S::NODES.len());
        let p = ListProvider::<S>::new();
        let l = p.node_label(i);
        assert!(l.len() >= 1 && l.len() <= 63);
        kani::cover!(l.len() > 20);
    }

    #[kani::proof]
    fn c10_table_twin() {
        let i: usize = kani::any();
        kani::assume(i < S::NODES.len());
        let x = S::NODES[i];
        kani::assume(x & 1 == 1);
        assert!(false);
    }

    // ------------------------------------------------------------------------------------------
    // C10 (a): the real generic lookup code on a synthetic table, against a reference matcher
    // rules:  c   b.c   *.d   !a.d   *.b.d     (normal, longer normal, wildcard, exception, nested wildcard)
    // ------------------------------------------------------------------------------------------
    pub(crate) struct Syn;
    const fn node(len: u32, off: u32, child: u32) -> u32 {
        len | (off << 6) | (child << 22)
    }
    const fn kids(lo: u32, hi: u32, ty: u32, wild: u32) -> u32 {
        lo | (hi << 14) | (ty << 28) | (wild << 30)
    }
    impl Table for Syn {
        const NODES_BITS_CHILDREN: u32 = 10;
        const NODES_BITS_ICANN: u32 = 1;
        const NODES_BITS_TEXT_OFFSET: u32 = 15;
        const NODES_BITS_TEXT_LENGTH: u32 = 6;
        const CHILDREN_BITS_WILDCARD: u32 = 1;
        const CHILDREN_BITS_NODE_TYPE: u32 = 2;
        const CHILDREN_BITS_HI: u32 = 14;
        const CHILDREN_BITS_LO: u32 = 14;
        const NODE_TYPE_NORMAL: u32 = 0;
        const NODE_TYPE_EXCEPTION: u32 = 1;
        const NUM_TLD: u32 = 2;
        const TEXT: &'static str = "cdba";
        // 0: c (normal, child b)   1: d (parent only, wildcard, children a, b)   2: b under c
        // 3: a under d (exception)   4: b under d (parent only, wildcard: the rule *.b.d nested below *.d)
        const NODES: &'static [u32] = &[node(1, 0, 2), node(1, 1, 3), node(1, 2, 0), node(1, 3, 1), node(1, 2, 4)];
        const CHILDREN: &'static [u32] =
            &[kids(0, 0, 0, 0), kids(0, 0, 1, 0), kids(2, 3, 0, 0), kids(3, 5, 2, 1), kids(0, 0, 2, 1)];
    }

    /// reference: public-suffix length in labels for the name given as labels (rightmost last)
    fn ref_suffix_labels(l: &[u8]) -> usize {
        // l = single-letter labels, leftmost first
        let n = l.len();
        let last = l[n - 1];
        if last == b'c' {
            if n >= 2 && l[n - 2] == b'b' {
                return 2; // b.c
            }
            return 1; // c
        }
        if last == b'd' && n >= 2 {
            if l[n - 2] == b'a' {
                return 1; // exception !a.d : the suffix is d
            }
            if l[n - 2] == b'b' && n >= 3 {
                return 3; // *.b.d (longest match)
            }
            return 2; // *.d
        }
        1 // implicit *
    }

    /// names of K single-letter labels over {a,b,c,d,x}: "L.L. ... .L"
    fn shaped<const K: usize, const LEN: usize>() {
        let letters: [u8; K] = kani::any();
        let mut buf = [b'.'; LEN];
        let mut i = 0;
        while i < K {
            let c = letters[i];
            kani::assume(c == b'a' || c == b'b' || c == b'c' || c == b'd' || c == b'x');
            buf[2 * i] = c;
            i += 1;
        }
        let name = unsafe { core::str::from_utf8_unchecked(&buf) };
        let p = ListProvider::<Syn>::new();
        let suffix = p.public_suffix(name);
        let want_labels = ref_suffix_labels(&letters);
        // label-aligned suffix of the right number of labels
        assert!(suffix.len() == 2 * want_labels - 1);
        let off = LEN - suffix.len();
        assert!(off == 0 || buf[off - 1] == b'.');
        let r = p.effective_tld_plus_one(name);
        if K > want_labels {
            let e = r.unwrap();
            assert!(e.len() == 2 * (want_labels + 1) - 1); // exactly one more label
        } else {
            assert!(r.is_err());
        }
        kani::cover!(want_labels == 2);
        kani::cover!(want_labels == 1);
        kani::cover!(K < 3 || want_labels == 3);
    }

    /// a multi-byte first label ("\u{e9}" = 2 bytes) in front of a symbolic single-letter label: byte offsets and
    /// character positions differ, the results are still cut at the dot
    #[kani::proof]
    #[kani::unwind(8)]
    fn c10_syn_multibyte_label() {
        let c: u8 = kani::any();
        kani::assume(c == b'a' || c == b'b' || c == b'c' || c == b'd' || c == b'x');
        let buf = [0xC3u8, 0xA9, b'.', c];
        let name = unsafe { core::str::from_utf8_unchecked(&buf) };
        let p = ListProvider::<Syn>::new();
        let suffix = p.public_suffix(name);
        // the unknown first label never matches a rule: the suffix is decided by the last label alone, except under *.d
        let want_labels = ref_suffix_labels(&[b'x', c]);
        let r = p.effective_tld_plus_one(name);
        if want_labels == 1 {
            assert!(suffix.len() == 1 && suffix.as_bytes()[0] == c);
            let e = r.unwrap();
            assert!(e.len() == 4); // the whole name: one label more than the suffix
        } else {
            assert!(suffix.len() == 4); // *.d : the whole name is a public suffix
            assert!(r.is_err());
        }
        kani::cover!(want_labels == 1);
        kani::cover!(want_labels == 2);
    }

    #[kani::proof]
    #[kani::unwind(8)]
    fn c10_syn_two_labels() {
        shaped::<2, 3>();
    }
    #[kani::proof]
    #[kani::unwind(10)]
    fn c10_syn_three_labels() {
        shaped::<3, 5>();
    }
    #[kani::proof]
    #[kani::unwind(12)]
    fn c10_syn_four_labels() {
        shaped::<4, 7>();
    }
}
