#[cfg(kani)]
#[allow(unused, clippy::all)]
mod verif_proofs {
    use super::*;

    /// Tagged stand-in for SHA-256: length and the first 31 bytes of the message (injective on the
    /// messages of at most 31 bytes used here).  SHA-256 itself is trusted.
    pub(crate) fn sha256_tag(data: &[u8]) -> [u8; 32] {
        let mut out = [0u8; 32];
        out[0] = data.len() as u8;
        let mut i = 0;
        while i < 31 {
            if i < data.len() {
                out[1 + i] = data[i];
            }
            i += 1;
        }
        out
    }

    /// make_salt(v) = SHA-256("WebAuthn PRF" || 0x00 || v), length concrete per instance
    fn make_salt_is_specified_hash<const N: usize>() {
        let v: [u8; N] = kani::any();
        let got = make_salt(&Bytes::from(v.to_vec()));
        let mut msg = [0u8; 32];
        let prefix = b"WebAuthn PRF";
        let mut i = 0;
        while i < 12 {
            msg[i] = prefix[i];
            i += 1;
        }
        msg[12] = 0;
        let mut i = 0;
        while i < N {
            msg[13 + i] = v[i];
            i += 1;
        }
        let want = passkey_types::crypto::sha256(&msg[..13 + N]);
        let mut i = 0;
        while i < 32 {
            assert!(got[i] == want[i]);
            i += 1;
        }
        kani::cover!(true);
    }

    #[kani::proof]
    #[kani::stub(passkey_types::crypto::sha256, sha256_tag)]
    #[kani::unwind(34)]
    fn c09_client_make_salt_len_0() {
        make_salt_is_specified_hash::<0>();
    }
    #[kani::proof]
    #[kani::stub(passkey_types::crypto::sha256, sha256_tag)]
    #[kani::unwind(34)]
    fn c09_client_make_salt_len_1() {
        make_salt_is_specified_hash::<1>();
    }
    #[kani::proof]
    #[kani::stub(passkey_types::crypto::sha256, sha256_tag)]
    #[kani::unwind(34)]
    fn c09_client_make_salt_len_8() {
        make_salt_is_specified_hash::<8>();
    }

    /// pre-hashed inputs pass through iff they are exactly 32 bytes, otherwise ValidationError -
    /// for the first and for the second value (lengths concrete per instance, contents symbolic)
    fn prehashed<const N1: usize, const N2: usize>(has_second: bool) {
        let a: [u8; N1] = kani::any();
        let b: [u8; N2] = kani::any();
        let eval = AuthenticationExtensionsPrfValues {
            first: Bytes::from(a.to_vec()),
            second: has_second.then(|| Bytes::from(b.to_vec())),
        };
        let r = convert_eval_to_ctap(&eval, false);
        let ok = N1 == 32 && (!has_second || N2 == 32);
        match r {
            Ok(v) => {
                assert!(ok);
                let mut i = 0;
                while i < 32 && i < N1 {
                    assert!(v.first[i] == a[i]);
                    i += 1;
                }
                assert!(v.second.is_some() == has_second);
                if let Some(s) = v.second {
                    let mut i = 0;
                    while i < 32 && i < N2 {
                        assert!(s[i] == b[i]);
                        i += 1;
                    }
                }
            }
            Err(e) => {
                assert!(!ok);
                assert!(matches!(e, WebauthnError::ValidationError));
            }
        }
        kani::cover!(true);
    }

    #[kani::proof]
    #[kani::unwind(36)]
    fn c09_client_prehashed_32_none() {
        prehashed::<32, 1>(false);
    }
    #[kani::proof]
    #[kani::unwind(36)]
    fn c09_client_prehashed_32_32() {
        prehashed::<32, 32>(true);
    }
    #[kani::proof]
    #[kani::unwind(36)]
    fn c09_client_prehashed_31_none() {
        prehashed::<31, 1>(false);
    }
    #[kani::proof]
    #[kani::unwind(36)]
    fn c09_client_prehashed_33_none() {
        prehashed::<33, 1>(false);
    }
    #[kani::proof]
    #[kani::unwind(36)]
    fn c09_client_prehashed_32_31() {
        prehashed::<32, 31>(true);
    }
    #[kani::proof]
    #[kani::unwind(36)]
    fn c09_client_prehashed_32_33() {
        prehashed::<32, 33>(true);
    }
    #[kani::proof]
    #[kani::unwind(36)]
    fn c09_client_prehashed_0_none() {
        prehashed::<0, 1>(false);
    }

    /// hashed inputs of any (here: 3-byte) length are hashed, both values
    #[kani::proof]
    #[kani::stub(passkey_types::crypto::sha256, sha256_tag)]
    #[kani::unwind(34)]
    fn c09_client_hashed_both_values() {
        let a: [u8; 3] = kani::any();
        let b: [u8; 2] = kani::any();
        let has_second: bool = kani::any();
        let eval = AuthenticationExtensionsPrfValues {
            first: Bytes::from(a.to_vec()),
            second: has_second.then(|| Bytes::from(b.to_vec())),
        };
        let r = convert_eval_to_ctap(&eval, true);
        match r {
            Ok(v) => {
                let w1 = make_salt(&Bytes::from(a.to_vec()));
                let mut i = 0;
                while i < 32 {
                    assert!(v.first[i] == w1[i]);
                    i += 1;
                }
                assert!(v.second.is_some() == has_second);
                if let Some(s) = v.second {
                    let w2 = make_salt(&Bytes::from(b.to_vec()));
                    let mut i = 0;
                    while i < 32 {
                        assert!(s[i] == w2[i]);
                        i += 1;
                    }
                    kani::cover!(true);
                }
            }
            Err(_) => assert!(false),
        }
    }

    #[kani::proof]
    #[kani::unwind(36)]
    fn c09_client_twin() {
        prehashed::<32, 32>(true);
        assert!(false);
    }
}
