#[cfg(kani)]
#[allow(unused, clippy::all)]
mod verif_proofs {
    use super::*;
    use passkey_authenticator::{Authenticator, DiscoverabilitySupport, StoreInfo, UserCheck, UserValidationMethod};
    use passkey_types::ctap2::{self, Aaguid, Ctap2Error, StatusCode};
    use passkey_types::webauthn::{
        AuthenticationExtensionsClientInputs, AuthenticatorSelectionCriteria, ResidentKeyRequirement,
        UserVerificationRequirement,
    };
    use passkey_types::Passkey;

    /// user validation double (never consulted by the functions under test)
    pub(crate) struct NoUser;

    // hand-expanded form of #[async_trait] (passkey-client has no direct dependency on the macro crate)
    impl UserValidationMethod for NoUser {
        type PasskeyItem = Passkey;
        fn check_user<'a, 'life0, 'async_trait>(
            &'life0 self,
            _credential: Option<&'a Passkey>,
            presence: bool,
            verification: bool,
        ) -> core::pin::Pin<Box<dyn core::future::Future<Output = Result<UserCheck, Ctap2Error>> + Send + 'async_trait>>
        where
            'a: 'async_trait,
            'life0: 'async_trait,
            Self: 'async_trait,
        {
            Box::pin(async move {
                Ok(UserCheck {
                    presence,
                    verification,
                })
            })
        }
        fn is_presence_enabled(&self) -> bool {
            true
        }
        fn is_verification_enabled(&self) -> Option<bool> {
            Some(true)
        }
    }

    /// suffix provider double (never consulted by the functions under test)
    pub(crate) struct NoTld;
    impl public_suffix::EffectiveTLDProvider for NoTld {
        fn effective_tld_plus_one<'a>(&self, domain: &'a str) -> Result<&'a str, public_suffix::Error> {
            Ok(domain)
        }
    }

    fn client() -> Client<Option<Passkey>, NoUser, NoTld> {
        Client::new_with_custom_tld_provider(Authenticator::new(Aaguid::new_empty(), None, NoUser), NoTld)
    }

    // ------------------------------------------------------------------------------------------
    // C13: status byte -> WebauthnError
    // ------------------------------------------------------------------------------------------
    #[kani::proof]
    fn c13_webauthn_error_from_status() {
        let b: u8 = kani::any();
        let e = WebauthnError::from(StatusCode::from(b));
        match e {
            WebauthnError::CredentialNotFound => assert!(b == 0x2E),
            WebauthnError::AuthenticatorError(x) => assert!(x == b && b != 0x2E),
            _ => assert!(false),
        }
        kani::cover!(b == 0x2E);
        kani::cover!(b == 0xF3);
        kani::cover!(b == 0x01);
    }

    #[kani::proof]
    fn c13_webauthn_error_twin() {
        let b: u8 = kani::any();
        let e = WebauthnError::from(StatusCode::from(b));
        kani::assume(matches!(e, WebauthnError::AuthenticatorError(_)));
        assert!(false);
    }

    // ------------------------------------------------------------------------------------------
    // C11: residentKey / requireResidentKey / authenticator capability -> rk option
    // ------------------------------------------------------------------------------------------
    #[kani::proof]
    #[kani::unwind(4)]
    fn c11_map_rk_table() {
        let c = client();
        let rk_kind: u8 = kani::any();
        kani::assume(rk_kind < 4);
        let resident_key = match rk_kind {
            0 => None,
            1 => Some(ResidentKeyRequirement::Discouraged),
            2 => Some(ResidentKeyRequirement::Preferred),
            _ => Some(ResidentKeyRequirement::Required),
        };
        let require_resident_key: bool = kani::any();
        let criteria_present: bool = kani::any();
        let criteria = criteria_present.then(|| AuthenticatorSelectionCriteria {
            resident_key,
            require_resident_key,
            user_verification: UserVerificationRequirement::Discouraged,
            authenticator_attachment: None,
        });
        // authenticator capability: options absent, rk false, rk true
        let cap: u8 = kani::any();
        kani::assume(cap < 3);
        let info = ctap2::get_info::Response {
            versions: Vec::new(),
            extensions: None,
            aaguid: Aaguid::new_empty(),
            options: if cap == 0 {
                None
            } else {
                Some(ctap2::get_info::Options {
                    rk: cap == 2,
                    uv: Some(true),
                    up: true,
                    plat: true,
                    client_pin: None,
                })
            },
            max_msg_size: None,
            pin_protocols: None,
            transports: None,
        };
        let got = c.map_rk(&criteria, &info);
        // WebAuthn L3, 5.1.3 step 20 (requireResidentKey for the authenticator):
        let want = if !criteria_present {
            false
        } else {
            match rk_kind {
                3 => true,         // required
                2 => cap == 2,     // preferred: iff the authenticator can store client-side credentials
                1 => false,        // discouraged
                _ => require_resident_key, // absent: the legacy member
            }
        };
        assert!(got == want);
        kani::cover!(rk_kind == 2 && cap == 2 && got);
        kani::cover!(rk_kind == 2 && cap == 0 && !got);
        kani::cover!(rk_kind == 0 && require_resident_key && got);
        kani::cover!(!criteria_present);
        core::mem::forget(info);
        core::mem::forget(c);
    }

    /// credProps: present iff requested with `true`; its value is whether the credential is
    /// discoverable under the store's capability
    #[kani::proof]
    #[kani::unwind(4)]
    fn c11_cred_props_output() {
        let c = client();
        let req_kind: u8 = kani::any();
        kani::assume(req_kind < 4);
        let inputs = AuthenticationExtensionsClientInputs {
            cred_props: match req_kind {
                1 => Some(false),
                2 => Some(true),
                _ => None,
            },
            prf: None,
            prf_already_hashed: None,
        };
        let request = if req_kind == 3 { None } else { Some(&inputs) };
        let capk: u8 = kani::any();
        kani::assume(capk < 3);
        let store_info = StoreInfo {
            discoverability: match capk {
                0 => DiscoverabilitySupport::Full,
                1 => DiscoverabilitySupport::OnlyNonDiscoverable,
                _ => DiscoverabilitySupport::ForcedDiscoverable,
            },
        };
        let rk: bool = kani::any();
        let out = c.registration_extension_outputs(request, store_info, rk, None);
        let discoverable = match capk {
            0 => rk,
            1 => false,
            _ => true,
        };
        match out.cred_props {
            Some(p) => {
                assert!(req_kind == 2);
                assert!(p.discoverable == Some(discoverable));
                kani::cover!(discoverable && !rk);
                kani::cover!(!discoverable && rk);
            }
            None => assert!(req_kind != 2),
        }
        assert!(out.prf.is_none());
        core::mem::forget(c);
    }

    // ------------------------------------------------------------------------------------------
    // C01: RP ID bound to the origin at a label boundary, registrable domain
    // ------------------------------------------------------------------------------------------
    //
    // The `Url` itself is never parsed (url / idna parsers are out of reach): the code under test only
    // calls `Url::domain` and `Url::scheme` on it, and both are stubbed to return harness-controlled
    // symbolic strings.  The Url value passed in is a placeholder whose bytes are never read.

    static mut HOST: Option<&'static str> = None;
    static mut SCHEME: &'static str = "https";

    fn stub_domain(_u: &Url) -> Option<&str> {
        unsafe { HOST }
    }

    fn stub_scheme(_u: &Url) -> &str {
        unsafe { SCHEME }
    }

    /// Model of `decode_host` for names that contain no "xn--" label (none can be spelled in the
    /// harness alphabet): the name itself.  `str::split` + memchr under symbolic lengths does not finish
    /// in CBMC (symex 690 s / 6.9 M steps at 4+3 bytes, measured); the IDN branch of decode_host is
    /// decided separately (E2 provenance check of the provider's argument).
    fn stub_decode_host(host: &str) -> Option<Cow<str>> {
        Some(Cow::from(host))
    }

    /// idna stand-in: labels starting with "xn--" decode to something else (or fail)
    fn stub_domain_to_unicode(domain: &str) -> (String, Result<(), idna::Errors>) {
        let fail: bool = kani::any();
        let mut out = String::from("u");
        out.push_str(domain);
        if fail {
            (out, Err(idna::Errors::default()))
        } else {
            (out, Ok(()))
        }
    }

    /// symbolic ASCII string over the alphabet {a, b, c, .} of length <= N, leaked to 'static
    fn any_name<const N: usize>() -> &'static str {
        let bytes: [u8; N] = kani::any();
        let len: usize = kani::any();
        kani::assume(len <= N);
        let mut i = 0;
        while i < N {
            kani::assume(bytes[i] == b'a' || bytes[i] == b'b' || bytes[i] == b'c' || bytes[i] == b'.');
            i += 1;
        }
        let v: &'static mut [u8; N] = Box::leak(Box::new(bytes));
        unsafe { core::str::from_utf8_unchecked(&v[..len]) }
    }

    /// Suffix provider of the harness: the PSL algorithm over the rule set {"c", "b.c"}.
    /// A name is registrable iff it is "<label>.c" with label != "b" ... or "<label>.b.c", etc.
    pub(crate) struct TinyPsl;

    fn label_start(s: &[u8], end: usize) -> usize {
        // index of the first byte of the label ending at `end` (exclusive)
        let mut i = end;
        while i > 0 && s[i - 1] != b'.' {
            i -= 1;
        }
        i
    }

    /// public suffix length of `s` under the rules {c, b.c} plus the implicit "*" rule
    fn tiny_suffix_len(s: &[u8]) -> usize {
        let n = s.len();
        let l1 = label_start(s, n);
        let last = &s[l1..n];
        if last.len() == 1 && last[0] == b'c' {
            // rule "c"; longer rule "b.c"?
            if l1 >= 2 {
                let l2 = label_start(s, l1 - 1);
                let second = &s[l2..l1 - 1];
                if second.len() == 1 && second[0] == b'b' {
                    return n - l2;
                }
            }
            return n - l1;
        }
        n - l1 // implicit "*": the last label
    }

    impl public_suffix::EffectiveTLDProvider for TinyPsl {
        fn effective_tld_plus_one<'a>(&self, domain: &'a str) -> Result<&'a str, public_suffix::Error> {
            let s = domain.as_bytes();
            let n = s.len();
            if n == 0 || s[0] == b'.' || s[n - 1] == b'.' {
                return Err(public_suffix::Error::EmptyLabel);
            }
            let mut i = 1;
            while i < n {
                if s[i] == b'.' && s[i - 1] == b'.' {
                    return Err(public_suffix::Error::EmptyLabel);
                }
                i += 1;
            }
            let sl = tiny_suffix_len(s);
            if n <= sl {
                return Err(public_suffix::Error::CannotDeriveETldPlus1);
            }
            let start = label_start(s, n - sl - 1);
            Ok(&domain[start..])
        }
    }

    fn ref_registrable(s: &[u8]) -> bool {
        use public_suffix::EffectiveTLDProvider;
        TinyPsl
            .effective_tld_plus_one(unsafe { core::str::from_utf8_unchecked(s) })
            .is_ok()
    }

    fn ref_label_suffix(host: &[u8], rp: &[u8]) -> bool {
        // rp == host, or host ends with "." ++ rp
        if rp.len() > host.len() {
            return false;
        }
        let off = host.len() - rp.len();
        let mut i = 0;
        while i < rp.len() {
            if host[off + i] != rp[i] {
                return false;
            }
            i += 1;
        }
        off == 0 || host[off - 1] == b'.'
    }

    /// `true` when the harness body runs as an ordinary test (concrete playback of a counterexample):
    /// stubbed to `false` for the model checker, where the Url placeholder + stubs are used instead.
    fn running_natively() -> bool {
        true
    }
    fn stub_running_natively() -> bool {
        false
    }

    /// names whose labels are all non-empty (what a parsed origin host looks like)
    fn well_formed(s: &[u8]) -> bool {
        if s.is_empty() || s[0] == b'.' || s[s.len() - 1] == b'.' {
            return false;
        }
        let mut i = 1;
        while i < s.len() {
            if s[i] == b'.' && s[i - 1] == b'.' {
                return false;
            }
            i += 1;
        }
        true
    }

    /// the origin: under the model checker a placeholder (its bytes are never read, `domain` / `scheme`
    /// are stubbed); natively a really parsed URL with that scheme and host (an IP literal when the
    /// origin is to have no DNS host)
    fn origin_url(host: Option<&'static str>, https: bool) -> Option<Url> {
        if running_natively() {
            let h = host.unwrap_or("127.0.0.1");
            Url::parse(&format!("{}://{}/", if https { "https" } else { "http" }, h)).ok()
        } else {
            unsafe {
                HOST = host;
                SCHEME = if https { "https" } else { "http" };
            }
            let url = core::mem::MaybeUninit::<Url>::uninit();
            Some(unsafe { url.assume_init() })
        }
    }

    fn web_case<const HN: usize, const RN: usize>() {
        let host = any_name::<HN>();
        kani::assume(well_formed(host.as_bytes()));
        let host_present: bool = kani::any();
        let rp = any_name::<RN>();
        let rp_present: bool = kani::any();
        let https: bool = kani::any();
        let flag: bool = kani::any();
        let Some(url) = origin_url(host_present.then_some(host), https) else {
            return; // (native only) not a parseable origin
        };
        let verifier = RpIdVerifier::new(TinyPsl).allows_insecure_localhost(flag);
        let r = verifier.assert_web_rp_id(&url, rp_present.then_some(rp));
        let eff: &str = if rp_present { rp } else { host };
        // the alphabet {a,b,c,.} cannot spell "localhost": that exception is exercised in c01_localhost
        let want = host_present
            && (!rp_present || ref_label_suffix(host.as_bytes(), rp.as_bytes()))
            && ref_registrable(eff.as_bytes())
            && https;
        match r {
            Ok(got) => {
                // accepted only if the oracle accepts, and the result is exactly the effective RP ID
                assert!(want);
                assert!(got.len() == eff.len());
                let mut i = 0;
                while i < got.len() {
                    assert!(got.as_bytes()[i] == eff.as_bytes()[i]);
                    i += 1;
                }
                kani::cover!(HN < 5 || (rp_present && rp.len() < host.len()));
                kani::cover!(!rp_present);
            }
            Err(_) => {
                assert!(!want);
                kani::cover!(host_present && rp_present && https);
            }
        }
        core::mem::forget(verifier);
        core::mem::forget(url);
    }

    macro_rules! web_instance {
        ($name:ident, $h:expr, $r:expr, $unwind:expr) => {
            #[kani::proof]
            #[kani::stub(url::Url::domain, stub_domain)]
            #[kani::stub(url::Url::scheme, stub_scheme)]
            #[kani::stub(crate::decode_host, stub_decode_host)]
            #[kani::stub(running_natively, stub_running_natively)]
            #[kani::unwind($unwind)]
            fn $name() {
                web_case::<{ $h }, { $r }>();
            }
        };
    }
    web_instance!(c01_web_free_4_3, 4, 3, 12);
    web_instance!(c01_web_free_5_3, 5, 3, 12);
    web_instance!(c01_web_free_6_3, 6, 3, 14);
    web_instance!(c01_web_free_6_4, 6, 4, 14);

    #[kani::proof]
    #[kani::stub(url::Url::domain, stub_domain)]
    #[kani::stub(url::Url::scheme, stub_scheme)]
    #[kani::stub(crate::decode_host, stub_decode_host)]
    #[kani::stub(running_natively, stub_running_natively)]
    #[kani::unwind(12)]
    fn c01_web_twin() {
        let host = any_name::<4>();
        kani::assume(well_formed(host.as_bytes()));
        let Some(url) = origin_url(Some(host), true) else { return };
        let verifier = RpIdVerifier::new(TinyPsl);
        let r = verifier.assert_web_rp_id(&url, None);
        kani::assume(r.is_ok());
        core::mem::forget(verifier);
        core::mem::forget(url);
        assert!(false);
    }

    /// the literal host "localhost": accepted exactly when insecure localhost was enabled, whatever
    /// the scheme; an RP ID other than "localhost" for that host follows the general rule
    #[kani::proof]
    #[kani::stub(url::Url::domain, stub_domain)]
    #[kani::stub(url::Url::scheme, stub_scheme)]
    #[kani::stub(crate::decode_host, stub_decode_host)]
    #[kani::stub(running_natively, stub_running_natively)]
    #[kani::unwind(12)]
    fn c01_localhost_gate() {
        let https: bool = kani::any();
        let flag: bool = kani::any();
        let rp_present: bool = kani::any();
        let Some(url) = origin_url(Some("localhost"), https) else { return };
        let verifier = RpIdVerifier::new(TinyPsl).allows_insecure_localhost(flag);
        let r = verifier.assert_web_rp_id(&url, rp_present.then_some("localhost"));
        match r {
            Ok(got) => {
                assert!(flag);
                assert!(got.len() == 9);
                kani::cover!(!https);
            }
            Err(e) => {
                assert!(!flag);
                assert!(matches!(e, WebauthnError::InsecureLocalhostNotAllowed));
                kani::cover!(https);
            }
        }
        // is_valid_rp_id agrees
        assert!(verifier.is_valid_rp_id("localhost") == flag);
        core::mem::forget(verifier);
        core::mem::forget(url);
    }

    /// hosts that merely END in "localhost" ("<x>localhost", "<x>.localhost") are not the literal host
    /// localhost: they get no exemption from the registrable-domain and https requirements
    #[kani::proof]
    #[kani::stub(url::Url::domain, stub_domain)]
    #[kani::stub(url::Url::scheme, stub_scheme)]
    #[kani::stub(crate::decode_host, stub_decode_host)]
    #[kani::stub(running_natively, stub_running_natively)]
    #[kani::unwind(14)]
    fn c01_localhost_lookalike() {
        let x: u8 = kani::any();
        kani::assume(x >= b'a' && x <= b'z');
        let dotted: bool = kani::any();
        let mut buf = [0u8; 11];
        buf[0] = x;
        let mut n = 1;
        if dotted {
            buf[1] = b'.';
            n = 2;
        }
        let lh = b"localhost";
        let mut i = 0;
        while i < 9 {
            buf[n + i] = lh[i];
            i += 1;
        }
        let v: &'static mut [u8; 11] = Box::leak(Box::new(buf));
        let host: &'static str = unsafe { core::str::from_utf8_unchecked(&v[..n + 9]) };
        let https: bool = kani::any();
        let Some(url) = origin_url(Some(host), https) else { return };
        let verifier = RpIdVerifier::new(TinyPsl).allows_insecure_localhost(true);
        // the RP ID: absent, or the parent name "localhost" itself (which such a host may NOT claim: the
        // exemption is for the literal host only, and "localhost" alone is not a registrable domain)
        let claims_localhost: bool = kani::any();
        let r = verifier.assert_web_rp_id(&url, claims_localhost.then_some("localhost"));
        // "<x>localhost" is a single label (not registrable); "<x>.localhost" is registrable under the
        // implicit rule and then needs https like any other origin
        match r {
            Ok(_) => assert!(dotted && https && !claims_localhost),
            Err(_) => assert!(!(dotted && https && !claims_localhost)),
        }
        assert!(verifier.is_valid_rp_id(host) == dotted);
        kani::cover!(dotted && https && !claims_localhost);
        kani::cover!(!dotted);
        kani::cover!(dotted && claims_localhost);
        core::mem::forget(verifier);
        core::mem::forget(url);
    }

    /// is_valid_rp_id(rp) <=> rp is registrable under the provider (names that cannot be "localhost")
    #[kani::proof]
    #[kani::stub(crate::decode_host, stub_decode_host)]
    #[kani::unwind(12)]
    fn c01_is_valid_rp_id() {
        let rp = any_name::<5>();
        let flag: bool = kani::any();
        let verifier = RpIdVerifier::new(TinyPsl).allows_insecure_localhost(flag);
        let got = verifier.is_valid_rp_id(rp);
        assert!(got == ref_registrable(rp.as_bytes()));
        kani::cover!(got);
        kani::cover!(!got && rp.len() == 5);
        core::mem::forget(verifier);
    }
}
