#[cfg(kani)]
#[allow(unused, clippy::all)]
mod verif_proofs {
    use super::*;
    use passkey_authenticator::{Authenticator, DiscoverabilitySupport, StoreInfo, UserCheck, UserValidationMethod};
    use passkey_types::ctap2::{self, Aaguid, Ctap2Error, StatusCode};
    use passkey_types::webauthn::{
        AuthenticationExtensionsClientInputs, AuthenticatorSelectionCriteria, ResidentKeyRequirement,
        UserVerificationRequirement,
    };
    use passkey_types::Passkey;

    /// user validation double (never consulted by the functions under test)
    pub(crate) struct NoUser;

    // hand-expanded form of #[async_trait] (passkey-client has no direct dependency on the macro crate)
    impl UserValidationMethod for NoUser {
        type PasskeyItem = Passkey;
        fn check_user<'a, 'life0, 'async_trait>(
            &'life0 self,
            _credential: Option<&'a Passkey>,
            presence: bool,
            verification: bool,
        ) -> core::pin::Pin<Box<dyn core::future::Future<Output = Result<UserCheck, Ctap2Error>> + Send + 'async_trait>>
        where
            'a: 'async_trait,
            'life0: 'async_trait,
            Self: 'async_trait,
        {
            Box::pin(async move {
                Ok(UserCheck {
                    presence,
                    verification,
                })
            })
        }
        fn is_presence_enabled(&self) -> bool {
            true
        }
        fn is_verification_enabled(&self) -> Option<bool> {
            Some(true)
        }
    }

    /// suffix provider double (never consulted by the functions under test)
    pub(crate) struct NoTld;
    impl public_suffix::EffectiveTLDProvider for NoTld {
        fn effective_tld_plus_one<'a>(&self, domain: &'a str) -> Result<&'a str, public_suffix::Error> {
            Ok(domain)
        }
    }

    fn client() -> Client<Option<Passkey>, NoUser, NoTld> {
        Client::new_with_custom_tld_provider(Authenticator::new(Aaguid::new_empty(), None, NoUser), NoTld)
    }

    // ------------------------------------------------------------------------------------------
    // C13: status byte -> WebauthnError
    // ------------------------------------------------------------------------------------------
    #[kani::proof]
    fn c13_webauthn_error_from_status() {
        let b: u8 = kani::any();
        let e = WebauthnError::from(StatusCode::from(b));
        match e {
            WebauthnError::CredentialNotFound => assert!(b == 0x2E),
            WebauthnError::AuthenticatorError(x) => assert!(x == b && b != 0x2E),
            _ => assert!(false),
        }
        kani::cover!(b == 0x2E);
        kani::cover!(b == 0xF3);
        kani::cover!(b == 0x01);
    }

    #[kani::proof]
    fn c13_webauthn_error_twin() {
        let b: u8 = kani::any();
        let e = WebauthnError::from(StatusCode::from(b));
        kani::assume(matches!(e, WebauthnError::AuthenticatorError(_)));
        assert!(false);
    }

    // ------------------------------------------------------------------------------------------
    // C11: residentKey / requireResidentKey / authenticator capability -> rk option
    // ------------------------------------------------------------------------------------------
    #[kani::proof]
    #[kani::unwind(4)]
    fn c11_map_rk_table() {
        let c = client();
        let rk_kind: u8 = kani::any();
        kani::assume(rk_kind < 4);
        let resident_key = match rk_kind {
            0 => None,
            1 => Some(ResidentKeyRequirement::Discouraged),
            2 => Some(ResidentKeyRequirement::Preferred),
            _ => Some(ResidentKeyRequirement::Required),
        };
        let require_resident_key: bool = kani::any();
        let criteria_present: bool = kani::any();
        let criteria = criteria_present.then(|| AuthenticatorSelectionCriteria {
            resident_key,
            require_resident_key,
            user_verification: UserVerificationRequirement::Discouraged,
            authenticator_attachment: None,
        });
        // authenticator capability: options absent, rk false, rk true
        let cap: u8 = kani::any();
        kani::assume(cap < 3);
        let info = ctap2::get_info::Response {
            versions: Vec::new(),
            extensions: None,
            aaguid: Aaguid::new_empty(),
            options: if cap == 0 {
                None
            } else {
                Some(ctap2::get_info::Options {
                    rk: cap == 2,
                    uv: Some(true),
                    up: true,
                    plat: true,
                    client_pin: None,
                })
            },
            max_msg_size: None,
            pin_protocols: None,
            transports: None,
        };
        let got = c.map_rk(&criteria, &info);
        // WebAuthn L3, 5.1.3 step 20 (requireResidentKey for the authenticator):
        let want = if !criteria_present {
            false
        } else {
            match rk_kind {
                3 => true,         // required
                2 => cap == 2,     // preferred: iff the authenticator can store client-side credentials
                1 => false,        // discouraged
                _ => require_resident_key, // absent: the legacy member
            }
        };
        assert!(got == want);
        kani::cover!(rk_kind == 2 && cap == 2 && got);
        kani::cover!(rk_kind == 2 && cap == 0 && !got);
        kani::cover!(rk_kind == 0 && require_resident_key && got);
        kani::cover!(!criteria_present);
        core::mem::forget(info);
        core::mem::forget(c);
    }

    /// credProps: present iff requested with `true`; its value is whether the credential is
    /// discoverable under the store's capability
    #[kani::proof]
    #[kani::unwind(4)]
    fn c11_cred_props_output() {
        let c = client();
        let req_kind: u8 = kani::any();
        kani::assume(req_kind < 4);
        let inputs = AuthenticationExtensionsClientInputs {
            cred_props: match req_kind {
                1 => Some(false),
                2 => Some(true),
                _ => None,
            },
            prf: None,
            prf_already_hashed: None,
        };
        let request = if req_kind == 3 { None } else { Some(&inputs) };
        let capk: u8 = kani::any();
        kani::assume(capk < 3);
        let store_info = StoreInfo {
            discoverability: match capk {
                0 => DiscoverabilitySupport::Full,
                1 => DiscoverabilitySupport::OnlyNonDiscoverable,
                _ => DiscoverabilitySupport::ForcedDiscoverable,
            },
        };
        let rk: bool = kani::any();
        let out = c.registration_extension_outputs(request, store_info, rk, None);
        let discoverable = match capk {
            0 => rk,
            1 => false,
            _ => true,
        };
        match out.cred_props {
            Some(p) => {
                assert!(req_kind == 2);
                assert!(p.discoverable == Some(discoverable));
                kani::cover!(discoverable && !rk);
                kani::cover!(!discoverable && rk);
            }
            None => assert!(req_kind != 2),
        }
        assert!(out.prf.is_none());
        core::mem::forget(c);
    }
}
