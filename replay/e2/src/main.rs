//! Native replay of E2 (MIR path executor) counterexamples: runs one ceremony of the *real*
//! passkey-authenticator through its public API with a scripted credential store and a scripted
//! user-validation method, and prints what happened as JSON.  No solver, no Kani.
//!
//! usage: verif-e2-replay '<scenario json>'
use std::future::Future;
use std::pin::Pin;
use std::sync::{Arc, Mutex};
use std::task::{Context, Poll, Waker};

use passkey_authenticator::{
    extensions::HmacSecretConfig, Authenticator, CredentialStore, Ctap2Api, DiscoverabilitySupport,
    StoreInfo, U2fApi, UserCheck, UserValidationMethod,
};
use passkey_types::{
    ctap2::{
        get_assertion, make_credential, Aaguid, Ctap2Error, Flags, StatusCode,
    },
    webauthn, Passkey,
};
use serde_json::{json, Value};

type Log = Arc<Mutex<Vec<Value>>>;

/// future that is Pending `n` times before yielding its value
struct Delay<T: Unpin> {
    n: u64,
    v: Option<T>,
}
impl<T: Unpin> Future for Delay<T> {
    type Output = T;
    fn poll(mut self: Pin<&mut Self>, cx: &mut Context<'_>) -> Poll<T> {
        if self.n > 0 {
            self.n -= 1;
            cx.waker().wake_by_ref();
            Poll::Pending
        } else {
            Poll::Ready(self.v.take().unwrap())
        }
    }
}

struct Store {
    script: Value,
    log: Log,
    held: Vec<Passkey>,
}

fn status(v: &Value) -> StatusCode {
    StatusCode::from(v.as_u64().unwrap_or(0x7f) as u8)
}

#[async_trait::async_trait]
impl CredentialStore for Store {
    type PasskeyItem = Passkey;

    async fn find_credentials(
        &self,
        ids: Option<&[webauthn::PublicKeyCredentialDescriptor]>,
        rp_id: &str,
    ) -> Result<Vec<Passkey>, StatusCode> {
        let n = self.log.lock().unwrap().iter().filter(|e| e["call"] == "find").count();
        self.log.lock().unwrap().push(json!({"call": "find", "ids": ids.map(|l| l.len()), "rp_id": rp_id}));
        let pend = self.script["pending"]["find"].as_u64().unwrap_or(0);
        Delay { n: pend, v: Some(()) }.await;
        let s = &self.script["find"];
        let s = if s.is_array() { &s[n.min(s.as_array().unwrap().len() - 1)] } else { s };
        if let Some(e) = s.get("err") {
            return Err(status(e));
        }
        Ok(self.held.clone().into_iter().take(s["ok"].as_u64().unwrap_or(0) as usize).collect())
    }

    async fn save_credential(
        &mut self,
        cred: Passkey,
        user: make_credential::PublicKeyCredentialUserEntity,
        rp: make_credential::PublicKeyCredentialRpEntity,
        _options: get_assertion::Options,
    ) -> Result<(), StatusCode> {
        self.log.lock().unwrap().push(json!({"call": "save", "rp_id": cred.rp_id, "cred_rp": rp.id,
            "counter": cred.counter, "user_handle": cred.user_handle.is_some(), "user_id_len": user.id.len(),
            "cred_id_len": cred.credential_id.len(), "hmac_secret": cred.extensions.hmac_secret.is_some()}));
        let pend = self.script["pending"]["save"].as_u64().unwrap_or(0);
        Delay { n: pend, v: Some(()) }.await;
        if let Some(e) = self.script["save"].get("err") {
            return Err(status(e));
        }
        self.held.push(cred);
        Ok(())
    }

    async fn update_credential(&mut self, cred: Passkey) -> Result<(), StatusCode> {
        self.log.lock().unwrap().push(json!({"call": "update", "counter": cred.counter}));
        let pend = self.script["pending"]["update"].as_u64().unwrap_or(0);
        Delay { n: pend, v: Some(()) }.await;
        if let Some(e) = self.script["update"].get("err") {
            return Err(status(e));
        }
        if self.script["stateful"].as_bool().unwrap_or(false) {
            if let Some(slot) = self.held.iter_mut().find(|p| p.credential_id == cred.credential_id) {
                *slot = cred;
            }
        }
        Ok(())
    }

    async fn get_info(&self) -> StoreInfo {
        self.log.lock().unwrap().push(json!({"call": "get_info"}));
        StoreInfo {
            discoverability: match self.script["capability"].as_str().unwrap_or("forced") {
                "full" => DiscoverabilitySupport::Full,
                "non_discoverable" => DiscoverabilitySupport::OnlyNonDiscoverable,
                _ => DiscoverabilitySupport::ForcedDiscoverable,
            },
        }
    }
}

struct User {
    script: Value,
    log: Log,
}

#[async_trait::async_trait]
impl UserValidationMethod for User {
    type PasskeyItem = Passkey;

    async fn check_user<'a>(
        &self,
        credential: Option<&'a Passkey>,
        presence: bool,
        verification: bool,
    ) -> Result<UserCheck, Ctap2Error> {
        self.log.lock().unwrap().push(json!({"call": "check_user", "credential": credential.map(|c| c.credential_id.len()),
            "credential_first_byte": credential.map(|c| c.credential_id[0]), "up": presence, "uv": verification}));
        let pend = self.script["pending"].as_u64().unwrap_or(0);
        Delay { n: pend, v: Some(()) }.await;
        let o = &self.script["outcome"];
        if let Some(e) = o.get("err") {
            return Err(Ctap2Error::try_from(e.as_u64().unwrap() as u8).unwrap_or(Ctap2Error::OperationDenied));
        }
        Ok(UserCheck {
            presence: o["ok"][0].as_bool().unwrap_or(true),
            verification: o["ok"][1].as_bool().unwrap_or(true),
        })
    }

    fn is_presence_enabled(&self) -> bool {
        self.script["presence_enabled"].as_bool().unwrap_or(true)
    }

    fn is_verification_enabled(&self) -> Option<bool> {
        self.script["verification"].as_bool()
    }
}

fn block_on<F: Future>(f: F, max_polls: u64, polls: &mut u64) -> Option<F::Output> {
    let mut f = std::pin::pin!(f);
    let mut cx = Context::from_waker(Waker::noop());
    loop {
        *polls += 1;
        if let Poll::Ready(v) = f.as_mut().poll(&mut cx) {
            return Some(v);
        }
        if *polls >= max_polls {
            return None; // cancelled: the future is dropped here
        }
    }
}

fn descriptor(id: &[u8]) -> webauthn::PublicKeyCredentialDescriptor {
    webauthn::PublicKeyCredentialDescriptor {
        ty: webauthn::PublicKeyCredentialType::PublicKey,
        id: id.to_vec().into(),
        transports: None,
    }
}

/// what a relying party would check on an assertion, with real crypto: the signature verifies under the
/// public key of the held credential named in the response, over authenticator data || client data hash
fn assertion_binding(resp: &get_assertion::Response, held: &[Passkey], rp: &str, cdh: &[u8]) -> Value {
    use p256::ecdsa::signature::Verifier;
    use sha2::{Digest, Sha256};
    let id = resp.credential.as_ref().map(|c| c.id.clone());
    let pk = id.as_ref().and_then(|id| held.iter().find(|p| p.credential_id == *id));
    let mut msg = resp.auth_data.to_vec();
    msg.extend_from_slice(cdh);
    let verifies = pk.and_then(|p| {
        let mut x = None;
        let mut y = None;
        for (l, v) in &p.key.params {
            if *l == coset::Label::Int(-2) { x = v.as_bytes().cloned(); }
            if *l == coset::Label::Int(-3) { y = v.as_bytes().cloned(); }
        }
        let (x, y) = (x?, y?);
        if x.len() != 32 || y.len() != 32 { return None; }
        let pt = p256::EncodedPoint::from_affine_coordinates(x.as_slice().into(), y.as_slice().into(), false);
        let vk = p256::ecdsa::VerifyingKey::from_encoded_point(&pt).ok()?;
        let sig = p256::ecdsa::Signature::from_der(&resp.signature).ok()?;
        Some(vk.verify(&msg, &sig).is_ok())
    });
    let rp_hash: [u8; 32] = Sha256::digest(rp.as_bytes()).into();
    json!({
        "verifies": verifies,
        "credential_held_for_rp": pk.map(|p| p.rp_id == rp),
        "rp_hash_ok": resp.auth_data.rp_id_hash() == &rp_hash[..],
        "attested": resp.auth_data.attested_credential_data.is_some(),
        "user_handle_matches": pk.map(|p| p.user_handle.as_ref().map(|h| h.to_vec()) == resp.user.as_ref().map(|u| u.id.to_vec())),
    })
}

fn main() {
    let arg = std::env::args().nth(1).expect("scenario json");
    let sc: Value = serde_json::from_str(&arg).expect("valid json");
    let log: Log = Arc::new(Mutex::new(Vec::new()));
    let rp = sc["request"]["rp_id"].as_str().unwrap_or("example.com").to_string();

    if sc["op"] == "concurrent_assert" {
        // two authenticators sharing one store through Arc<tokio::sync::Mutex<_>> (or RwLock), each asserting
        // with the same credential; the user validation of the first suspends once, the second ceremony
        // runs to completion in between (single-threaded, explicit polling: the schedule is the scenario)
        let start = sc["counter"].as_u64().unwrap_or(5) as u32;
        let mut pk = Passkey::mock(rp.clone()).counter(start).build();
        pk.credential_id = vec![1u8; 16].into();
        let mk_req = || get_assertion::Request {
            rp_id: rp.clone(),
            client_data_hash: vec![7u8; 32].into(),
            allow_list: None,
            extensions: None,
            options: make_credential::Options { rk: false, up: true, uv: false },
            pin_auth: None,
            pin_protocol: None,
        };
        let script = json!({"find": {"ok": 1}, "stateful": true});
        let store = Store { script, log: log.clone(), held: vec![pk] };
        let user = |pending: u64| User { script: json!({"verification": true, "outcome": {"ok": [true, true]}, "pending": pending}), log: log.clone() };
        let mut cx = Context::from_waker(Waker::noop());
        let counters: Vec<Option<u32>>;
        let stored: Option<u32>;
        macro_rules! run_two {
            ($shared:expr, $read:expr) => {{
                let shared = $shared;
                let mut a = Authenticator::new(Aaguid::new_empty(), shared.clone(), user(1));
                let mut b = Authenticator::new(Aaguid::new_empty(), shared.clone(), user(0));
                let mut fa = Box::pin(Authenticator::get_assertion(&mut a, mk_req()));
                let mut fb = Box::pin(Authenticator::get_assertion(&mut b, mk_req()));
                let mut ra = None;
                let mut rb = None;
                // A runs until its consent step suspends, then B completes, then A resumes
                if let Poll::Ready(r) = fa.as_mut().poll(&mut cx) { ra = Some(r); }
                for _ in 0..100 { if let Poll::Ready(r) = fb.as_mut().poll(&mut cx) { rb = Some(r); break; } }
                for _ in 0..100 { if ra.is_some() { break; } if let Poll::Ready(r) = fa.as_mut().poll(&mut cx) { ra = Some(r); } }
                let c: Vec<Option<u32>> = [ra, rb].into_iter().map(|r| r.and_then(|x| x.ok()).and_then(|x| x.auth_data.counter)).collect();
                drop(fa); drop(fb);
                (c, $read(&shared))
            }};
        }
        if sc["lock"] == "rwlock" {
            let (c, s) = run_two!(Arc::new(tokio::sync::RwLock::new(store)), |sh: &Arc<tokio::sync::RwLock<Store>>| sh.try_read().ok().and_then(|g| g.held[0].counter));
            counters = c; stored = s;
        } else {
            let (c, s) = run_two!(Arc::new(tokio::sync::Mutex::new(store)), |sh: &Arc<tokio::sync::Mutex<Store>>| sh.try_lock().ok().and_then(|g| g.held[0].counter));
            counters = c; stored = s;
        }
        println!("E2REPLAY {}", json!({"result": {"counters": counters, "stored": stored, "start": start}, "log": *log.lock().unwrap()}));
        return;
    }
    if sc["op"] == "wrapper_ops" {
        // every CredentialStore method once through Arc<Mutex<MemoryStore>> / Arc<RwLock<MemoryStore>>, compared with
        // what the wrapped store then holds; a call still pending after 1000 polls counts as a deadlock
        use passkey_authenticator::{CredentialStore, DiscoverabilitySupport, MemoryStore};
        let mut p0 = Passkey::mock(rp.clone()).counter(5).build();
        p0.credential_id = vec![1u8; 16].into();
        let mut p1 = Passkey::mock(rp.clone()).counter(0).build();
        p1.credential_id = vec![2u8; 16].into();
        let mut cx = Context::from_waker(Waker::noop());
        macro_rules! drive {
            ($fut:expr, $dead:expr, $name:expr) => {{
                let mut f = Box::pin($fut);
                let mut out = None;
                for _ in 0..1000 { if let Poll::Ready(r) = f.as_mut().poll(&mut cx) { out = Some(r); break; } }
                if out.is_none() { $dead.push($name.to_string()); }
                out
            }};
        }
        macro_rules! run_ops {
            ($shared:expr, $peek:expr) => {{
                let mut w = $shared;
                let mut dead: Vec<String> = Vec::new();
                let user = make_credential::PublicKeyCredentialUserEntity { id: vec![9u8; 8].into(), display_name: Some("d".into()), name: Some("n".into()), icon_url: None };
                let rpe = make_credential::PublicKeyCredentialRpEntity { id: rp.clone(), name: None };
                let saved_ok = drive!(w.save_credential(p1.clone(), user, rpe, make_credential::Options { rk: sc["rk"].as_bool().unwrap_or(true), up: sc["up"].as_bool().unwrap_or(true), uv: sc["uv"].as_bool().unwrap_or(false) }), dead, "save_credential").map(|r| r.is_ok());
                let saved = $peek(&w, &p1.credential_id).is_some();
                let mut p0b = p0.clone();
                p0b.counter = Some(9);
                let upd_ok = drive!(w.update_credential(p0b), dead, "update_credential").map(|r| r.is_ok());
                let updated = $peek(&w, &p0.credential_id).and_then(|p| p.counter) == Some(9);
                let ids = [descriptor(&p0.credential_id)];
                let found = drive!(w.find_credentials(Some(&ids), &rp), dead, "find_credentials").map(|r| r.map(|v| v.len()).map_err(|e| format!("{:?}", e)));
                let info = drive!(w.get_info(), dead, "get_info").map(|i| match i.discoverability {
                    DiscoverabilitySupport::Full => "full",
                    DiscoverabilitySupport::ForcedDiscoverable => "forced",
                    DiscoverabilitySupport::OnlyNonDiscoverable => "non-discoverable",
                });
                json!({"save_ok": saved_ok, "saved": saved, "update_ok": upd_ok, "updated": updated, "found": found.map(|r| r.ok()), "info": info, "deadlock": dead})
            }};
        }
        let mut inner = MemoryStore::new();
        inner.insert(p0.credential_id.clone().into(), p0.clone());
        let res = if sc["lock"] == "rwlock" {
            run_ops!(Arc::new(tokio::sync::RwLock::new(inner)), |w: &Arc<tokio::sync::RwLock<MemoryStore>>, id: &passkey_types::Bytes| w.try_read().ok().and_then(|g| g.get(id.as_slice()).cloned()))
        } else {
            run_ops!(Arc::new(tokio::sync::Mutex::new(inner)), |w: &Arc<tokio::sync::Mutex<MemoryStore>>, id: &passkey_types::Bytes| w.try_lock().ok().and_then(|g| g.get(id.as_slice()).cloned()))
        };
        println!("E2REPLAY {}", json!({"result": res, "log": []}));
        return;
    }
    if sc["op"] == "cbor_duplicates" {
        // serialise fully populated messages, duplicate one top-level member at a time, decode again
        use ciborium::value::Value as V;
        fn dup_accepted<T: serde::Serialize + serde::de::DeserializeOwned>(name: &str, msg: &T, out: &mut Vec<String>) {
            let mut bytes = Vec::new();
            ciborium::ser::into_writer(msg, &mut bytes).unwrap();
            let v: V = ciborium::de::from_reader(bytes.as_slice()).unwrap();
            let V::Map(entries) = v else { return };
            for i in 0..entries.len() {
                let mut e2 = entries.clone();
                e2.push(entries[i].clone());
                let mut b2 = Vec::new();
                ciborium::ser::into_writer(&V::Map(e2), &mut b2).unwrap();
                if ciborium::de::from_reader::<T, _>(b2.as_slice()).is_ok() {
                    out.push(format!("{}:{:?}", name, entries[i].0));
                }
            }
        }
        let mut acc = Vec::new();
        let info = passkey_types::ctap2::get_info::Response {
            versions: vec![passkey_types::ctap2::get_info::Version::FIDO_2_0],
            extensions: Some(vec![passkey_types::ctap2::get_info::Extension::Prf]),
            aaguid: Aaguid::new_empty(),
            options: Some(Default::default()),
            max_msg_size: std::num::NonZeroU128::new(1200),
            pin_protocols: Some(vec![1]),
            transports: Some(vec![webauthn::AuthenticatorTransport::Usb, webauthn::AuthenticatorTransport::Nfc]),
        };
        dup_accepted("get_info::Response", &info, &mut acc);
        let ga = get_assertion::Request {
            rp_id: "example.com".into(),
            client_data_hash: vec![7u8; 32].into(),
            allow_list: Some(vec![descriptor(&[1u8; 16])]),
            extensions: None,
            options: make_credential::Options { rk: false, up: true, uv: true },
            pin_auth: Some(vec![1u8; 16].into()),
            pin_protocol: Some(1),
        };
        dup_accepted("get_assertion::Request", &ga, &mut acc);
        let mc = make_credential::Request {
            client_data_hash: vec![7u8; 32].into(),
            rp: make_credential::PublicKeyCredentialRpEntity { id: "example.com".into(), name: Some("n".into()) },
            user: webauthn::PublicKeyCredentialUserEntity { id: vec![9u8; 8].into(), display_name: "d".into(), name: "n".into() },
            pub_key_cred_params: webauthn::PublicKeyCredentialParameters::default_algorithms(),
            exclude_list: Some(vec![descriptor(&[1u8; 16])]),
            extensions: None,
            options: make_credential::Options { rk: true, up: true, uv: false },
            pin_auth: Some(vec![1u8; 16].into()),
            pin_protocol: Some(1),
        };
        dup_accepted("make_credential::Request", &mc, &mut acc);
        println!("E2REPLAY {}", json!({"result": {"accepted": acc}, "log": []}));
        return;
    }
    if sc["op"] == "rp_id_valid" {
        // is this name accepted as an RP ID under the shipped public suffix list?
        let v = passkey_client::RpIdVerifier::new(public_suffix::DEFAULT_PROVIDER);
        let names: Vec<String> = sc["names"].as_array().map(|a| a.iter().filter_map(|x| x.as_str().map(String::from)).collect()).unwrap_or_default();
        let accepted: Vec<String> = names.into_iter().filter(|n| v.is_valid_rp_id(n)).collect();
        println!("E2REPLAY {}", json!({"result": {"accepted": accepted}, "log": []}));
        return;
    }
    if sc["op"] == "authdata_from_slice" {
        let n = sc["len"].as_u64().unwrap_or(0) as usize;
        let mut buf = vec![0u8; n];
        if n > 32 {
            buf[32] = sc["flag"].as_u64().unwrap_or(0) as u8;
        }
        let r = std::panic::catch_unwind(|| passkey_types::ctap2::AuthenticatorData::from_slice(&buf).map(|a| u8::from(a.flags)));
        let out = match r {
            Ok(Ok(f)) => json!({"result": {"ok": f}, "log": []}),
            Ok(Err(_)) => json!({"result": {"err": 1}, "log": []}),
            Err(_) => json!({"result": {"panic": "from_slice panicked"}, "log": []}),
        };
        println!("E2REPLAY {}", out);
        return;
    }
    if sc["op"] == "store_find" {
        // lookup contract of a shipped store: one stored credential, one query
        let mut pk = Passkey::mock(sc["stored_rp"].as_str().unwrap_or("a.example").to_string()).build();
        pk.credential_id = vec![1u8; 16].into();
        let ids: Option<Vec<webauthn::PublicKeyCredentialDescriptor>> = match sc["ids"].as_str() {
            Some("match") => Some(vec![descriptor(&[1u8; 16])]),
            Some("other") => Some(vec![descriptor(&[2u8; 16])]),
            Some("other_then_match") => Some(vec![descriptor(&[2u8; 16]), descriptor(&[1u8; 16])]),
            _ => None,
        };
        let q = sc["query_rp"].as_str().unwrap_or("a.example").to_string();
        let mut polls = 0u64;
        let r = if sc["store_kind"] == "memory" {
            let mut m = passkey_authenticator::MemoryStore::new();
            m.insert(pk.credential_id.clone().into(), pk);
            block_on(m.find_credentials(ids.as_deref(), &q), 100, &mut polls)
        } else {
            let s: Option<Passkey> = Some(pk);
            block_on(s.find_credentials(ids.as_deref(), &q), 100, &mut polls)
        };
        let out = match r {
            Some(Ok(v)) => json!({"result": {"ok": v.len(), "rp_ids": v.iter().map(|p| p.rp_id.clone()).collect::<Vec<_>>()}, "log": []}),
            Some(Err(e)) => json!({"result": {"err": u8::from(e)}, "log": []}),
            None => json!({"result": "cancelled", "log": []}),
        };
        println!("E2REPLAY {}", out);
        return;
    }

    // credentials held by the scripted store
    let mut held = Vec::new();
    if let Some(list) = sc["store"]["held"].as_array() {
        for (i, c) in list.iter().enumerate() {
            let mut b = Passkey::mock(c["rp_id"].as_str().unwrap_or(&rp).to_string());
            if let Some(n) = c["counter"].as_u64() {
                b = b.counter(n as u32);
            }
            if c["user_handle"].as_bool().unwrap_or(false) {
                b = b.user_handle(Some(8));
            }
            match c["hmac"].as_str() {
                Some("uv_only") => {
                    b = b.hmac_secret(passkey_types::StoredHmacSecret { cred_with_uv: vec![1u8; 32], cred_without_uv: None });
                }
                Some("both") => {
                    b = b.hmac_secret(passkey_types::StoredHmacSecret { cred_with_uv: vec![1u8; 32], cred_without_uv: Some(vec![2u8; 32]) });
                }
                _ => {}
            }
            let mut pk = b.build();
            pk.credential_id = vec![i as u8 + 1; 16].into();
            held.push(pk);
        }
    }
    let held_copy = held.clone();
    let store = Store { script: sc["store"].clone(), log: log.clone(), held };
    let user = User { script: sc["user"].clone(), log: log.clone() };
    let mut auth = Authenticator::new(Aaguid::new_empty(), store, user);
    let _ = &mut auth;
    if sc["config"]["counter"].as_bool().unwrap_or(false) {
        auth.set_make_credentials_with_signature_counter(true);
    }
    let auth = match sc["config"]["hmac_secret"].as_str() {
        Some("uv_only") => auth.hmac_secret(HmacSecretConfig::new_with_uv_only()),
        Some("uv_only_mc") => auth.hmac_secret(HmacSecretConfig::new_with_uv_only().enable_on_make_credential()),
        Some("without_uv") => auth.hmac_secret(HmacSecretConfig::new_without_uv()),
        Some("without_uv_mc") => auth.hmac_secret(HmacSecretConfig::new_without_uv().enable_on_make_credential()),
        _ => auth,
    };
    let mut auth = auth;
    let prf_inputs = || passkey_types::ctap2::extensions::AuthenticatorPrfInputs {
        eval: Some(passkey_types::ctap2::extensions::AuthenticatorPrfValues { first: [3u8; 32], second: None }),
        eval_by_credential: None,
    };
    let opts = make_credential::Options {
        rk: sc["request"]["rk"].as_bool().unwrap_or(false),
        up: sc["request"]["up"].as_bool().unwrap_or(true),
        uv: sc["request"]["uv"].as_bool().unwrap_or(false),
    };
    let pin_auth = sc["request"]["pin_auth"].as_bool().unwrap_or(false).then(|| vec![1u8; 16].into());
    let list = |v: &Value| -> Option<Vec<webauthn::PublicKeyCredentialDescriptor>> {
        v.as_array().map(|l| l.iter().map(|x| descriptor(&vec![x.as_u64().unwrap_or(0) as u8; 16])).collect())
    };
    let unknown_list = || -> Option<Vec<webauthn::PublicKeyCredentialDescriptor>> {
        sc["request"]["allow_list_unknown"].as_bool().unwrap_or(false).then(|| {
            vec![webauthn::PublicKeyCredentialDescriptor {
                ty: webauthn::PublicKeyCredentialType::Unknown,
                id: vec![9u8; 16].into(),
                transports: None,
            }]
        })
    };
    let max_polls = sc["max_polls"].as_u64().unwrap_or(1000);
    let mut polls = 0u64;
    let op = sc["op"].as_str().unwrap_or("get_assertion").to_string();

    let result = std::panic::catch_unwind(std::panic::AssertUnwindSafe(|| -> Value {
        match op.as_str() {
            "get_assertion" | "trait_get_assertion" => {
                let req = get_assertion::Request {
                    rp_id: rp.clone(),
                    client_data_hash: vec![7u8; 32].into(),
                    allow_list: unknown_list().or_else(|| list(&sc["request"]["allow_list"])),
                    extensions: sc["request"]["prf_eval"].as_bool().unwrap_or(false).then(|| get_assertion::ExtensionInputs {
                        hmac_secret: None,
                        prf: Some(prf_inputs()),
                    }),
                    options: opts,
                    pin_auth,
                    pin_protocol: None,
                };
                let r = if op == "get_assertion" {
                    block_on(Authenticator::get_assertion(&mut auth, req), max_polls, &mut polls)
                } else {
                    block_on(Ctap2Api::get_assertion(&mut auth, req), max_polls, &mut polls)
                };
                match r {
                    None => json!("cancelled"),
                    Some(Ok(resp)) => json!({"ok": {
                        "counter": resp.auth_data.counter,
                        "flags": u8::from(resp.auth_data.flags),
                        "user": resp.user.is_some(),
                        "credential_first_byte": resp.credential.as_ref().map(|c| c.id[0]),
                        "signature_len": resp.signature.len(),
                        "binding": assertion_binding(&resp, &held_copy, &rp, &[7u8; 32])}}),
                    Some(Err(e)) => json!({"err": u8::from(e)}),
                }
            }
            "make_credential" | "trait_make_credential" => {
                let req = make_credential::Request {
                    client_data_hash: vec![7u8; 32].into(),
                    rp: make_credential::PublicKeyCredentialRpEntity { id: rp.clone(), name: None },
                    user: webauthn::PublicKeyCredentialUserEntity {
                        id: vec![9u8; 8].into(),
                        display_name: "d".into(),
                        name: "n".into(),
                    },
                    pub_key_cred_params: if sc["request"]["unsupported_alg"].as_bool().unwrap_or(false) {
                        vec![webauthn::PublicKeyCredentialParameters {
                            ty: webauthn::PublicKeyCredentialType::PublicKey,
                            alg: coset::iana::Algorithm::RS256,
                        }]
                    } else {
                        webauthn::PublicKeyCredentialParameters::default_algorithms()
                    },
                    exclude_list: list(&sc["request"]["exclude_list"]),
                    extensions: sc["request"]["prf_eval"].as_bool().unwrap_or(false).then(|| make_credential::ExtensionInputs {
                        hmac_secret: None,
                        hmac_secret_mc: None,
                        prf: Some(prf_inputs()),
                    }),
                    options: opts,
                    pin_auth,
                    pin_protocol: None,
                };
                let r = if op == "make_credential" {
                    block_on(Authenticator::make_credential(&mut auth, req), max_polls, &mut polls)
                } else {
                    block_on(Ctap2Api::make_credential(&mut auth, req), max_polls, &mut polls)
                };
                match r {
                    None => json!("cancelled"),
                    Some(Ok(resp)) => json!({"ok": {
                        "counter": resp.auth_data.counter,
                        "flags": u8::from(resp.auth_data.flags),
                        "has_attested": resp.auth_data.attested_credential_data.is_some()}}),
                    Some(Err(e)) => json!({"err": u8::from(e)}),
                }
            }
            "u2f_register" => {
                let req = passkey_types::u2f::RegisterRequest { challenge: [5u8; 32], application: [6u8; 32] };
                match block_on(U2fApi::register(&mut auth, req, &[1u8; 16]), max_polls, &mut polls) {
                    None => json!("cancelled"),
                    Some(Ok(resp)) => json!({"ok": {"key_handle_len": resp.key_handle.len(), "signature_len": resp.signature.len()}}),
                    Some(Err(e)) => json!({"err": u8::from(e)}),
                }
            }
            "u2f_authenticate" => {
                let req = passkey_types::u2f::AuthenticationRequest {
                    parameter: passkey_types::u2f::AuthenticationParameter::EnforceUserPresence,
                    challenge: [5u8; 32],
                    application: [6u8; 32],
                    key_handle: vec![1u8; 16],
                };
                match block_on(U2fApi::authenticate(&auth, req, 1, Flags::UP), max_polls, &mut polls) {
                    None => json!("cancelled"),
                    Some(Ok(resp)) => json!({"ok": {"counter": resp.counter, "signature_len": resp.signature.len()}}),
                    Some(Err(e)) => json!({"err": u8::from(e)}),
                }
            }
            _ => json!("unknown op"),
        }
    }));
    let out = match result {
        Ok(v) => json!({"result": v, "log": *log.lock().unwrap(), "polls": polls,
                        "held_after": auth.store().held.len(),
                        "held_counters": auth.store().held.iter().map(|p| p.counter).collect::<Vec<_>>()}),
        Err(p) => {
            let msg = p.downcast_ref::<String>().cloned().or_else(|| p.downcast_ref::<&str>().map(|s| s.to_string())).unwrap_or_default();
            json!({"result": {"panic": msg}, "log": *log.lock().unwrap(), "polls": polls})
        }
    };
    println!("E2REPLAY {}", out);
    let _ = Flags::empty();
}
