//! Native replay of E2 (MIR path executor) counterexamples: runs one ceremony of the *real*
//! passkey-authenticator through its public API with a scripted credential store and a scripted
//! user-validation method, and prints what happened as JSON.  No solver, no Kani.
//!
//! usage: verif-e2-replay '<scenario json>'
use std::future::Future;
use std::pin::Pin;
use std::sync::{Arc, Mutex};
use std::task::{Context, Poll, Waker};

use passkey_authenticator::{
    extensions::HmacSecretConfig, Authenticator, CredentialStore, Ctap2Api, DiscoverabilitySupport,
    StoreInfo, U2fApi, UserCheck, UserValidationMethod,
};
use passkey_types::{
    ctap2::{
        get_assertion, make_credential, Aaguid, Ctap2Error, Flags, StatusCode,
    },
    webauthn, Passkey,
};
use serde_json::{json, Value};

type Log = Arc<Mutex<Vec<Value>>>;

/// future that is Pending `n` times before yielding its value
struct Delay<T: Unpin> {
    n: u64,
    v: Option<T>,
}
impl<T: Unpin> Future for Delay<T> {
    type Output = T;
    fn poll(mut self: Pin<&mut Self>, cx: &mut Context<'_>) -> Poll<T> {
        if self.n > 0 {
            self.n -= 1;
            cx.waker().wake_by_ref();
            Poll::Pending
        } else {
            Poll::Ready(self.v.take().unwrap())
        }
    }
}

struct Store {
    script: Value,
    log: Log,
    held: Vec<Passkey>,
}

fn status(v: &Value) -> StatusCode {
    StatusCode::from(v.as_u64().unwrap_or(0x7f) as u8)
}

#[async_trait::async_trait]
impl CredentialStore for Store {
    type PasskeyItem = Passkey;

    async fn find_credentials(
        &self,
        ids: Option<&[webauthn::PublicKeyCredentialDescriptor]>,
        rp_id: &str,
    ) -> Result<Vec<Passkey>, StatusCode> {
        let n = self.log.lock().unwrap().iter().filter(|e| e["call"] == "find").count();
        self.log.lock().unwrap().push(json!({"call": "find", "ids": ids.map(|l| l.len()), "rp_id": rp_id}));
        let pend = self.script["pending"]["find"].as_u64().unwrap_or(0);
        Delay { n: pend, v: Some(()) }.await;
        let s = &self.script["find"];
        let s = if s.is_array() { &s[n.min(s.as_array().unwrap().len() - 1)] } else { s };
        if let Some(e) = s.get("err") {
            return Err(status(e));
        }
        Ok(self.held.clone().into_iter().take(s["ok"].as_u64().unwrap_or(0) as usize).collect())
    }

    async fn save_credential(
        &mut self,
        cred: Passkey,
        user: make_credential::PublicKeyCredentialUserEntity,
        rp: make_credential::PublicKeyCredentialRpEntity,
        _options: get_assertion::Options,
    ) -> Result<(), StatusCode> {
        self.log.lock().unwrap().push(json!({"call": "save", "rp_id": cred.rp_id, "cred_rp": rp.id,
            "counter": cred.counter, "user_handle": cred.user_handle.is_some(), "user_id_len": user.id.len(),
            "cred_id_len": cred.credential_id.len(), "hmac_secret": cred.extensions.hmac_secret.is_some()}));
        let pend = self.script["pending"]["save"].as_u64().unwrap_or(0);
        Delay { n: pend, v: Some(()) }.await;
        if let Some(e) = self.script["save"].get("err") {
            return Err(status(e));
        }
        self.held.push(cred);
        Ok(())
    }

    async fn update_credential(&mut self, cred: Passkey) -> Result<(), StatusCode> {
        self.log.lock().unwrap().push(json!({"call": "update", "counter": cred.counter}));
        let pend = self.script["pending"]["update"].as_u64().unwrap_or(0);
        Delay { n: pend, v: Some(()) }.await;
        if let Some(e) = self.script["update"].get("err") {
            return Err(status(e));
        }
        if self.script["stateful"].as_bool().unwrap_or(false) {
            if let Some(slot) = self.held.iter_mut().find(|p| p.credential_id == cred.credential_id) {
                *slot = cred;
            }
        }
        Ok(())
    }

    async fn get_info(&self) -> StoreInfo {
        self.log.lock().unwrap().push(json!({"call": "get_info"}));
        StoreInfo {
            discoverability: match self.script["capability"].as_str().unwrap_or("forced") {
                "full" => DiscoverabilitySupport::Full,
                "non_discoverable" => DiscoverabilitySupport::OnlyNonDiscoverable,
                _ => DiscoverabilitySupport::ForcedDiscoverable,
            },
        }
    }
}

struct User {
    script: Value,
    log: Log,
}

#[async_trait::async_trait]
impl UserValidationMethod for User {
    type PasskeyItem = Passkey;

    async fn check_user<'a>(
        &self,
        credential: Option<&'a Passkey>,
        presence: bool,
        verification: bool,
    ) -> Result<UserCheck, Ctap2Error> {
        self.log.lock().unwrap().push(json!({"call": "check_user", "credential": credential.map(|c| c.credential_id.len()),
            "credential_first_byte": credential.map(|c| c.credential_id[0]), "up": presence, "uv": verification}));
        let pend = self.script["pending"].as_u64().unwrap_or(0);
        Delay { n: pend, v: Some(()) }.await;
        let o = &self.script["outcome"];
        if let Some(e) = o.get("err") {
            return Err(Ctap2Error::try_from(e.as_u64().unwrap() as u8).unwrap_or(Ctap2Error::OperationDenied));
        }
        Ok(UserCheck {
            presence: o["ok"][0].as_bool().unwrap_or(true),
            verification: o["ok"][1].as_bool().unwrap_or(true),
        })
    }

    fn is_presence_enabled(&self) -> bool {
        self.script["presence_enabled"].as_bool().unwrap_or(true)
    }

    fn is_verification_enabled(&self) -> Option<bool> {
        self.script["verification"].as_bool()
    }
}

fn block_on<F: Future>(f: F, max_polls: u64, polls: &mut u64) -> Option<F::Output> {
    let mut f = std::pin::pin!(f);
    let mut cx = Context::from_waker(Waker::noop());
    loop {
        *polls += 1;
        if let Poll::Ready(v) = f.as_mut().poll(&mut cx) {
            return Some(v);
        }
        if *polls >= max_polls {
            return None; // cancelled: the future is dropped here
        }
    }
}

fn descriptor(id: &[u8]) -> webauthn::PublicKeyCredentialDescriptor {
    webauthn::PublicKeyCredentialDescriptor {
        ty: webauthn::PublicKeyCredentialType::PublicKey,
        id: id.to_vec().into(),
        transports: None,
    }
}

/// what a relying party would check on an assertion, with real crypto: the signature verifies under the
/// public key of the held credential named in the response, over authenticator data || client data hash
fn assertion_binding(resp: &get_assertion::Response, held: &[Passkey], rp: &str, cdh: &[u8]) -> Value {
    use p256::ecdsa::signature::Verifier;
    use sha2::{Digest, Sha256};
    let id = resp.credential.as_ref().map(|c| c.id.clone());
    let pk = id.as_ref().and_then(|id| held.iter().find(|p| p.credential_id == *id));
    let mut msg = resp.auth_data.to_vec();
    msg.extend_from_slice(cdh);
    let verifies = pk.and_then(|p| {
        let mut x = None;
        let mut y = None;
        for (l, v) in &p.key.params {
            if *l == coset::Label::Int(-2) { x = v.as_bytes().cloned(); }
            if *l == coset::Label::Int(-3) { y = v.as_bytes().cloned(); }
        }
        let (x, y) = (x?, y?);
        if x.len() != 32 || y.len() != 32 { return None; }
        let pt = p256::EncodedPoint::from_affine_coordinates(x.as_slice().into(), y.as_slice().into(), false);
        let vk = p256::ecdsa::VerifyingKey::from_encoded_point(&pt).ok()?;
        let sig = p256::ecdsa::Signature::from_der(&resp.signature).ok()?;
        Some(vk.verify(&msg, &sig).is_ok())
    });
    let rp_hash: [u8; 32] = Sha256::digest(rp.as_bytes()).into();
    json!({
        "verifies": verifies,
        "credential_held_for_rp": pk.map(|p| p.rp_id == rp),
        "rp_hash_ok": resp.auth_data.rp_id_hash() == &rp_hash[..],
        "attested": resp.auth_data.attested_credential_data.is_some(),
        "user_handle_matches": pk.map(|p| p.user_handle.as_ref().map(|h| h.to_vec()) == resp.user.as_ref().map(|u| u.id.to_vec())),
    })
}

fn main() {
    let arg = std::env::args().nth(1).expect("scenario json");
    let sc: Value = serde_json::from_str(&arg).expect("valid json");
    let log: Log = Arc::new(Mutex::new(Vec::new()));
    let rp = sc["request"]["rp_id"].as_str().unwrap_or("example.com").to_string();

    if sc["op"] == "concurrent_assert" {
        // two authenticators sharing one store through Arc<tokio::sync::Mutex<_>> (or RwLock), each asserting
        // with the same credential; the user validation of the first suspends once, the second ceremony
        // runs to completion in between (single-threaded, explicit polling: the schedule is the scenario)
        let start = sc["counter"].as_u64().unwrap_or(5) as u32;
        let mut pk = Passkey::mock(rp.clone()).counter(start).build();
        pk.credential_id = vec![1u8; 16].into();
        let mk_req = || get_assertion::Request {
            rp_id: rp.clone(),
            client_data_hash: vec![7u8; 32].into(),
            allow_list: None,
            extensions: None,
            options: make_credential::Options { rk: false, up: true, uv: false },
            pin_auth: None,
            pin_protocol: None,
        };
        let script = json!({"find": {"ok": 1}, "stateful": true});
        let store = Store { script, log: log.clone(), held: vec![pk] };
        let user = |pending: u64| User { script: json!({"verification": true, "outcome": {"ok": [true, true]}, "pending": pending}), log: log.clone() };
        let mut cx = Context::from_waker(Waker::noop());
        let counters: Vec<Option<u32>>;
        let stored: Option<u32>;
        // the schedule: names of the ceremonies to poll, in order; each entry polls that ceremony until it suspends in user
        // validation (if it still has a pending consent) or finishes. Default: A (suspends), B, A.
        let order: Vec<String> = sc["order"].as_array().map(|a| a.iter().filter_map(|x| x.as_str().map(String::from)).collect())
            .unwrap_or_else(|| if sc["sequential"].as_bool().unwrap_or(false) { vec!["A".into(), "A".into(), "B".into()] } else { vec!["A".into(), "B".into(), "A".into()] });
        let names: Vec<String> = { let mut n: Vec<String> = Vec::new(); for o in &order { if !n.contains(o) { n.push(o.clone()); } } n.sort(); n };
        let pending_of = |n: &str| -> u64 { sc["pending"].get(n).and_then(|v| v.as_u64()).unwrap_or(if n == "A" && !sc["sequential"].as_bool().unwrap_or(false) { 1 } else { 0 }) };
        macro_rules! run_many {
            ($shared:expr, $read:expr) => {{
                let shared = $shared;
                let mut auths: Vec<_> = names.iter().map(|n| Authenticator::new(Aaguid::new_empty(), shared.clone(), user(pending_of(n)))).collect();
                let mut results: Vec<Option<Result<get_assertion::Response, StatusCode>>> = names.iter().map(|_| None).collect();
                {
                    let mut futs: Vec<_> = auths.iter_mut().map(|a| Box::pin(Authenticator::get_assertion(a, mk_req()))).collect();
                    let mut suspended_once: Vec<bool> = names.iter().map(|_| false).collect();
                    for o in &order {
                        let k = names.iter().position(|n| n == o).unwrap();
                        if results[k].is_some() { continue; }
                        // one visit: poll until the first Pending that belongs to the consent step (at most once per ceremony), else to completion
                        for _ in 0..200 {
                            match futs[k].as_mut().poll(&mut cx) {
                                Poll::Ready(r) => { results[k] = Some(r); break; }
                                Poll::Pending => {
                                    if pending_of(o) > 0 && !suspended_once[k] { suspended_once[k] = true; break; }
                                }
                            }
                        }
                    }
                    // whatever is still unfinished gets a last chance (a ceremony that never finishes is a deadlock)
                    for k in 0..names.len() {
                        if results[k].is_none() {
                            for _ in 0..200 { if let Poll::Ready(r) = futs[k].as_mut().poll(&mut cx) { results[k] = Some(r); break; } }
                        }
                    }
                }
                let c: Vec<Option<u32>> = results.into_iter().map(|r| r.and_then(|x| x.ok()).and_then(|x| x.auth_data.counter)).collect();
                (c, $read(&shared))
            }};
        }
        if sc["lock"] == "rwlock" {
            let (c, s) = run_many!(Arc::new(tokio::sync::RwLock::new(store)), |sh: &Arc<tokio::sync::RwLock<Store>>| sh.try_read().ok().and_then(|g| g.held[0].counter));
            counters = c; stored = s;
        } else {
            let (c, s) = run_many!(Arc::new(tokio::sync::Mutex::new(store)), |sh: &Arc<tokio::sync::Mutex<Store>>| sh.try_lock().ok().and_then(|g| g.held[0].counter));
            counters = c; stored = s;
        }
        println!("E2REPLAY {}", json!({"result": {"counters": counters, "stored": stored, "start": start}, "log": *log.lock().unwrap()}));
        return;
    }
    if sc["op"] == "wrapper_ops" {
        // every CredentialStore method once through Arc<Mutex<MemoryStore>> / Arc<RwLock<MemoryStore>>, compared with
        // what the wrapped store then holds; a call still pending after 1000 polls counts as a deadlock
        use passkey_authenticator::{CredentialStore, DiscoverabilitySupport, MemoryStore};
        let mut p0 = Passkey::mock(rp.clone()).counter(5).build();
        p0.credential_id = vec![1u8; 16].into();
        let mut p1 = Passkey::mock(rp.clone()).counter(0).build();
        p1.credential_id = vec![2u8; 16].into();
        let mut cx = Context::from_waker(Waker::noop());
        macro_rules! drive {
            ($fut:expr, $dead:expr, $name:expr) => {{
                let mut f = Box::pin($fut);
                let mut out = None;
                for _ in 0..1000 { if let Poll::Ready(r) = f.as_mut().poll(&mut cx) { out = Some(r); break; } }
                if out.is_none() { $dead.push($name.to_string()); }
                out
            }};
        }
        macro_rules! run_ops {
            ($shared:expr, $peek:expr) => {{
                let mut w = $shared;
                let mut dead: Vec<String> = Vec::new();
                let user = make_credential::PublicKeyCredentialUserEntity { id: vec![9u8; 8].into(), display_name: Some("d".into()), name: Some("n".into()), icon_url: None };
                let rpe = make_credential::PublicKeyCredentialRpEntity { id: rp.clone(), name: None };
                let saved_ok = drive!(w.save_credential(p1.clone(), user, rpe, make_credential::Options { rk: sc["rk"].as_bool().unwrap_or(true), up: sc["up"].as_bool().unwrap_or(true), uv: sc["uv"].as_bool().unwrap_or(false) }), dead, "save_credential").map(|r| r.is_ok());
                let saved = $peek(&w, &p1.credential_id).is_some();
                let mut p0b = p0.clone();
                p0b.counter = Some(9);
                let upd_ok = drive!(w.update_credential(p0b), dead, "update_credential").map(|r| r.is_ok());
                let updated = $peek(&w, &p0.credential_id).and_then(|p| p.counter) == Some(9);
                // the same and a lower counter once more: whatever the store then holds, the call has to come back
                for c in [9u32, 3, 10] {
                    let mut again = p0.clone();
                    again.counter = Some(c);
                    let _ = drive!(w.update_credential(again), dead, "update_credential");
                }
                let ids = [descriptor(&p0.credential_id)];
                let found = drive!(w.find_credentials(Some(&ids), &rp), dead, "find_credentials").map(|r| r.map(|v| v.len()).map_err(|e| format!("{:?}", e)));
                let info = drive!(w.get_info(), dead, "get_info").map(|i| match i.discoverability {
                    DiscoverabilitySupport::Full => "full",
                    DiscoverabilitySupport::ForcedDiscoverable => "forced",
                    DiscoverabilitySupport::OnlyNonDiscoverable => "non-discoverable",
                });
                json!({"save_ok": saved_ok, "saved": saved, "update_ok": upd_ok, "updated": updated, "found": found.map(|r| r.ok()), "info": info, "deadlock": dead})
            }};
        }
        // the shipped MemoryStore, reporting the capability the scenario names (a wrapper may branch on get_info)
        struct CapStore { inner: MemoryStore, cap: String }
        #[async_trait::async_trait]
        impl CredentialStore for CapStore {
            type PasskeyItem = Passkey;
            async fn find_credentials(&self, ids: Option<&[webauthn::PublicKeyCredentialDescriptor]>, rp_id: &str) -> Result<Vec<Passkey>, StatusCode> {
                self.inner.find_credentials(ids, rp_id).await
            }
            async fn save_credential(&mut self, cred: Passkey, user: make_credential::PublicKeyCredentialUserEntity, rp: make_credential::PublicKeyCredentialRpEntity,
                                     options: get_assertion::Options) -> Result<(), StatusCode> {
                self.inner.save_credential(cred, user, rp, options).await
            }
            async fn update_credential(&mut self, cred: Passkey) -> Result<(), StatusCode> { self.inner.update_credential(cred).await }
            async fn get_info(&self) -> StoreInfo {
                StoreInfo { discoverability: match self.cap.as_str() {
                    "full" => DiscoverabilitySupport::Full,
                    "non_discoverable" => DiscoverabilitySupport::OnlyNonDiscoverable,
                    _ => DiscoverabilitySupport::ForcedDiscoverable,
                } }
            }
        }
        let mut mem = MemoryStore::new();
        mem.insert(p0.credential_id.clone().into(), p0.clone());
        let inner = CapStore { inner: mem, cap: sc["capability"].as_str().unwrap_or("forced").to_string() };
        let res = if sc["lock"] == "rwlock" {
            run_ops!(Arc::new(tokio::sync::RwLock::new(inner)), |w: &Arc<tokio::sync::RwLock<CapStore>>, id: &passkey_types::Bytes| w.try_read().ok().and_then(|g| g.inner.get(id.as_slice()).cloned()))
        } else {
            run_ops!(Arc::new(tokio::sync::Mutex::new(inner)), |w: &Arc<tokio::sync::Mutex<CapStore>>, id: &passkey_types::Bytes| w.try_lock().ok().and_then(|g| g.inner.get(id.as_slice()).cloned()))
        };
        println!("E2REPLAY {}", json!({"result": res, "log": []}));
        return;
    }
    if sc["op"] == "leak_scan" {
        // real ceremonies with real keys (authenticator level, U2F, and through the WebAuthn client), then every value
        // handed back is rendered (Debug, CBOR, JSON) and searched for the private scalar and the PRF secrets in
        // raw, hex, decimal-list, base64 and base64url form
        use passkey_authenticator::MemoryStore;
        let b64 = |data: &[u8], url: bool| -> String {
            let abc: &[u8] = if url { b"ABCDEFGHIJKLMNOPQRSTUVWXYZabcdefghijklmnopqrstuvwxyz0123456789-_" } else { b"ABCDEFGHIJKLMNOPQRSTUVWXYZabcdefghijklmnopqrstuvwxyz0123456789+/" };
            let mut out = String::new();
            let mut acc = 0u32;
            let mut bits = 0;
            for &b in data { acc = (acc << 8) | b as u32; bits += 8; while bits >= 6 { bits -= 6; out.push(abc[((acc >> bits) & 63) as usize] as char); } }
            if bits > 0 { out.push(abc[((acc << (6 - bits)) & 63) as usize] as char); }
            out
        };
        let forms = |secret: &[u8]| -> Vec<(String, Vec<u8>)> {
            let mut v: Vec<(String, Vec<u8>)> = vec![("raw".into(), secret.to_vec())];
            v.push(("hex".into(), secret.iter().map(|b| format!("{:02x}", b)).collect::<String>().into_bytes()));
            v.push(("HEX".into(), secret.iter().map(|b| format!("{:02X}", b)).collect::<String>().into_bytes()));
            v.push(("decimal-list".into(), secret.iter().map(|b| b.to_string()).collect::<Vec<_>>().join(", ").into_bytes()));
            v.push(("decimal-list-compact".into(), secret.iter().map(|b| b.to_string()).collect::<Vec<_>>().join(",").into_bytes()));
            for url in [false, true] {
                for off in 0..3usize {
                    // the characters of the encoding that depend on the secret's bits only, for each alignment
                    let mut padded = vec![0u8; off];
                    padded.extend_from_slice(secret);
                    let enc = b64(&padded, url);
                    let start = (off * 8 + 5) / 6;
                    let end = ((off + secret.len()) * 8) / 6;
                    v.push((format!("{}@{}", if url { "base64url" } else { "base64" }, off), enc.as_bytes()[start..end].to_vec()));
                }
            }
            v
        };
        let contains = |hay: &[u8], needle: &[u8]| needle.len() <= hay.len() && hay.windows(needle.len()).any(|w| w == needle);
        fn cbor<T: serde::Serialize>(v: &T) -> Vec<u8> { let mut b = Vec::new(); let _ = ciborium::ser::into_writer(v, &mut b); b }
        let mut renderings: Vec<(String, Vec<u8>)> = Vec::new();
        let mut secrets: Vec<(String, Vec<u8>)> = Vec::new();
        let mut polls = 0u64;
        let user = || User { script: json!({"verification": true, "outcome": {"ok": [true, true]}}), log: log.clone() };
        let harvest = |pk: &Passkey, tag: &str, secrets: &mut Vec<(String, Vec<u8>)>| {
            for (l, v) in &pk.key.params {
                if *l == coset::Label::Int(-4) { if let Some(d) = v.as_bytes() { secrets.push((format!("{}.private-scalar", tag), d.clone())); } }
            }
            if let Some(h) = pk.extensions.hmac_secret.as_ref() {
                secrets.push((format!("{}.prf-secret-uv", tag), h.cred_with_uv.clone()));
                if let Some(w) = h.cred_without_uv.as_ref() { secrets.push((format!("{}.prf-secret-no-uv", tag), w.clone())); }
            }
        };
        // --- authenticator level
        {
            let mut auth = Authenticator::new(Aaguid::new_empty(), MemoryStore::new(), user())
                .hmac_secret(HmacSecretConfig::new_without_uv().enable_on_make_credential());
            auth.set_make_credentials_with_signature_counter(true);
            let prf = || passkey_types::ctap2::extensions::AuthenticatorPrfInputs {
                eval: Some(passkey_types::ctap2::extensions::AuthenticatorPrfValues { first: [3u8; 32], second: Some([4u8; 32]) }),
                eval_by_credential: None,
            };
            let mc = make_credential::Request {
                client_data_hash: vec![7u8; 32].into(),
                rp: make_credential::PublicKeyCredentialRpEntity { id: rp.clone(), name: None },
                user: webauthn::PublicKeyCredentialUserEntity { id: vec![9u8; 8].into(), display_name: "d".into(), name: "n".into() },
                pub_key_cred_params: webauthn::PublicKeyCredentialParameters::default_algorithms(),
                exclude_list: None,
                extensions: Some(make_credential::ExtensionInputs { hmac_secret: Some(true), hmac_secret_mc: None, prf: Some(prf()) }),
                options: make_credential::Options { rk: true, up: true, uv: true },
                pin_auth: None,
                pin_protocol: None,
            };
            let r = block_on(Authenticator::make_credential(&mut auth, mc), 1000, &mut polls);
            if let Some(Ok(resp)) = &r {
                renderings.push(("ctap2.make_credential.debug".into(), format!("{:?}", resp).into_bytes()));
                renderings.push(("ctap2.make_credential.debug-pretty".into(), format!("{:#?}", resp).into_bytes()));
                renderings.push(("ctap2.make_credential.cbor".into(), cbor(resp)));
                renderings.push(("ctap2.make_credential.auth_data".into(), resp.auth_data.to_vec()));
            } else if let Some(Err(e)) = &r { renderings.push(("ctap2.make_credential.error".into(), format!("{:?}", e).into_bytes())); }
            let stored: Vec<Passkey> = auth.store().values().cloned().collect();
            for pk in &stored {
                harvest(pk, "ctap2", &mut secrets);
                renderings.push(("passkey.debug".into(), format!("{:?}", pk).into_bytes()));
                renderings.push(("passkey.debug-pretty".into(), format!("{:#?}", pk).into_bytes()));
            }
            for uv in [true, false] {
                let ga = get_assertion::Request {
                    rp_id: rp.clone(),
                    client_data_hash: vec![7u8; 32].into(),
                    allow_list: None,
                    extensions: Some(get_assertion::ExtensionInputs { hmac_secret: None, prf: Some(prf()) }),
                    options: make_credential::Options { rk: false, up: true, uv },
                    pin_auth: None,
                    pin_protocol: None,
                };
                let r = block_on(Authenticator::get_assertion(&mut auth, ga), 1000, &mut polls);
                if let Some(Ok(resp)) = &r {
                    renderings.push((format!("ctap2.get_assertion.uv={}.debug", uv), format!("{:?}", resp).into_bytes()));
                    renderings.push((format!("ctap2.get_assertion.uv={}.debug-pretty", uv), format!("{:#?}", resp).into_bytes()));
                    renderings.push((format!("ctap2.get_assertion.uv={}.cbor", uv), cbor(resp)));
                } else if let Some(Err(e)) = &r { renderings.push(("ctap2.get_assertion.error".into(), format!("{:?}", e).into_bytes())); }
            }
            // a failing request, for the error value
            let ga = get_assertion::Request {
                rp_id: rp.clone(), client_data_hash: vec![7u8; 32].into(), allow_list: None, extensions: None,
                options: make_credential::Options { rk: true, up: true, uv: true }, pin_auth: None, pin_protocol: None,
            };
            if let Some(Err(e)) = block_on(Authenticator::get_assertion(&mut auth, ga), 1000, &mut polls) {
                renderings.push(("ctap2.get_assertion.error".into(), format!("{:?}", e).into_bytes()));
            }
            let info = block_on(Authenticator::get_info(&auth), 1000, &mut polls);
            if let Some(i) = &info {
                renderings.push(("ctap2.get_info.debug".into(), format!("{:?}", i).into_bytes()));
                renderings.push(("ctap2.get_info.cbor".into(), cbor(i)));
            }
        }
        // --- U2F
        {
            let mut auth = Authenticator::new(Aaguid::new_empty(), MemoryStore::new(), user());
            let req = passkey_types::u2f::RegisterRequest { challenge: [5u8; 32], application: [6u8; 32] };
            if let Some(Ok(resp)) = block_on(U2fApi::register(&mut auth, req, &[1u8; 16]), 1000, &mut polls) {
                renderings.push(("u2f.register.encoded".into(), resp.encode()));
            }
            let stored: Vec<Passkey> = auth.store().values().cloned().collect();
            for pk in &stored { harvest(pk, "u2f", &mut secrets); }
            let req = passkey_types::u2f::AuthenticationRequest {
                parameter: passkey_types::u2f::AuthenticationParameter::EnforceUserPresence,
                challenge: [5u8; 32], application: [6u8; 32], key_handle: vec![1u8; 16],
            };
            if let Some(Ok(resp)) = block_on(U2fApi::authenticate(&auth, req, 1, Flags::UP), 1000, &mut polls) {
                renderings.push(("u2f.authenticate.encoded".into(), resp.encode()));
            }
        }
        // --- WebAuthn client
        {
            let auth = Authenticator::new(Aaguid::new_empty(), MemoryStore::new(), user())
                .hmac_secret(HmacSecretConfig::new_without_uv().enable_on_make_credential());
            let mut client = passkey_client::Client::new(auth);
            let origin = url::Url::parse(&format!("https://{}", rp)).unwrap();
            let prf = || webauthn::AuthenticationExtensionsPrfInputs {
                eval: Some(webauthn::AuthenticationExtensionsPrfValues { first: vec![3u8; 8].into(), second: Some(vec![4u8; 8].into()) }),
                eval_by_credential: None,
            };
            let options = webauthn::CredentialCreationOptions { public_key: webauthn::PublicKeyCredentialCreationOptions {
                rp: webauthn::PublicKeyCredentialRpEntity { id: Some(rp.clone()), name: rp.clone() },
                user: webauthn::PublicKeyCredentialUserEntity { id: vec![9u8; 8].into(), display_name: "d".into(), name: "n".into() },
                challenge: vec![8u8; 32].into(),
                pub_key_cred_params: webauthn::PublicKeyCredentialParameters::default_algorithms(),
                timeout: None,
                exclude_credentials: Default::default(),
                authenticator_selection: Default::default(),
                hints: None,
                attestation: Default::default(),
                attestation_formats: Default::default(),
                extensions: Some(webauthn::AuthenticationExtensionsClientInputs { prf: Some(prf()), ..Default::default() }),
            }};
            let r = block_on(client.register(&origin, options, passkey_client::DefaultClientData), 1000, &mut polls);
            let mut cred_id = None;
            match &r {
                Some(Ok(cred)) => {
                    cred_id = Some(cred.raw_id.clone());
                    renderings.push(("webauthn.register.debug".into(), format!("{:?}", cred).into_bytes()));
                    renderings.push(("webauthn.register.json".into(), serde_json::to_vec(cred).unwrap_or_default()));
                }
                Some(Err(e)) => renderings.push(("webauthn.register.error".into(), format!("{:?}", e).into_bytes())),
                None => {}
            }
            let stored: Vec<Passkey> = client.authenticator().store().values().cloned().collect();
            for pk in &stored { harvest(pk, "webauthn", &mut secrets); }
            if let Some(id) = cred_id {
                let options = webauthn::CredentialRequestOptions { public_key: webauthn::PublicKeyCredentialRequestOptions {
                    challenge: vec![8u8; 32].into(),
                    timeout: None,
                    rp_id: Some(rp.clone()),
                    allow_credentials: Some(vec![webauthn::PublicKeyCredentialDescriptor { ty: webauthn::PublicKeyCredentialType::PublicKey, id, transports: None }]),
                    user_verification: Default::default(),
                    hints: None,
                    attestation: Default::default(),
                    attestation_formats: Default::default(),
                    extensions: Some(webauthn::AuthenticationExtensionsClientInputs { prf: Some(prf()), ..Default::default() }),
                }};
                match block_on(client.authenticate(&origin, options, passkey_client::DefaultClientData), 1000, &mut polls) {
                    Some(Ok(cred)) => {
                        renderings.push(("webauthn.authenticate.debug".into(), format!("{:?}", cred).into_bytes()));
                        renderings.push(("webauthn.authenticate.json".into(), serde_json::to_vec(&cred).unwrap_or_default()));
                    }
                    Some(Err(e)) => renderings.push(("webauthn.authenticate.error".into(), format!("{:?}", e).into_bytes())),
                    None => {}
                }
            }
        }
        let mut leaks: Vec<String> = Vec::new();
        for (sname, secret) in &secrets {
            if secret.len() < 16 { continue; }
            for (fname, pat) in forms(secret) {
                for (rname, r) in &renderings {
                    if contains(r, &pat) { leaks.push(format!("{} as {} in {}", sname, fname, rname)); }
                }
            }
        }
        // the scanner itself: a known secret embedded at every alignment inside larger encoded blobs must be found
        let probe: Vec<u8> = (0u8..32).map(|i| i.wrapping_mul(37).wrapping_add(11)).collect();
        let mut selftest = true;
        for off in 0..3usize {
            let mut blob = vec![0xAAu8; off + 3];
            blob.extend_from_slice(&probe);
            blob.extend_from_slice(&[0x55u8; 5]);
            for url in [false, true] {
                let hay = b64(&blob, url).into_bytes();
                selftest &= forms(&probe).iter().any(|(n, pat)| n.starts_with(if url { "base64url" } else { "base64@" }) && contains(&hay, pat));
            }
            let hay = format!("{:?}", blob).into_bytes();
            selftest &= forms(&probe).iter().any(|(n, pat)| n == "decimal-list" && contains(&hay, pat));
        }
        let names: Vec<&String> = renderings.iter().map(|(n, _)| n).collect();
        println!("E2REPLAY {}", json!({"result": {"leaks": leaks, "scanner_selftest": selftest, "renderings": names, "secrets": secrets.iter().map(|(n, s)| json!([n, s.len()])).collect::<Vec<_>>()}, "log": []}));
        return;
    }
    if sc["op"] == "client_ceremony" {
        // registration then authentication through the real WebAuthn client and authenticator; every returned value is
        // checked the way a relying party would (client data JSON, rpIdHash, attestation object, key forms, signature)
        use p256::ecdsa::signature::Verifier;
        use passkey_authenticator::MemoryStore;
        use sha2::{Digest, Sha256};
        let origin_s = sc["origin"].as_str().unwrap_or("https://future.1password.com").to_string();
        let rp_opt: Option<String> = sc["rp_id"].as_str().map(String::from);
        let effective_rp = rp_opt.clone().unwrap_or_else(|| url::Url::parse(&origin_s).ok().and_then(|u| u.domain().map(String::from)).unwrap_or_default());
        let custom_hash: Option<Vec<u8>> = sc["custom_hash"].as_bool().unwrap_or(false).then(|| vec![0x5au8; sc["custom_hash_len"].as_u64().unwrap_or(32) as usize]);
        let uv_req = match sc["user_verification"].as_str() {
            Some("discouraged") => webauthn::UserVerificationRequirement::Discouraged,
            Some("required") => webauthn::UserVerificationRequirement::Required,
            _ => webauthn::UserVerificationRequirement::Preferred,
        };
        let mut polls = 0u64;
        let user = User { script: json!({"verification": true, "outcome": {"ok": [true, sc["uv_outcome"].as_bool().unwrap_or(true)]}}), log: log.clone() };
        let mut auth = Authenticator::new(Aaguid::new_empty(), MemoryStore::new(), user);
        if sc["counter"].as_bool().unwrap_or(true) { auth.set_make_credentials_with_signature_counter(true); }
        let mut client = passkey_client::Client::new(auth);
        let origin = match url::Url::parse(&origin_s) { Ok(u) => u, Err(_) => { println!("E2REPLAY {}", json!({"result": "bad origin", "log": []})); return; } };
        let challenge: Vec<u8> = (0u8..32).map(|i| i.wrapping_mul(7).wrapping_add(0xF0)).collect();   // contains bytes that differ between base64 and base64url
        let b64url = |d: &[u8]| passkey_types::encoding::base64url(d);
        let params = match sc["params"].as_str() {
            Some("empty") => vec![],
            Some("rs256_first") => vec![
                webauthn::PublicKeyCredentialParameters { ty: webauthn::PublicKeyCredentialType::PublicKey, alg: coset::iana::Algorithm::RS256 },
                webauthn::PublicKeyCredentialParameters { ty: webauthn::PublicKeyCredentialType::PublicKey, alg: coset::iana::Algorithm::ES256 },
            ],
            Some("unknown_type_only") => vec![
                webauthn::PublicKeyCredentialParameters { ty: webauthn::PublicKeyCredentialType::Unknown, alg: coset::iana::Algorithm::RS256 },
            ],
            Some("unknown_type_es256") => vec![
                webauthn::PublicKeyCredentialParameters { ty: webauthn::PublicKeyCredentialType::Unknown, alg: coset::iana::Algorithm::ES256 },
                webauthn::PublicKeyCredentialParameters { ty: webauthn::PublicKeyCredentialType::PublicKey, alg: coset::iana::Algorithm::RS256 },
            ],
            Some("rs256_only") => vec![
                webauthn::PublicKeyCredentialParameters { ty: webauthn::PublicKeyCredentialType::PublicKey, alg: coset::iana::Algorithm::RS256 },
            ],
            _ => webauthn::PublicKeyCredentialParameters::default_algorithms(),
        };
        let listed_algs: Vec<i64> = params.iter().map(|p| p.alg as i64).collect();
        let user_id: Vec<u8> = vec![9u8; 8];
        let options = webauthn::CredentialCreationOptions { public_key: webauthn::PublicKeyCredentialCreationOptions {
            rp: webauthn::PublicKeyCredentialRpEntity { id: rp_opt.clone(), name: "rp".into() },
            user: webauthn::PublicKeyCredentialUserEntity { id: user_id.clone().into(), display_name: "d".into(), name: "n".into() },
            challenge: challenge.clone().into(),
            pub_key_cred_params: params,
            timeout: None,
            exclude_credentials: Default::default(),
            authenticator_selection: Some(webauthn::AuthenticatorSelectionCriteria {
                authenticator_attachment: None,
                resident_key: Some(webauthn::ResidentKeyRequirement::Required),
                require_resident_key: true,
                user_verification: uv_req,
            }),
            hints: None,
            attestation: Default::default(),
            attestation_formats: Default::default(),
            extensions: None,
        }};
        let check_client_data = |json_bytes: &[u8], want_ty: &str, hash_used: &Option<Vec<u8>>| -> Value {
            let v: Value = serde_json::from_slice(json_bytes).unwrap_or(Value::Null);
            let keys: Vec<String> = v.as_object().map(|o| o.keys().cloned().collect()).unwrap_or_default();
            let text = String::from_utf8_lossy(json_bytes).to_string();
            let pos = |k: &str| text.find(&format!("\"{}\"", k));
            json!({
                "type_ok": v["type"] == want_ty,
                "challenge_ok": v["challenge"] == b64url(&challenge),
                "origin_ok": v["origin"] == origin_s.trim_end_matches('/'),
                "order_ok": matches!((pos("type"), pos("challenge"), pos("origin")), (Some(a), Some(b), Some(c)) if a < b && b < c),
                "keys": keys,
                "custom_hash": hash_used.is_some(),
            })
        };
        let reg = match custom_hash.clone() {
            Some(h) => block_on(client.register(&origin, options, passkey_client::DefaultClientDataWithCustomHash(h)), 1000, &mut polls),
            None => block_on(client.register(&origin, options, passkey_client::DefaultClientData), 1000, &mut polls),
        };
        let cred = match reg {
            Some(Ok(c)) => c,
            Some(Err(e)) => { println!("E2REPLAY {}", json!({"result": {"register_err": format!("{:?}", e)}, "log": *log.lock().unwrap()})); return; }
            None => { println!("E2REPLAY {}", json!({"result": "cancelled", "log": []})); return; }
        };
        let stored: Vec<Passkey> = client.authenticator().store().values().cloned().collect();
        let rp_hash: [u8; 32] = Sha256::digest(effective_rp.as_bytes()).into();
        let ad_bytes: Vec<u8> = cred.response.authenticator_data.to_vec();
        let ad = passkey_types::ctap2::AuthenticatorData::from_slice(&ad_bytes).ok();
        let att: Option<ciborium::value::Value> = ciborium::de::from_reader(cred.response.attestation_object.as_slice()).ok();
        let mut att_auth_data: Option<Vec<u8>> = None;
        let mut att_fmt: Option<String> = None;
        let mut att_keys = 0usize;
        if let Some(ciborium::value::Value::Map(m)) = &att {
            att_keys = m.len();
            for (k, v) in m {
                if k.as_text() == Some("authData") { att_auth_data = v.as_bytes().cloned(); }
                if k.as_text() == Some("fmt") { att_fmt = v.as_text().map(String::from); }
            }
        }
        let acd = ad.as_ref().and_then(|a| a.attested_credential_data.as_ref());
        let (mut x, mut y) = (None, None);
        if let Some(acd) = acd {
            for (l, v) in &acd.key.params {
                if *l == coset::Label::Int(-2) { x = v.as_bytes().cloned(); }
                if *l == coset::Label::Int(-3) { y = v.as_bytes().cloned(); }
            }
        }
        let vk = match (&x, &y) {
            (Some(x), Some(y)) if x.len() == 32 && y.len() == 32 =>
                p256::ecdsa::VerifyingKey::from_encoded_point(&p256::EncodedPoint::from_affine_coordinates(x.as_slice().into(), y.as_slice().into(), false)).ok(),
            _ => None,
        };
        let der_vk = cred.response.public_key.as_ref().and_then(|d| {
            use p256::pkcs8::DecodePublicKey;
            p256::PublicKey::from_public_key_der(d.as_slice()).ok().map(p256::ecdsa::VerifyingKey::from)
        });
        let cose_alg = acd.and_then(|a| a.key.alg.clone());
        let reg_out = json!({
            "client_data": check_client_data(cred.response.client_data_json.as_slice(), "webauthn.create", &custom_hash),
            "id_is_b64url_of_raw_id": cred.id == b64url(cred.raw_id.as_slice()),
            "rp_hash_ok": ad.as_ref().map(|a| a.rp_id_hash() == &rp_hash[..]),
            "att_obj_auth_data_identical": att_auth_data.as_deref() == Some(&ad_bytes[..]),
            "att_obj_fmt_none": att_fmt.as_deref() == Some("none"),
            "att_obj_members": att_keys,
            "attested_id_is_raw_id": acd.map(|a| a.credential_id() == cred.raw_id.as_slice()),
            "stored_id_is_raw_id": stored.first().map(|p| p.credential_id.as_slice() == cred.raw_id.as_slice()),
            "stored_rp_is_effective_rp": stored.first().map(|p| p.rp_id == effective_rp),
            "cose_point_valid": vk.is_some(),
            "der_equals_cose": match (&vk, &der_vk) { (Some(a), Some(b)) => Some(a == b), _ => None },
            "alg_reported": cred.response.public_key_algorithm,
            "alg_consistent": cose_alg.as_ref().map(|a| matches!(a, coset::RegisteredLabelWithPrivate::Assigned(x) if (*x as i64) == cred.response.public_key_algorithm)),
            "alg_is_es256": cred.response.public_key_algorithm == -7,
            "alg_was_listed": listed_algs.is_empty() || listed_algs.contains(&cred.response.public_key_algorithm),
            "flags": ad.as_ref().map(|a| u8::from(a.flags)),
            "counter_zero": ad.as_ref().map(|a| a.counter == Some(0)),
        });
        // --- authentication with that credential
        let options = webauthn::CredentialRequestOptions { public_key: webauthn::PublicKeyCredentialRequestOptions {
            challenge: challenge.clone().into(),
            timeout: None,
            rp_id: rp_opt.clone(),
            allow_credentials: sc["allow_list"].as_bool().unwrap_or(true).then(|| vec![webauthn::PublicKeyCredentialDescriptor {
                ty: webauthn::PublicKeyCredentialType::PublicKey, id: cred.raw_id.clone(), transports: None }]),
            user_verification: uv_req,
            hints: None,
            attestation: Default::default(),
            attestation_formats: Default::default(),
            extensions: None,
        }};
        let res = match custom_hash.clone() {
            Some(h) => block_on(client.authenticate(&origin, options, passkey_client::DefaultClientDataWithCustomHash(h)), 1000, &mut polls),
            None => block_on(client.authenticate(&origin, options, passkey_client::DefaultClientData), 1000, &mut polls),
        };
        let auth_out = match res {
            Some(Ok(a)) => {
                let adb: Vec<u8> = a.response.authenticator_data.to_vec();
                let ad2 = passkey_types::ctap2::AuthenticatorData::from_slice(&adb).ok();
                let mut msg = adb.clone();
                match &custom_hash {
                    Some(h) => msg.extend_from_slice(h),
                    None => msg.extend_from_slice(&Sha256::digest(a.response.client_data_json.as_slice())),
                }
                let sig = p256::ecdsa::Signature::from_der(a.response.signature.as_slice()).ok();
                json!({
                    "client_data": check_client_data(a.response.client_data_json.as_slice(), "webauthn.get", &custom_hash),
                    "id_is_b64url_of_raw_id": a.id == b64url(a.raw_id.as_slice()),
                    "raw_id_is_registered_id": a.raw_id.as_slice() == cred.raw_id.as_slice(),
                    "rp_hash_ok": ad2.as_ref().map(|x| x.rp_id_hash() == &rp_hash[..]),
                    "no_attested_data": ad2.as_ref().map(|x| x.attested_credential_data.is_none()),
                    "signature_verifies": match (&vk, &sig) { (Some(k), Some(s)) => Some(k.verify(&msg, s).is_ok()), _ => None },
                    "user_handle_is_user_id": a.response.user_handle.as_ref().map(|h| h.as_slice() == &user_id[..]),
                    "counter": ad2.as_ref().map(|x| x.counter),
                    "flags": ad2.as_ref().map(|x| u8::from(x.flags)),
                })
            }
            Some(Err(e)) => json!({"authenticate_err": format!("{:?}", e)}),
            None => json!("cancelled"),
        };
        println!("E2REPLAY {}", json!({"result": {"register": reg_out, "authenticate": auth_out, "effective_rp": effective_rp}, "log": *log.lock().unwrap()}));
        return;
    }
    if sc["op"] == "cbor_minimal" {
        // each integer-keyed message from a map holding only its required members: decodes, with the specified defaults;
        // and with any one required member removed: an error
        use ciborium::value::Value as V;
        let int = |i: i64| V::Integer(i.into());
        let txt = |s: &str| V::Text(s.to_string());
        let ga = vec![(int(1), txt("example.com")), (int(2), V::Bytes(vec![7u8; 32]))];
        let mc = vec![
            (int(1), V::Bytes(vec![7u8; 32])),
            (int(2), V::Map(vec![(txt("id"), txt("example.com")), (txt("name"), txt("n"))])),
            (int(3), V::Map(vec![(txt("id"), V::Bytes(vec![9u8; 8])), (txt("name"), txt("n")), (txt("displayName"), txt("d"))])),
            (int(4), V::Array(vec![V::Map(vec![(txt("alg"), int(-7)), (txt("type"), txt("public-key"))])])),
        ];
        let info = vec![(int(1), V::Array(vec![txt("FIDO_2_0")])), (int(3), V::Bytes(vec![0u8; 16]))];
        let cose = V::Map(vec![(int(1), int(2)), (int(3), int(-25)), (int(-1), int(1)), (int(-2), V::Bytes(vec![1u8; 32])), (int(-3), V::Bytes(vec![2u8; 32]))]);
        let hm = vec![(int(1), cose), (int(2), V::Bytes(vec![3u8; 32])), (int(3), V::Bytes(vec![4u8; 16]))];
        fn enc(m: &[(V, V)]) -> Vec<u8> { let mut b = Vec::new(); ciborium::ser::into_writer(&V::Map(m.to_vec()), &mut b).unwrap(); b }
        fn probe<T: serde::de::DeserializeOwned>(name: &str, full: &[(V, V)], out: &mut Vec<Value>, describe: impl Fn(&T) -> Value) {
            let whole: Result<T, _> = ciborium::de::from_reader(enc(full).as_slice());
            let mut missing_accepted = Vec::new();
            for i in 0..full.len() {
                let mut m = full.to_vec();
                let (k, _) = m.remove(i);
                if ciborium::de::from_reader::<T, _>(enc(&m).as_slice()).is_ok() { missing_accepted.push(format!("{:?}", k)); }
            }
            out.push(json!({"message": name, "minimal_decodes": whole.is_ok(), "defaults": whole.as_ref().ok().map(&describe), "missing_required_accepted": missing_accepted,
                            "error": whole.err().map(|e| e.to_string())}));
        }
        let mut out = Vec::new();
        probe::<get_assertion::Request>("get_assertion::Request", &ga, &mut out, |r| json!({"up": r.options.up, "rk": r.options.rk, "uv": r.options.uv,
            "allow_list": r.allow_list.is_some(), "extensions": r.extensions.is_some(), "pin_auth": r.pin_auth.is_some(), "pin_protocol": r.pin_protocol.is_some()}));
        probe::<make_credential::Request>("make_credential::Request", &mc, &mut out, |r| json!({"up": r.options.up, "rk": r.options.rk, "uv": r.options.uv,
            "exclude_list": r.exclude_list.is_some(), "extensions": r.extensions.is_some(), "pin_auth": r.pin_auth.is_some(), "pin_protocol": r.pin_protocol.is_some()}));
        probe::<passkey_types::ctap2::get_info::Response>("get_info::Response", &info, &mut out, |r| json!({"extensions": r.extensions.is_some(), "options": r.options.is_some(),
            "max_msg_size": r.max_msg_size.is_some(), "pin_protocols": r.pin_protocols.is_some(), "transports": r.transports.is_some()}));
        probe::<passkey_types::ctap2::extensions::HmacGetSecretInput>("HmacGetSecretInput", &hm, &mut out, |r| json!({"pin_uv_auth_protocol": r.pin_uv_auth_protocol.is_some()}));
        println!("E2REPLAY {}", json!({"result": {"messages": out}, "log": []}));
        return;
    }
    if sc["op"] == "base64_lenient" {
        // byte strings of length 0..=7 in four textual presentations through the lenient `Bytes` parser, and the encoders
        let enc = |data: &[u8], url: bool, pad: bool| -> String {
            let abc: &[u8] = if url { b"ABCDEFGHIJKLMNOPQRSTUVWXYZabcdefghijklmnopqrstuvwxyz0123456789-_" } else { b"ABCDEFGHIJKLMNOPQRSTUVWXYZabcdefghijklmnopqrstuvwxyz0123456789+/" };
            let mut out = String::new();
            let (mut acc, mut bits) = (0u32, 0);
            for &b in data { acc = (acc << 8) | b as u32; bits += 8; while bits >= 6 { bits -= 6; out.push(abc[((acc >> bits) & 63) as usize] as char); } }
            if bits > 0 { out.push(abc[((acc << (6 - bits)) & 63) as usize] as char); }
            if pad { while out.len() % 4 != 0 { out.push('='); } }
            out
        };
        let seeds: [u8; 6] = [0xfb, 0xff, 0x00, 0x3e, 0x7f, 0xa5];
        let mut mism: Vec<String> = Vec::new();
        let mut n = 0usize;
        for len in 0..=7usize {
            for s0 in 0..seeds.len() {
                let data: Vec<u8> = (0..len).map(|i| seeds[(s0 + i) % seeds.len()].wrapping_add((i as u8).wrapping_mul(29))).collect();
                for (url, pad) in [(false, true), (false, false), (true, true), (true, false)] {
                    let text = enc(&data, url, pad);
                    n += 1;
                    let parsed: Result<passkey_types::Bytes, _> = serde_json::from_str(&format!("\"{}\"", text));
                    match parsed {
                        Ok(b) if b.as_slice() == &data[..] => {}
                        Ok(b) => mism.push(format!("{:?} parsed to {:?}, expected {:?}", text, b.as_slice(), data)),
                        Err(_) => mism.push(format!("{:?} rejected (bytes {:?})", text, data)),
                    }
                }
                let arr: Result<passkey_types::Bytes, _> = serde_json::from_str(&serde_json::to_string(&data).unwrap());
                if arr.map(|b| b.as_slice() != &data[..]).unwrap_or(true) { mism.push(format!("byte array {:?} not parsed back", data)); }
                if passkey_types::encoding::base64url(&data) != enc(&data, true, false) { mism.push(format!("base64url({:?}) = {:?}", data, passkey_types::encoding::base64url(&data))); }
                if passkey_types::encoding::base64(&data) != enc(&data, false, false) { mism.push(format!("base64({:?}) = {:?}", data, passkey_types::encoding::base64(&data))); }
                if passkey_types::encoding::try_from_base64url(&enc(&data, true, false)).as_deref() != Some(&data[..]) { mism.push(format!("try_from_base64url does not invert base64url for {:?}", data)); }
            }
        }
        mism.truncate(12);
        println!("E2REPLAY {}", json!({"result": {"cases": n, "mismatches": mism}, "log": []}));
        return;
    }
    if sc["op"] == "client_credprops" {
        // registrations through the real client over a store of every capability, all resident-key / user-verification
        // requests, with credProps requested: the reported rk must say whether the stored credential is discoverable
        let mut rows = Vec::new();
        let mut polls = 0u64;
        for cap in ["full", "forced", "non_discoverable"] {
            for (rk_req, rrk) in [(None, false), (None, true), (Some("discouraged"), false), (Some("preferred"), false), (Some("required"), true)] {
                for uvr in ["discouraged", "preferred", "required"] {
                    let store = Store { script: json!({"capability": cap, "find": {"ok": 0}}), log: log.clone(), held: vec![] };
                    let user = User { script: json!({"verification": true, "outcome": {"ok": [true, true]}}), log: log.clone() };
                    let auth = Authenticator::new(Aaguid::new_empty(), store, user);
                    let mut client = passkey_client::Client::new(auth);
                    let origin = url::Url::parse("https://future.1password.com").unwrap();
                    let options = webauthn::CredentialCreationOptions { public_key: webauthn::PublicKeyCredentialCreationOptions {
                        rp: webauthn::PublicKeyCredentialRpEntity { id: None, name: "rp".into() },
                        user: webauthn::PublicKeyCredentialUserEntity { id: vec![9u8; 8].into(), display_name: "d".into(), name: "n".into() },
                        challenge: vec![8u8; 32].into(),
                        pub_key_cred_params: webauthn::PublicKeyCredentialParameters::default_algorithms(),
                        timeout: None,
                        exclude_credentials: Default::default(),
                        authenticator_selection: Some(webauthn::AuthenticatorSelectionCriteria {
                            authenticator_attachment: None,
                            resident_key: match rk_req { Some("discouraged") => Some(webauthn::ResidentKeyRequirement::Discouraged), Some("preferred") => Some(webauthn::ResidentKeyRequirement::Preferred),
                                                         Some("required") => Some(webauthn::ResidentKeyRequirement::Required), _ => None },
                            require_resident_key: rrk,
                            user_verification: match uvr { "discouraged" => webauthn::UserVerificationRequirement::Discouraged, "required" => webauthn::UserVerificationRequirement::Required,
                                                           _ => webauthn::UserVerificationRequirement::Preferred },
                        }),
                        hints: None,
                        attestation: Default::default(),
                        attestation_formats: Default::default(),
                        extensions: Some(webauthn::AuthenticationExtensionsClientInputs { cred_props: Some(true), ..Default::default() }),
                    }};
                    let r = block_on(client.register(&origin, options, passkey_client::DefaultClientData), 1000, &mut polls);
                    let stored_handle = client.authenticator().store().held.first().map(|p| p.user_handle.is_some());
                    match r {
                        Some(Ok(c)) => rows.push(json!({"cap": cap, "rk": rk_req, "require": rrk, "uv": uvr, "ok": true,
                                                         "cred_props_rk": c.client_extension_results.cred_props.as_ref().and_then(|p| p.discoverable), "stored_user_handle": stored_handle})),
                        Some(Err(e)) => rows.push(json!({"cap": cap, "rk": rk_req, "require": rrk, "uv": uvr, "ok": false, "err": format!("{:?}", e), "stored_user_handle": stored_handle})),
                        None => {}
                    }
                }
            }
        }
        let mism: Vec<&Value> = rows.iter().filter(|r| r["ok"] == true && r["cred_props_rk"] != r["stored_user_handle"]).collect();
        println!("E2REPLAY {}", json!({"result": {"rows": rows.len(), "mismatches": mism}, "log": []}));
        return;
    }
    if sc["op"] == "wrapper_contention" {
        // two store calls through the same lock wrapper, interleaved: A starts (its inner call suspends once while the guard is
        // held), B starts and queues for the lock, then both are polled until they finish; a pair that never finishes is a deadlock
        let mut deadlocks: Vec<String> = Vec::new();
        let methods = ["find_credentials", "find_with_list", "update_credential", "save_credential", "get_info"];
        let mut cx = Context::from_waker(Waker::noop());
        let mk_pk = |b: u8| { let mut p = Passkey::mock(rp.clone()).counter(5).build(); p.credential_id = vec![b; 16].into(); p };
        macro_rules! contention {
            ($mk:expr) => {{
                for ma in methods {
                    for mb in methods {
                        for cap in ["forced", "full", "non_discoverable"] {
                            let pend = match ma { "find_credentials" | "find_with_list" => json!({"find": 1}), "update_credential" => json!({"update": 1}), "save_credential" => json!({"save": 1}), _ => json!({}) };
                            let inner = Store { script: json!({"find": {"ok": 1}, "pending": pend, "capability": cap, "stateful": true}), log: log.clone(), held: vec![mk_pk(1)] };
                            let shared = $mk(inner);
                            let user_e = || make_credential::PublicKeyCredentialUserEntity { id: vec![9u8; 8].into(), display_name: None, name: None, icon_url: None };
                            let rpe = || make_credential::PublicKeyCredentialRpEntity { id: rp.clone(), name: None };
                            let opts_a = make_credential::Options { rk: true, up: true, uv: false };
                            let opts_b = make_credential::Options { rk: true, up: true, uv: false };
                            let mut sa = shared.clone();
                            let mut sb = shared.clone();
                            let rp_a = rp.clone();
                            let rp_b = rp.clone();
                            let ids_a = [descriptor(&[1u8; 16])];
                            let ids_b = [descriptor(&[1u8; 16])];
                            let (ua, ub, ra, rb) = (user_e(), user_e(), rpe(), rpe());
                            let (pa, pb) = (mk_pk(1), mk_pk(1));
                            let (na, nb) = (mk_pk(2), mk_pk(3));
                            let fa: Pin<Box<dyn Future<Output = ()>>> = match ma {
                                "find_credentials" => Box::pin(async move { let _ = sa.find_credentials(None, &rp_a).await; }),
                                "find_with_list" => Box::pin(async move { let _ = sa.find_credentials(Some(&ids_a), &rp_a).await; }),
                                "update_credential" => Box::pin(async move { let _ = sa.update_credential(pa).await; }),
                                "save_credential" => Box::pin(async move { let _ = sa.save_credential(na, ua, ra, opts_a).await; }),
                                _ => Box::pin(async move { let _ = sa.get_info().await; }),
                            };
                            let fb: Pin<Box<dyn Future<Output = ()>>> = match mb {
                                "find_credentials" => Box::pin(async move { let _ = sb.find_credentials(None, &rp_b).await; }),
                                "find_with_list" => Box::pin(async move { let _ = sb.find_credentials(Some(&ids_b), &rp_b).await; }),
                                "update_credential" => Box::pin(async move { let _ = sb.update_credential(pb).await; }),
                                "save_credential" => Box::pin(async move { let _ = sb.save_credential(nb, ub, rb, opts_b).await; }),
                                _ => Box::pin(async move { let _ = sb.get_info().await; }),
                            };
                            let (mut fa, mut fb) = (fa, fb);
                            let (mut da, mut db) = (false, false);
                            if fa.as_mut().poll(&mut cx).is_ready() { da = true; }
                            if fb.as_mut().poll(&mut cx).is_ready() { db = true; }
                            for _ in 0..200 {
                                if !da && fa.as_mut().poll(&mut cx).is_ready() { da = true; }
                                if !db && fb.as_mut().poll(&mut cx).is_ready() { db = true; }
                                if da && db { break; }
                            }
                            if !(da && db) { deadlocks.push(format!("{} || {} (store capability {}): finished = {}/{}", ma, mb, cap, da, db)); }
                            // the futures still hold guards: leak them rather than waiting for a drop that may block
                            std::mem::forget(fa);
                            std::mem::forget(fb);
                        }
                    }
                }
            }};
        }
        if sc["lock"] == "rwlock" {
            contention!(|inner| Arc::new(tokio::sync::RwLock::new(inner)));
        } else {
            contention!(|inner| Arc::new(tokio::sync::Mutex::new(inner)));
        }
        deadlocks.truncate(10);
        println!("E2REPLAY {}", json!({"result": {"deadlocks": deadlocks}, "log": []}));
        return;
    }
    if sc["op"] == "cbor_keys" {
        // fully populated messages, serialised: the top-level keys of each map, in the order they come out
        use ciborium::value::Value as V;
        fn keys_of<T: serde::Serialize>(name: &str, msg: &T, out: &mut Vec<Value>) {
            let mut bytes = Vec::new();
            let _ = ciborium::ser::into_writer(msg, &mut bytes);
            let v: Option<V> = ciborium::de::from_reader(bytes.as_slice()).ok();
            let keys: Vec<i128> = match v { Some(V::Map(m)) => m.iter().filter_map(|(k, _)| k.as_integer().map(i128::from)).collect(), _ => vec![] };
            let asc = keys.windows(2).all(|w| w[0] < w[1]);
            out.push(json!({"message": name, "keys": keys.iter().map(|k| *k as i64).collect::<Vec<_>>(), "ascending": asc && !keys.is_empty()}));
        }
        let mut out = Vec::new();
        let ad = || passkey_types::ctap2::AuthenticatorData::new("example.com", Some(1));
        keys_of("get_assertion::Response", &get_assertion::Response {
            credential: Some(descriptor(&[1u8; 16])), auth_data: ad(), signature: vec![1u8; 70].into(),
            user: Some(webauthn::PublicKeyCredentialUserEntity { id: vec![9u8; 8].into(), display_name: "d".into(), name: "n".into() }),
            number_of_credentials: Some(1), user_selected: Some(true), large_blob_key: Some(vec![2u8; 32].into()),
            unsigned_extension_outputs: None }, &mut out);
        keys_of("make_credential::Response", &make_credential::Response {
            fmt: "none".into(), auth_data: ad(), att_stmt: V::Map(vec![]), ep_att: Some(false), large_blob_key: Some(vec![2u8; 32].into()), unsigned_extension_outputs: None }, &mut out);
        keys_of("get_assertion::Request", &get_assertion::Request {
            rp_id: "example.com".into(), client_data_hash: vec![7u8; 32].into(), allow_list: Some(vec![descriptor(&[1u8; 16])]), extensions: None,
            options: make_credential::Options { rk: false, up: true, uv: true }, pin_auth: Some(vec![1u8; 16].into()), pin_protocol: Some(1) }, &mut out);
        keys_of("make_credential::Request", &make_credential::Request {
            client_data_hash: vec![7u8; 32].into(), rp: make_credential::PublicKeyCredentialRpEntity { id: "example.com".into(), name: Some("n".into()) },
            user: webauthn::PublicKeyCredentialUserEntity { id: vec![9u8; 8].into(), display_name: "d".into(), name: "n".into() },
            pub_key_cred_params: webauthn::PublicKeyCredentialParameters::default_algorithms(), exclude_list: Some(vec![descriptor(&[1u8; 16])]), extensions: None,
            options: make_credential::Options { rk: true, up: true, uv: false }, pin_auth: Some(vec![1u8; 16].into()), pin_protocol: Some(1) }, &mut out);
        keys_of("get_info::Response", &passkey_types::ctap2::get_info::Response {
            versions: vec![passkey_types::ctap2::get_info::Version::FIDO_2_0], extensions: Some(vec![passkey_types::ctap2::get_info::Extension::Prf]), aaguid: Aaguid::new_empty(),
            options: Some(Default::default()), max_msg_size: std::num::NonZeroU128::new(1200), pin_protocols: Some(vec![1]),
            transports: Some(vec![webauthn::AuthenticatorTransport::Usb]) }, &mut out);
        println!("E2REPLAY {}", json!({"result": {"messages": out}, "log": []}));
        return;
    }
    if sc["op"] == "cbor_duplicates" {
        // serialise fully populated messages, duplicate one top-level member at a time, decode again
        use ciborium::value::Value as V;
        fn dup_accepted<T: serde::Serialize + serde::de::DeserializeOwned>(name: &str, msg: &T, out: &mut Vec<String>) {
            let mut bytes = Vec::new();
            ciborium::ser::into_writer(msg, &mut bytes).unwrap();
            let v: V = ciborium::de::from_reader(bytes.as_slice()).unwrap();
            let V::Map(entries) = v else { return };
            for i in 0..entries.len() {
                let mut e2 = entries.clone();
                e2.push(entries[i].clone());
                let mut b2 = Vec::new();
                ciborium::ser::into_writer(&V::Map(e2), &mut b2).unwrap();
                if ciborium::de::from_reader::<T, _>(b2.as_slice()).is_ok() {
                    out.push(format!("{}:{:?}", name, entries[i].0));
                }
            }
        }
        let mut acc = Vec::new();
        let info = passkey_types::ctap2::get_info::Response {
            versions: vec![passkey_types::ctap2::get_info::Version::FIDO_2_0],
            extensions: Some(vec![passkey_types::ctap2::get_info::Extension::Prf]),
            aaguid: Aaguid::new_empty(),
            options: Some(Default::default()),
            max_msg_size: std::num::NonZeroU128::new(1200),
            pin_protocols: Some(vec![1]),
            transports: Some(vec![webauthn::AuthenticatorTransport::Usb, webauthn::AuthenticatorTransport::Nfc]),
        };
        dup_accepted("get_info::Response", &info, &mut acc);
        let ga = get_assertion::Request {
            rp_id: "example.com".into(),
            client_data_hash: vec![7u8; 32].into(),
            allow_list: Some(vec![descriptor(&[1u8; 16])]),
            extensions: None,
            options: make_credential::Options { rk: false, up: true, uv: true },
            pin_auth: Some(vec![1u8; 16].into()),
            pin_protocol: Some(1),
        };
        dup_accepted("get_assertion::Request", &ga, &mut acc);
        let mc = make_credential::Request {
            client_data_hash: vec![7u8; 32].into(),
            rp: make_credential::PublicKeyCredentialRpEntity { id: "example.com".into(), name: Some("n".into()) },
            user: webauthn::PublicKeyCredentialUserEntity { id: vec![9u8; 8].into(), display_name: "d".into(), name: "n".into() },
            pub_key_cred_params: webauthn::PublicKeyCredentialParameters::default_algorithms(),
            exclude_list: Some(vec![descriptor(&[1u8; 16])]),
            extensions: None,
            options: make_credential::Options { rk: true, up: true, uv: false },
            pin_auth: Some(vec![1u8; 16].into()),
            pin_protocol: Some(1),
        };
        dup_accepted("make_credential::Request", &mc, &mut acc);
        println!("E2REPLAY {}", json!({"result": {"accepted": acc}, "log": []}));
        return;
    }
    if sc["op"] == "rp_id_valid" {
        // is this name accepted as an RP ID under the shipped public suffix list?
        let v = passkey_client::RpIdVerifier::new(public_suffix::DEFAULT_PROVIDER);
        let names: Vec<String> = sc["names"].as_array().map(|a| a.iter().filter_map(|x| x.as_str().map(String::from)).collect()).unwrap_or_default();
        let accepted: Vec<String> = names.into_iter().filter(|n| v.is_valid_rp_id(n)).collect();
        println!("E2REPLAY {}", json!({"result": {"accepted": accepted}, "log": []}));
        return;
    }
    if sc["op"] == "android_rp" {
        // (asset-link host, RP ID) pairs through the Android branch of assert_domain, with the shipped suffix list
        const FP: &str = "B3:5B:68:D5:CE:84:50:55:7C:6A:55:FD:64:B5:1F:EA:C1:10:CB:36:D6:A3:52:1C:59:48:DB:3A:38:0A:34:A9";
        let v = passkey_client::RpIdVerifier::new(public_suffix::DEFAULT_PROVIDER).allows_insecure_localhost(sc["allow_localhost"].as_bool().unwrap_or(false));
        let mut out = Vec::new();
        for c in sc["cases"].as_array().cloned().unwrap_or_default() {
            let host = c[0].as_str().unwrap_or("example.com").to_string();
            let rp: Option<String> = c[1].as_str().map(String::from);
            let url = match url::Url::parse(&format!("https://{}/.well-known/assetlinks.json", host)) { Ok(u) => u, Err(_) => continue };
            let link = match passkey_client::UnverifiedAssetLink::new("com.example.app", FP, host.clone(), url) { Ok(l) => l, Err(_) => continue };
            let origin = passkey_client::Origin::Android(link);
            let r = v.assert_domain(&origin, rp.as_deref()).map(String::from);
            let eff = rp.clone().unwrap_or(host.clone());
            use public_suffix::EffectiveTLDProvider;
            let is_suffix = public_suffix::DEFAULT_PROVIDER.effective_tld_plus_one(&eff).is_err();
            out.push(json!({"host": host, "rp_id": rp, "accepted": r.is_ok(), "returned": r.ok(), "rp_is_public_suffix": is_suffix}));
        }
        println!("E2REPLAY {}", json!({"result": {"cases": out}, "log": []}));
        return;
    }
    if sc["op"] == "store_write" {
        // write contract of a shipped store: after update_credential / save_credential answered Ok the store holds that value
        use passkey_authenticator::MemoryStore;
        let mut old = Passkey::mock(rp.clone()).counter(5).build();
        old.credential_id = vec![1u8; 16].into();
        old.user_handle = Some(vec![5u8; 8].into());
        let mut newer = old.clone();
        newer.counter = Some(6);
        let mut other = Passkey::mock(rp.clone()).counter(0).build();
        other.credential_id = vec![2u8; 16].into();
        other.user_handle = old.user_handle.clone();      // same account, another credential (and, below, another RP)
        let mut third = Passkey::mock("other-rp.example".into()).counter(0).build();
        third.credential_id = vec![3u8; 16].into();
        third.user_handle = old.user_handle.clone();
        let method = sc["method"].as_str().unwrap_or("update_credential").to_string();
        let user = make_credential::PublicKeyCredentialUserEntity { id: vec![9u8; 8].into(), display_name: None, name: None, icon_url: None };
        let rpe = make_credential::PublicKeyCredentialRpEntity { id: rp.clone(), name: None };
        let opts = make_credential::Options { rk: true, up: true, uv: false };
        let mut polls = 0u64;
        let mut others_kept = true;
        let (answered_ok, stored_after) = if sc["store_kind"] == "memory" {
            let mut m = MemoryStore::new();
            m.insert(old.credential_id.clone().into(), old.clone());
            m.insert(third.credential_id.clone().into(), third.clone());
            if method == "update_credential" {
                let r = block_on(m.update_credential(newer.clone()), 100, &mut polls);
                others_kept = m.get(third.credential_id.as_slice()).is_some();
                (matches!(r, Some(Ok(()))), m.get(old.credential_id.as_slice()).and_then(|p| p.counter) == Some(6))
            } else {
                let r = block_on(m.save_credential(other.clone(), user, rpe, opts), 100, &mut polls);
                others_kept = m.get(third.credential_id.as_slice()).is_some() && m.get(old.credential_id.as_slice()).is_some();
                (matches!(r, Some(Ok(()))), m.get(other.credential_id.as_slice()).is_some())
            }
        } else {
            let mut s: Option<Passkey> = Some(old.clone());
            if method == "update_credential" {
                let r = block_on(s.update_credential(newer.clone()), 100, &mut polls);
                (matches!(r, Some(Ok(()))), s.as_ref().and_then(|p| p.counter) == Some(6))
            } else {
                let r = block_on(s.save_credential(other.clone(), user, rpe, opts), 100, &mut polls);
                (matches!(r, Some(Ok(()))), s.as_ref().map(|p| p.credential_id == other.credential_id) == Some(true))
            }
        };
        println!("E2REPLAY {}", json!({"result": {"answered_ok": answered_ok, "stored_after": !answered_ok || stored_after, "others_kept": others_kept}, "log": []}));
        return;
    }
    if sc["op"] == "authdata_setters" {
        // every section setter with a real section: which of AT / ED end up in the encoding, and does it decode again
        use passkey_types::ctap2::{AttestedCredentialData, AuthenticatorData};
        let mut cases = Vec::new();
        let mut add = |name: &str, ad: Option<AuthenticatorData>, want_at: bool, want_ed: bool| {
            let Some(ad) = ad else { cases.push(json!({"name": name, "at": false, "ed": false, "want_at": want_at, "want_ed": want_ed, "decodes": false, "reencodes_same": false, "built": false})); return; };
            let v = ad.to_vec();
            let dec = AuthenticatorData::from_slice(&v).ok();
            cases.push(json!({"name": name, "at": v[32] & 0x40 != 0, "ed": v[32] & 0x80 != 0, "want_at": want_at, "want_ed": want_ed,
                              "decodes": dec.is_some(), "reencodes_same": dec.map(|d| d.to_vec() == v).unwrap_or(false), "built": true}));
        };
        let key = Passkey::mock(rp.clone()).build().key;
        let mut pubkey = key.clone();
        pubkey.params.retain(|(l, _)| *l != coset::Label::Int(-4));
        let acd = || AttestedCredentialData::new(Aaguid::new_empty(), vec![7u8; 16], pubkey.clone()).ok();
        let mc_ext = || Some(make_credential::SignedExtensionOutputs { hmac_secret: Some(true), hmac_secret_mc: None });
        let ga_ext = || Some(get_assertion::SignedExtensionOutputs { hmac_secret: Some(vec![3u8; 32].into()) });
        let base = || AuthenticatorData::new(&rp, Some(1)).set_flags(Flags::UP);
        add("attested", acd().map(|a| base().set_attested_credential_data(a)), true, false);
        add("mc-extensions", base().set_make_credential_extensions(mc_ext()).ok(), false, true);
        add("ga-extensions", base().set_assertion_extensions(ga_ext()).ok(), false, true);
        add("attested+mc-extensions", acd().and_then(|a| base().set_attested_credential_data(a).set_make_credential_extensions(mc_ext()).ok()), true, true);
        add("mc-extensions-none", base().set_make_credential_extensions(None).ok(), false, false);
        add("ga-extensions-none", base().set_assertion_extensions(None).ok(), false, false);
        add("set_flags(AT|ED)", Some(base().set_flags(Flags::AT | Flags::ED)), false, false);
        // the other order: sections first, plain flags afterwards
        add("mc-extensions then set_flags", AuthenticatorData::new(&rp, Some(1)).set_make_credential_extensions(mc_ext()).ok().map(|a| a.set_flags(Flags::UP | Flags::UV)), false, true);
        add("ga-extensions then set_flags", AuthenticatorData::new(&rp, Some(1)).set_assertion_extensions(ga_ext()).ok().map(|a| a.set_flags(Flags::UP)), false, true);
        add("attested then set_flags", acd().map(|a| AuthenticatorData::new(&rp, Some(1)).set_attested_credential_data(a).set_flags(Flags::UP)), true, false);
        println!("E2REPLAY {}", json!({"result": {"cases": cases}, "log": []}));
        return;
    }
    if sc["op"] == "cose_converter" {
        // ES256 / EC2 COSE keys with coordinates of various lengths through the public-key converter
        use coset::{iana, CoseKeyBuilder};
        let mut cases = Vec::new();
        for (xl, yl) in [(32usize, 32usize), (31, 32), (32, 31), (0, 32), (32, 0), (33, 32), (32, 33), (1, 1), (64, 64)] {
            let key = CoseKeyBuilder::new_ec2_pub_key(iana::EllipticCurve::P_256, vec![7u8; xl], vec![9u8; yl]).algorithm(iana::Algorithm::ES256).build();
            let r = std::panic::catch_unwind(|| passkey_authenticator::public_key_der_from_cose_key(&key).map(|b| b.len()));
            let outcome = match r { Ok(Ok(_)) => "ok", Ok(Err(_)) => "err", Err(_) => "panic" };
            cases.push(json!({"x_len": xl, "y_len": yl, "outcome": outcome}));
        }
        println!("E2REPLAY {}", json!({"result": {"cases": cases}, "log": []}));
        return;
    }
    if sc["op"] == "authdata_from_slice" {
        let n = sc["len"].as_u64().unwrap_or(0) as usize;
        let mut buf = vec![0u8; n];
        if n > 32 {
            buf[32] = sc["flag"].as_u64().unwrap_or(0) as u8;
        }
        let r = std::panic::catch_unwind(|| passkey_types::ctap2::AuthenticatorData::from_slice(&buf).map(|a| u8::from(a.flags)));
        let out = match r {
            Ok(Ok(f)) => json!({"result": {"ok": f}, "log": []}),
            Ok(Err(_)) => json!({"result": {"err": 1}, "log": []}),
            Err(_) => json!({"result": {"panic": "from_slice panicked"}, "log": []}),
        };
        println!("E2REPLAY {}", out);
        return;
    }
    if sc["op"] == "store_find" {
        // lookup contract of a shipped store: one stored credential, one query
        let mut pk = Passkey::mock(sc["stored_rp"].as_str().unwrap_or("a.example").to_string()).build();
        pk.credential_id = vec![1u8; 16].into();
        let ids: Option<Vec<webauthn::PublicKeyCredentialDescriptor>> = match sc["ids"].as_str() {
            Some("match") => Some(vec![descriptor(&[1u8; 16])]),
            Some("other") => Some(vec![descriptor(&[2u8; 16])]),
            Some("other_then_match") => Some(vec![descriptor(&[2u8; 16]), descriptor(&[1u8; 16])]),
            _ => None,
        };
        let q = sc["query_rp"].as_str().unwrap_or("a.example").to_string();
        let mut polls = 0u64;
        let r = if sc["store_kind"] == "memory" {
            let mut m = passkey_authenticator::MemoryStore::new();
            m.insert(pk.credential_id.clone().into(), pk);
            block_on(m.find_credentials(ids.as_deref(), &q), 100, &mut polls)
        } else {
            let s: Option<Passkey> = Some(pk);
            block_on(s.find_credentials(ids.as_deref(), &q), 100, &mut polls)
        };
        let out = match r {
            Some(Ok(v)) => json!({"result": {"ok": v.len(), "rp_ids": v.iter().map(|p| p.rp_id.clone()).collect::<Vec<_>>()}, "log": []}),
            Some(Err(e)) => json!({"result": {"err": u8::from(e)}, "log": []}),
            None => json!({"result": "cancelled", "log": []}),
        };
        println!("E2REPLAY {}", out);
        return;
    }

    // credentials held by the scripted store
    let mut held = Vec::new();
    if let Some(list) = sc["store"]["held"].as_array() {
        for (i, c) in list.iter().enumerate() {
            let mut b = Passkey::mock(c["rp_id"].as_str().unwrap_or(&rp).to_string());
            if let Some(n) = c["counter"].as_u64() {
                b = b.counter(n as u32);
            }
            if c["user_handle"].as_bool().unwrap_or(false) {
                b = b.user_handle(Some(8));
            }
            match c["hmac"].as_str() {
                Some("uv_only") => {
                    b = b.hmac_secret(passkey_types::StoredHmacSecret { cred_with_uv: vec![1u8; 32], cred_without_uv: None });
                }
                Some("both") => {
                    b = b.hmac_secret(passkey_types::StoredHmacSecret { cred_with_uv: vec![1u8; 32], cred_without_uv: Some(vec![2u8; 32]) });
                }
                _ => {}
            }
            let mut pk = b.build();
            pk.credential_id = vec![i as u8 + 1; 16].into();
            held.push(pk);
        }
    }
    let held_copy = held.clone();
    let store = Store { script: sc["store"].clone(), log: log.clone(), held };
    let user = User { script: sc["user"].clone(), log: log.clone() };
    let mut auth = Authenticator::new(Aaguid::new_empty(), store, user);
    let _ = &mut auth;
    if sc["config"]["counter"].as_bool().unwrap_or(false) {
        auth.set_make_credentials_with_signature_counter(true);
    }
    let auth = match sc["config"]["hmac_secret"].as_str() {
        Some("uv_only") => auth.hmac_secret(HmacSecretConfig::new_with_uv_only()),
        Some("uv_only_mc") => auth.hmac_secret(HmacSecretConfig::new_with_uv_only().enable_on_make_credential()),
        Some("without_uv") => auth.hmac_secret(HmacSecretConfig::new_without_uv()),
        Some("without_uv_mc") => auth.hmac_secret(HmacSecretConfig::new_without_uv().enable_on_make_credential()),
        _ => auth,
    };
    // the configured transport list (get_info reports it): default, empty, a single entry
    let auth = match sc["config"]["transports"].as_str() {
        Some("empty") => auth.transports(vec![]),
        Some("usb") => auth.transports(vec![webauthn::AuthenticatorTransport::Usb]),
        _ => auth,
    };
    let mut auth = auth;
    let prf_inputs = || passkey_types::ctap2::extensions::AuthenticatorPrfInputs {
        eval: Some(passkey_types::ctap2::extensions::AuthenticatorPrfValues { first: [3u8; 32], second: None }),
        eval_by_credential: None,
    };
    let opts = make_credential::Options {
        rk: sc["request"]["rk"].as_bool().unwrap_or(false),
        up: sc["request"]["up"].as_bool().unwrap_or(true),
        uv: sc["request"]["uv"].as_bool().unwrap_or(false),
    };
    let pin_auth = sc["request"]["pin_auth"].as_bool().unwrap_or(false).then(|| vec![1u8; 16].into());
    let id_len = sc["request"]["id_len"].as_u64().unwrap_or(16) as usize;
    let list = |v: &Value| -> Option<Vec<webauthn::PublicKeyCredentialDescriptor>> {
        v.as_array().map(|l| l.iter().map(|x| descriptor(&vec![x.as_u64().unwrap_or(0) as u8; id_len])).collect())
    };
    let unknown_list = || -> Option<Vec<webauthn::PublicKeyCredentialDescriptor>> {
        sc["request"]["allow_list_unknown"].as_bool().unwrap_or(false).then(|| {
            vec![webauthn::PublicKeyCredentialDescriptor {
                ty: webauthn::PublicKeyCredentialType::Unknown,
                id: vec![9u8; 16].into(),
                transports: None,
            }]
        })
    };
    let max_polls = sc["max_polls"].as_u64().unwrap_or(1000);
    let mut polls = 0u64;
    let op = sc["op"].as_str().unwrap_or("get_assertion").to_string();

    let result = std::panic::catch_unwind(std::panic::AssertUnwindSafe(|| -> Value {
        match op.as_str() {
            "get_assertion" | "trait_get_assertion" => {
                let req = get_assertion::Request {
                    rp_id: rp.clone(),
                    client_data_hash: vec![7u8; 32].into(),
                    allow_list: unknown_list().or_else(|| list(&sc["request"]["allow_list"])),
                    extensions: sc["request"]["prf_eval"].as_bool().unwrap_or(false).then(|| get_assertion::ExtensionInputs {
                        hmac_secret: None,
                        prf: Some(prf_inputs()),
                    }),
                    options: opts,
                    pin_auth,
                    pin_protocol: None,
                };
                let r = if op == "get_assertion" {
                    block_on(Authenticator::get_assertion(&mut auth, req), max_polls, &mut polls)
                } else {
                    block_on(Ctap2Api::get_assertion(&mut auth, req), max_polls, &mut polls)
                };
                match r {
                    None => json!("cancelled"),
                    Some(Ok(resp)) => json!({"ok": {
                        "counter": resp.auth_data.counter,
                        "flags": u8::from(resp.auth_data.flags),
                        "user": resp.user.is_some(),
                        "credential_first_byte": resp.credential.as_ref().map(|c| c.id[0]),
                        "signature_len": resp.signature.len(),
                        "binding": assertion_binding(&resp, &held_copy, &rp, &[7u8; 32])}}),
                    Some(Err(e)) => json!({"err": u8::from(e)}),
                }
            }
            "make_credential" | "trait_make_credential" => {
                let req = make_credential::Request {
                    client_data_hash: vec![7u8; 32].into(),
                    rp: make_credential::PublicKeyCredentialRpEntity { id: rp.clone(), name: None },
                    user: webauthn::PublicKeyCredentialUserEntity {
                        id: vec![9u8; 8].into(),
                        display_name: "d".into(),
                        name: "n".into(),
                    },
                    pub_key_cred_params: if sc["request"]["unsupported_alg"].as_bool().unwrap_or(false) {
                        vec![webauthn::PublicKeyCredentialParameters {
                            ty: webauthn::PublicKeyCredentialType::PublicKey,
                            alg: coset::iana::Algorithm::RS256,
                        }]
                    } else {
                        webauthn::PublicKeyCredentialParameters::default_algorithms()
                    },
                    exclude_list: list(&sc["request"]["exclude_list"]),
                    extensions: sc["request"]["prf_eval"].as_bool().unwrap_or(false).then(|| make_credential::ExtensionInputs {
                        hmac_secret: None,
                        hmac_secret_mc: None,
                        prf: Some(prf_inputs()),
                    }),
                    options: opts,
                    pin_auth,
                    pin_protocol: None,
                };
                let r = if op == "make_credential" {
                    block_on(Authenticator::make_credential(&mut auth, req), max_polls, &mut polls)
                } else {
                    block_on(Ctap2Api::make_credential(&mut auth, req), max_polls, &mut polls)
                };
                match r {
                    None => json!("cancelled"),
                    Some(Ok(resp)) => json!({"ok": {
                        "counter": resp.auth_data.counter,
                        "flags": u8::from(resp.auth_data.flags),
                        "has_attested": resp.auth_data.attested_credential_data.is_some()}}),
                    Some(Err(e)) => json!({"err": u8::from(e)}),
                }
            }
            "get_info" | "trait_get_info" => {
                let r = if op == "get_info" {
                    block_on(Authenticator::get_info(&auth), max_polls, &mut polls)
                } else {
                    block_on(Ctap2Api::get_info(&auth), max_polls, &mut polls)
                };
                match r {
                    None => json!("cancelled"),
                    Some(info) => {
                        let mut b = Vec::new();
                        let _ = ciborium::ser::into_writer(&info, &mut b);
                        json!({"ok": {"debug": format!("{:?}", info), "cbor": b}})
                    }
                }
            }
            "u2f_register" => {
                let req = passkey_types::u2f::RegisterRequest { challenge: [5u8; 32], application: [6u8; 32] };
                match block_on(U2fApi::register(&mut auth, req, &[1u8; 16]), max_polls, &mut polls) {
                    None => json!("cancelled"),
                    Some(Ok(resp)) => json!({"ok": {"key_handle_len": resp.key_handle.len(), "signature_len": resp.signature.len()}}),
                    Some(Err(e)) => json!({"err": u8::from(e)}),
                }
            }
            "u2f_authenticate" => {
                let req = passkey_types::u2f::AuthenticationRequest {
                    parameter: passkey_types::u2f::AuthenticationParameter::EnforceUserPresence,
                    challenge: [5u8; 32],
                    application: [6u8; 32],
                    key_handle: vec![1u8; 16],
                };
                match block_on(U2fApi::authenticate(&auth, req, 1, Flags::UP), max_polls, &mut polls) {
                    None => json!("cancelled"),
                    Some(Ok(resp)) => json!({"ok": {"counter": resp.counter, "signature_len": resp.signature.len()}}),
                    Some(Err(e)) => json!({"err": u8::from(e)}),
                }
            }
            _ => json!("unknown op"),
        }
    }));
    let out = match result {
        Ok(v) => json!({"result": v, "log": *log.lock().unwrap(), "polls": polls,
                        "held_after": auth.store().held.len(),
                        "held_counters": auth.store().held.iter().map(|p| p.counter).collect::<Vec<_>>()}),
        Err(p) => {
            let msg = p.downcast_ref::<String>().cloned().or_else(|| p.downcast_ref::<&str>().map(|s| s.to_string())).unwrap_or_default();
            json!({"result": {"panic": msg}, "log": *log.lock().unwrap(), "polls": polls})
        }
    };
    println!("E2REPLAY {}", out);
    let _ = Flags::empty();
}
