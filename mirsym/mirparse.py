"""Parser for rustc's `-Zunpretty=mir` text: functions -> basic blocks -> statements / terminators.

Only the shapes needed by the path executor are given structure; anything else is kept as raw text
and makes the executor stop with "unsupported" (=> inconclusive, never a verdict)."""
import re


class Fn:
    def __init__(self, name, sig):
        self.name = name
        self.sig = sig
        self.blocks = {}      # id -> Block
        self.locals = {}      # _N -> type text
        self.debug = {}       # source name -> [normalized places] in order of appearance


class Block:
    def __init__(self, bid, cleanup):
        self.id = bid
        self.cleanup = cleanup
        self.stmts = []       # raw statement strings (without trailing ;)
        self.term = None      # raw terminator string


FN_RE = re.compile(r"^fn (.+?)\((.*)\) -> (.+) \{$")
BB_RE = re.compile(r"^    bb(\d+)( \(cleanup\))?: \{$")


def parse_mir(text):
    fns = {}
    cur = None
    blk = None
    for line in text.split("\n"):
        if cur is None:
            m = FN_RE.match(line)
            if m:
                cur = Fn(m.group(1), line)
                if cur.name in fns:
                    # duplicate pretty names (e.g. ctor shims): keep the first, store others suffixed
                    k = 2
                    while "%s#%d" % (cur.name, k) in fns:
                        k += 1
                    cur.name = "%s#%d" % (cur.name, k)
                fns[cur.name] = cur
            continue
        if line == "}":
            cur = None
            blk = None
            continue
        m = BB_RE.match(line)
        if m:
            blk = Block(int(m.group(1)), bool(m.group(2)))
            cur.blocks[blk.id] = blk
            continue
        if blk is None:
            m = re.match(r"^\s+let (?:mut )?(_\d+): (.*);$", line)
            if m:
                cur.locals[m.group(1)] = m.group(2)
                continue
            m = re.match(r"^\s+debug (\w+) => (.*);$", line)
            if m:
                try:
                    cur.debug.setdefault(m.group(1), []).append(parse_place(m.group(2)))
                except ValueError:
                    pass
            continue
        s = line.strip()
        if s == "}":
            blk = None
            continue
        if not s:
            continue
        if s.endswith(";"):
            s = s[:-1]
        blk.stmts.append(s)
    for f in fns.values():
        for b in f.blocks.values():
            if b.stmts:
                b.term = b.stmts.pop()
    return fns


# ---------------------------------------------------------------------------------------------
# places and operands
# ---------------------------------------------------------------------------------------------

def _match_paren(s, i):
    """s[i] == '(' -> index of the matching ')'"""
    depth = 0
    j = i
    while j < len(s):
        c = s[j]
        if c == "(":
            depth += 1
        elif c == ")":
            depth -= 1
            if depth == 0:
                return j
        j += 1
    raise ValueError("unbalanced: " + s)


def parse_place(s):
    """-> normalized place string, e.g. '(((*_153) as variant#5).4: T).4: U)' -> '*_153@variant#5.4.4'"""
    s = s.strip()
    place, rest = _place(s, 0)
    if rest != len(s):
        raise ValueError("trailing text in place: %r at %d" % (s, rest))
    return place


def _place(s, i):
    if s[i] == "(":
        j = _match_paren(s, i)
        inner = s[i + 1:j]
        p = _inner(inner)
        i = j + 1
    else:
        m = re.match(r"_\d+", s[i:])
        if not m:
            raise ValueError("bad place: %r" % s[i:])
        p = m.group(0)
        i += len(m.group(0))
    # suffixes
    while i < len(s):
        m = re.match(r"\.(\d+)", s[i:])
        if m:
            p += "." + m.group(1)
            i += len(m.group(0))
            continue
        m = re.match(r"\[([^\]]*)\]", s[i:])
        if m:
            p += "[" + m.group(1) + "]"
            i += len(m.group(0))
            continue
        break
    return p, i


def _inner(s):
    s = s.strip()
    if s.startswith("*"):
        p, i = _place(s, 1)
        if i != len(s):
            raise ValueError("bad deref inner: %r" % s)
        return p + "^"
    p, i = _place(s, 0)
    rest = s[i:]
    m = re.match(r" as ([A-Za-z_#0-9]+)$", rest)
    if m:
        return p + "@" + m.group(1)
    m = re.match(r"\.(\d+): ", rest)
    if m:
        return p + "." + m.group(1)
    m = re.match(r": ", rest)   # type ascription of a whole place
    if m:
        return p
    if rest == "":
        return p
    raise ValueError("bad inner place: %r (rest %r)" % (s, rest))


def split_top(s, sep=","):
    """split on sep at depth 0 of () [] {} <> (angle brackets only counted inside generic-looking spans)"""
    out, depth, cur = [], 0, ""
    i = 0
    while i < len(s):
        c = s[i]
        if c in "([{":
            depth += 1
        elif c in ")]}":
            depth -= 1
        elif c == "<" and i + 1 < len(s) and s[i + 1] != " " and s[i + 1] != "=":
            depth += 1
        elif c == ">" and i > 0 and s[i - 1] not in " -=":
            depth -= 1
        if c == sep and depth == 0:
            out.append(cur.strip())
            cur = ""
        else:
            cur += c
        i += 1
    if cur.strip():
        out.append(cur.strip())
    return out


def split_assign(s):
    """'PLACE = RVALUE' -> (normalized place, rvalue text); None if s is not an assignment"""
    try:
        place, i = _place(s, 0)
    except ValueError:
        return None
    if s[i:i + 3] != " = ":
        return None
    return place, s[i + 3:]
