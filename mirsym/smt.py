"""Thin SMT-LIB2 front end: one long-lived `z3 -in` process, push/pop per query."""
import subprocess, time, re, shutil


class Solver:
    def __init__(self, exe=None, logic="ALL"):
        self.exe = exe or shutil.which("z3") or "/usr/bin/z3"
        self.p = subprocess.Popen([self.exe, "-in", "-smt2"], stdin=subprocess.PIPE, stdout=subprocess.PIPE,
                                  stderr=subprocess.STDOUT, text=True, bufsize=1)
        self.queries = 0
        self.time = 0.0
        self.errors = []
        self.log = []
        self.send("(set-option :print-success false)")
        self.send("(set-logic %s)" % logic)

    def send(self, s):
        self.log.append(s)
        self.p.stdin.write(s + "\n")
        self.p.stdin.flush()

    def _read_until_marker(self):
        self.send('(echo "@@done")')
        out = []
        while True:
            line = self.p.stdout.readline()
            if not line:
                break
            line = line.rstrip("\n")
            if line.strip() == "@@done" or line.strip() == '"@@done"':
                break
            out.append(line)
        return out

    def check(self, decls, asserts, want_model=False):
        """-> ('sat'|'unsat'|'unknown'|'error', model dict)"""
        t0 = time.time()
        self.send("(push 1)")
        for d in decls:
            self.send(d)
        for a in asserts:
            self.send("(assert %s)" % a)
        self.send("(check-sat)")
        if want_model:
            self.send("(get-model)")
        lines = self._read_until_marker()
        self.send("(pop 1)")
        self.queries += 1
        self.time += time.time() - t0
        text = "\n".join(lines)
        if "(error" in text and not (want_model and "model is not available" in text):
            self.errors.append(text[:300])
            return "error", {}
        verdict = "unknown"
        for l in lines:
            if l.strip() in ("sat", "unsat", "unknown"):
                verdict = l.strip()
                break
        model = {}
        if want_model and verdict == "sat":
            for m in re.finditer(r"\(define-fun (\S+) \(\) (?:\(_ BitVec \d+\)|Int|Bool)\s+([^\n]+?)\)\s*(?=\(define-fun|\)\s*$|$)", text, re.S):
                model[m.group(1)] = m.group(2).strip()
        return verdict, model

    def close(self):
        try:
            self.p.stdin.write("(exit)\n")
            self.p.stdin.flush()
            self.p.wait(timeout=5)
        except Exception:
            self.p.kill()


def bv_value(s):
    s = s.strip()
    if s.startswith("#x"):
        return int(s[2:], 16)
    if s.startswith("#b"):
        return int(s[2:], 2)
    m = re.match(r"\(_ bv(\d+) \d+\)", s)
    if m:
        return int(m.group(1))
    try:
        return int(s)
    except ValueError:
        return None
