"""Symbolic path executor over rustc MIR text (engine E2).

Every local / place holds a *term*; every call is an environment event whose result is a fresh symbol
(a handful of tiny std helpers - Try::branch, from_residual, into_future, deref, ... - are given their
obvious semantics so that error values and futures can be traced through them).  `switchInt` on a
symbolic term forks the path and records the constraint; unwind / cleanup edges are cut (callee panics
are outside the model); an inner `Pending` is followed through the coroutine's resume edge at most
once per suspension point.  The result is a list of paths, each with its constraints and event trace.

Terms (tuples):
  ('const', text)                      literal / named constant
  ('in', place)                        initial content of a place (function input / coroutine field)
  ('ret', k, callee)                   result of call event k
  ('proj', term, path)                 projection out of an opaque term
  ('ctor', Variant, (args...))         enum constructor with known variant
  ('ref', place)                       reference to a place
  ('op', name, a, b) / ('not', a) / ('cast', a, ty) / ('discr', term)
  ('await', term)                      value a future resolves to (payload of Poll::Ready)
  ('branch', term) ('residual', term) ('errof', term, how)   -- see models below
"""
import re, copy, collections
from .mirparse import parse_place, split_top, split_assign

VARIANT_INDEX = {"Ok": 0, "Err": 1, "None": 0, "Some": 1, "Ready": 0, "Pending": 1,
                 "Continue": 0, "Break": 1}


class Unsupported(Exception):
    pass


class Path:
    def __init__(self):
        self.mem = {}            # place -> term
        self.conds = []          # (term, '==', v) | (term, 'notin', (v..))
        self.cond_term = {}      # key -> term
        self.events = []         # dicts
        self.yields = collections.Counter()
        self.steps = 0
        self.end = None          # ('return', term) | ('unreachable',) | ('panic', msg) ...
        self.asserts = []        # (cond_term, msg, index in events)
        self.nret = 0
        self.visited = []
        self.heap = {}           # event index of a call result -> values stored through pointers derived from it
        self.mutrefs = frozenset()   # locals that hold a `&mut` borrow

    def fork(self):
        p = Path()
        p.mem = dict(self.mem)
        p.conds = list(self.conds)
        p.cond_term = dict(self.cond_term)
        p.events = list(self.events)
        p.yields = collections.Counter(self.yields)
        p.steps = self.steps
        p.asserts = list(self.asserts)
        p.nret = self.nret
        p.visited = list(self.visited)
        p.heap = dict(self.heap)
        p.mutrefs = self.mutrefs
        return p


def tstr(t):
    """stable text of a term (used as key in constraints)"""
    if isinstance(t, tuple):
        return "(" + " ".join(tstr(x) for x in t) + ")"
    return str(t)


class Executor:
    def __init__(self, fn, models=None, max_paths=20000, max_steps=4000, follow_yields=True, max_visits=None):
        self.fn = fn
        self.paths = []
        self.max_paths = max_paths
        self.max_steps = max_steps
        self.follow_yields = follow_yields
        self.max_visits = max_visits   # loop bound: a path may enter each block at most this often
        self.unsupported = []

    # ---- memory ---------------------------------------------------------------------------
    def resolve(self, p, path):
        """replace leading ref-derefs: '_6^' where _6 = ('ref', Q) -> Q"""
        for _ in range(20):
            i = p.find("^")
            if i < 0:
                return p
            head, tail = p[:i], p[i + 1:]
            v = path.mem.get(head)
            if v is not None and v[0] == "ref":
                p = v[1] + tail
                continue
            # opaque pointer: keep the deref in the name but resolve later derefs in tail
            j = tail.find("^")
            if j < 0:
                return p
            # nested deref of something read through an opaque pointer: leave as is
            return p
        return p

    def read(self, p, path):
        p = self.resolve(p, path)
        subs = tuple(sorted((k[len(p):], v) for k, v in path.mem.items()
                            if k.startswith(p) and len(k) > len(p) and k[len(p)] in ".@[" and not k.endswith("#discr")))
        if subs and len(subs) <= 12:
            base = path.mem[p] if p in path.mem else self.read_base(p, path)
            return ("with", base, subs)
        return self.read_base(p, path)

    def read_base(self, p, path):
        if p in path.mem:
            return path.mem[p]
        # longest prefix holding a term
        best = None
        for k in path.mem:
            if p.startswith(k) and len(p) > len(k) and p[len(k)] in ".@[^":
                if best is None or len(k) > len(best):
                    best = k
        if best is not None:
            base = path.mem[best]
            return self.project(base, p[len(best):])
        t = ("in", p)
        return t

    def project(self, base, suffix):
        """suffix like '@Ready.0' or '.1'"""
        if not suffix:
            return base
        if base[0] == "ctor":
            m = re.match(r"@([A-Za-z_#0-9]+)\.(\d+)", suffix)
            if m and m.group(1) == base[1]:
                idx = int(m.group(2))
                if idx < len(base[2]):
                    return self.project(base[2][idx], suffix[len(m.group(0)):])
        if base[0] == "tuple":
            m = re.match(r"\.(\d+)", suffix)
            if m and int(m.group(1)) < len(base[1]):
                return self.project(base[1][int(m.group(1))], suffix[len(m.group(0)):])
        if base[0] == "branch":
            # ControlFlow produced by Try::branch(x)
            x = base[1]
            if suffix.startswith("@Continue.0"):
                inner = "@Ok.0" if base[2] == "Result" else "@Some.0"
                return self.project(self.project(x, inner), suffix[len("@Continue.0"):])
            if suffix.startswith("@Break.0"):
                return self.project(("residual", x), suffix[len("@Break.0"):])
        if base[0] == "with":
            for suf, v in base[2]:
                if suffix == suf:
                    return v
                if suffix.startswith(suf) and suffix[len(suf)] in ".@[^":
                    return self.project(v, suffix[len(suf):])
            inner = tuple((suf[len(suffix):], v) for suf, v in base[2] if suf.startswith(suffix) and suf[len(suffix)] in ".@[^")
            b = self.project(base[1], suffix)
            return ("with", b, inner) if inner else b
        if base[0] == "checked" and suffix.startswith("@Some.0"):
            return self.project(("op", base[1], base[2], base[3]), suffix[len("@Some.0"):])
        if base[0] == "pollres" and suffix.startswith("@Ready.0"):
            return self.project(("await", base[2]), suffix[len("@Ready.0"):])
        if base[0] == "ref":
            return ("proj", base, suffix)
        if base[0] == "proj":
            return ("proj", base[1], base[2] + suffix)
        return ("proj", base, suffix)

    def write(self, p, t, path):
        p = self.resolve(p, path)
        i = p.find("^")
        if i > 0:
            # a store through an opaque pointer: remember it with the call result the pointer was derived from
            # (e.g. the allocation a `vec![..]` literal is written into), so that data flow can follow it
            v = path.mem.get(p[:i])
            for _ in range(12):
                if not isinstance(v, tuple) or not v:
                    break
                if v[0] == "ret" and isinstance(v[1], int):
                    path.heap = dict(path.heap)
                    path.heap[v[1]] = path.heap.get(v[1], ()) + (t,)
                    break
                if v[0] in ("proj", "cast", "clone", "copy"):
                    v = v[1]
                elif v[0] in ("via", "conv"):
                    v = v[2]
                elif v[0] == "with":
                    v = v[1]
                else:
                    break
        for k in [k for k in path.mem if k == p or (k.startswith(p) and k[len(p)] in ".@[^")]:
            del path.mem[k]
        path.mem[p] = t

    def copy_place(self, dst, src, path):
        """aggregate copy: sub-places written individually travel with the value"""
        src = self.resolve(src, path)
        dst = self.resolve(dst, path)
        subs = [(k, v) for k, v in path.mem.items() if k.startswith(src) and len(k) > len(src) and k[len(src)] in ".@[^"]
        whole = self.read(src, path)
        self.write(dst, whole, path)
        for k, v in subs:
            path.mem[dst + k[len(src):]] = v

    # ---- operands / rvalues ----------------------------------------------------------------
    def operand(self, s, path):
        s = s.strip()
        if s.startswith("const "):
            return ("const", s[6:].strip())
        if s.startswith("copy ") or s.startswith("move "):
            return self.read(parse_place(s[5:]), path)
        # bare place
        if not s.startswith(("_", "(")):
            # a function item passed as a value (e.g. `map_err(Into::into)`)
            return ("fnitem", s[:160])
        return self.read(parse_place(s), path)

    def operand_place(self, s):
        s = s.strip()
        if s.startswith("copy ") or s.startswith("move "):
            return parse_place(s[5:])
        if s.startswith("const "):
            return None
        try:
            return parse_place(s)
        except ValueError:
            return None

    def rvalue(self, dst, rv, path):
        rv = rv.strip()
        if rv.startswith("no_retag "):
            rv = rv[len("no_retag "):]
        # plain move/copy keeps sub-places
        if rv.startswith("copy ") or rv.startswith("move "):
            body = rv[5:]
            mc = re.match(r"^(.*?) as (.*) \((PointerCoercion)\(.*\)\)$", body)
            if mc:
                x = self.read(parse_place(mc.group(1)), path)
                self.write(dst, ("cast", x, mc.group(2)), path)
                return
            if " as " in body and body.rstrip().endswith(")") and re.search(r"\((\w+)\)$", body):
                # cast: `copy X as T (Kind)`
                m = re.match(r"(.*) as (.*) \((\w+)\)$", body)
                x = self.read(parse_place(m.group(1)), path)
                if m.group(3) in ("Transmute", "PtrToPtr", "IntToInt", "Unsize", "PointerCoercion", "IntToFloat", "FloatToInt", "PointerExposeProvenance", "PointerWithExposedProvenance"):
                    self.write(dst, ("cast", x, m.group(2)), path)
                    return
            try:
                src = parse_place(body)
            except ValueError:
                raise Unsupported("rvalue " + rv)
            self.copy_place(dst, src, path)
            return
        if rv.startswith("const "):
            self.write(dst, ("const", rv[6:].strip()), path)
            return
        m = re.match(r"&(?:raw (?:const|mut) )?(?:mut )?(?:fake shallow )?(.*)$", rv)
        if m and not rv.startswith("&&"):
            try:
                self.write(dst, ("ref", self.resolve(parse_place(m.group(1)), path)), path)
                if rv.startswith("&mut ") or rv.startswith("&raw mut "):
                    path.mutrefs = path.mutrefs | {self.resolve(dst, path)}
                return
            except ValueError:
                pass
        m = re.match(r"discriminant\((.*)\)$", rv)
        if m:
            pl = self.resolve(parse_place(m.group(1)), path)
            if pl + "#discr" in path.mem:
                self.write(dst, path.mem[pl + "#discr"], path)
                return
            v = self.read(pl, path)
            self.write(dst, self.discr(v), path)
            return
        m = re.match(r"(AddWithOverflow|SubWithOverflow|MulWithOverflow)\((.*)\)$", rv)
        if m:
            a, b = [self.operand(x, path) for x in split_top(m.group(2))]
            self.write(dst, ("tuple", (("op", m.group(1)[:3], a, b), ("op", m.group(1)[:3] + "Ovf", a, b))), path)
            return
        m = re.match(r"(Add|Sub|Mul|Div|Rem|BitAnd|BitOr|BitXor|Shl|Shr|Eq|Ne|Lt|Le|Gt|Ge|Offset|Cmp|AddUnchecked|SubUnchecked)\((.*)\)$", rv)
        if m:
            a, b = [self.operand(x, path) for x in split_top(m.group(2))]
            self.write(dst, ("op", m.group(1), a, b), path)
            return
        m = re.match(r"(Not|Neg|PtrMetadata|Len)\((.*)\)$", rv)
        if m:
            a = self.operand(m.group(2), path)
            self.write(dst, ("not", a) if m.group(1) == "Not" else ("op1", m.group(1), a), path)
            return
        # enum constructors with known variants
        m = re.match(r"^[A-Za-z_][\w:<>, '&\[\]\(\)\{\}@/\.\-#=+]*?::(Ok|Err|Some|None|Ready|Pending|Continue|Break)(?:\((.*)\))?$", rv)
        if m:
            args = tuple(self.operand(x, path) for x in split_top(m.group(2))) if m.group(2) else ()
            self.write(dst, ("ctor", m.group(1), args), path)
            return
        if rv in ("None",) or re.match(r"^(Ok|Err|Some)\(", rv):
            m = re.match(r"^(Ok|Err|Some|None)(?:\((.*)\))?$", rv)
            args = tuple(self.operand(x, path) for x in split_top(m.group(2))) if m.group(2) else ()
            self.write(dst, ("ctor", m.group(1), args), path)
            return
        if rv.startswith("{closure@") or rv.startswith("{coroutine@") or rv.startswith("{async"):
            # closure value; captured operands, if any, follow after the location
            caps = ()
            m = re.match(r"^\{[^}]*\} \{ (.*) \}$", rv)
            if m:
                try:
                    fields = [x.split(": ", 1)[1] for x in split_top(m.group(1)) if ": " in x]
                    # a local captured through `&mut`: the closure may assign to it whenever it runs
                    mutcaps = []
                    for ftxt in fields:
                        mm = re.match(r"^(?:move|copy) (_\d+)$", ftxt.strip())
                        if mm and mm.group(1) in path.mutrefs:
                            v = path.mem.get(mm.group(1))
                            if isinstance(v, tuple) and v and v[0] == "ref":
                                mutcaps.append(("mutcap", v[1]))
                    caps = tuple(self.operand(x, path) for x in fields)
                    # a captured reference: also what it points to now
                    extra = []
                    for c in caps:
                        if isinstance(c, tuple) and c and c[0] == "ref":
                            try:
                                extra.append(("pointee", c[1], self.read(c[1], path)))
                            except Exception:
                                pass
                    caps = caps + tuple(extra) + tuple(mutcaps)
                except (ValueError, Unsupported, IndexError):
                    caps = ()
            self.write(dst, ("closure", rv.split(" ")[0][:120], caps) if caps else ("closure", rv.split(" ")[0][:120]), path)
            return
        # struct literal  Type { f: op, ... }
        m = re.match(r"^([\w:<>, '&\[\]]+?) \{ (.*) \}$", rv)
        if m:
            fields = {}
            for part in split_top(m.group(2)):
                if ": " in part:
                    k, v = part.split(": ", 1)
                    try:
                        fields[k.strip()] = self.operand(v, path)
                    except ValueError:
                        fields[k.strip()] = ("const", v)
            self.write(dst, ("struct", m.group(1), tuple(sorted(fields.items()))), path)
            return
        m = re.match(r"^\((.*)\)$", rv)
        if m:
            try:
                self.write(dst, ("tuple", tuple(self.operand(x, path) for x in split_top(m.group(1)))), path)
                return
            except ValueError:
                pass
        # unit-like named constants / enum variants without payload (e.g. `PinAuthInvalid`)
        if re.match(r"^[A-Za-z_][\w:]*$", rv):
            self.write(dst, ("const", rv), path)
            return
        m = re.match(r"^[\w:<>, '&\[\]]+\((.*)\)$", rv)
        if m:   # tuple-struct / other enum constructor
            try:
                args = tuple(self.operand(x, path) for x in split_top(m.group(1)))
                self.write(dst, ("agg", rv.split("(")[0], args), path)
                return
            except ValueError:
                pass
        m = re.match(r"^\[(.*)\]$", rv)
        if m:
            body = m.group(1)
            parts = split_top(body)
            if len(parts) == 1 and "; " in body:
                parts = [body.rsplit("; ", 1)[0]]
            try:
                ops = tuple(self.operand(x, path) for x in parts if x.strip())
            except (ValueError, Unsupported):
                ops = (rv[:60],)
            self.write(dst, ("array", ops), path)
            return
        raise Unsupported("rvalue: " + rv[:200])

    def discr(self, v):
        if v[0] == "ctor" and v[1] in VARIANT_INDEX:
            return ("const", str(VARIANT_INDEX[v[1]]))
        if v[0] == "branch":
            d = self.discr(v[1])
            if v[2] == "Option":
                # Some(1) -> Continue(0); None(0) -> Break(1)
                if d[0] == "const":
                    return ("const", "0" if d[1].startswith("1") else "1")
                return ("flip", d)
            return d
        return ("discr", v)

    # ---- statements -----------------------------------------------------------------------
    def statement(self, s, path):
        if s.startswith(("StorageLive", "StorageDead", "nop", "FakeRead", "PlaceMention", "Retag", "Coverage", "ConstEvalCounter", "AscribeUserType", "// ")):
            return
        m = re.match(r"^discriminant\((.*)\) = (\d+)$", s)
        if m:
            p = parse_place(m.group(1))
            self.write(p + "#discr", ("const", m.group(2)), path)
            return
        if s.startswith("assume(") or s.startswith("Deinit("):
            return
        sa = split_assign(s)
        if sa is None:
            raise Unsupported("statement: " + s[:200])
        self.rvalue(sa[0], sa[1], path)

    # ---- terminators ----------------------------------------------------------------------
    def run(self):
        p0 = Path()
        work = [(p0, 0)]
        while work:
            if len(self.paths) + len(work) > self.max_paths:
                raise Unsupported("too many paths")
            path, bb = work.pop()
            try:
                self.run_path(path, bb, work)
            except Unsupported as e:
                path.end = ("unsupported", str(e))
                self.unsupported.append(str(e))
                self.paths.append(path)
        return self.paths

    def const_int(self, t):
        if t[0] == "const":
            v = t[1]
            if v in ("false",):
                return 0
            if v in ("true",):
                return 1
            m = re.match(r"^(-?\d+)(?:_[iu]\w+)?$", v)
            if m:
                return int(m.group(1))
        return None

    def run_path(self, path, bb, work):
        while True:
            path.steps += 1
            if path.steps > self.max_steps:
                raise Unsupported("step limit")
            blk = self.fn.blocks[bb]
            path.visited.append(bb)
            if self.max_visits is not None and path.visited.count(bb) > self.max_visits:
                path.end = ("loop-bound", bb)
                self.bounded = getattr(self, "bounded", 0) + 1
                return
            for s in blk.stmts:
                self.statement(s, path)
            t = blk.term
            if t.startswith("goto -> bb"):
                bb = int(t[len("goto -> bb"):])
                continue
            if t == "return":
                ret = self.read("_0", path)
                # a coroutine returning Poll::Pending is a suspension point
                if self.follow_yields and ret[0] == "ctor" and ret[1] == "Pending":
                    state = None
                    for k, v in path.mem.items():
                        if k.endswith("#discr"):
                            state = (k, v)
                    if state is not None:
                        sid = self.const_int(state[1])
                        if path.yields[sid] >= 1:
                            # bound: each suspension point is taken at most once per path
                            return
                        path.events.append({"kind": "yield", "state": sid})
                        path.yields[sid] += 1
                        # resume: the next poll enters bb0 with the saved state
                        entry = self.fn.blocks[0]
                        mm = re.match(r"switchInt\((.*)\) -> \[(.*)\]$", entry.term)
                        if mm:
                            targets = dict((x.split(": ")[0], int(x.split(": bb")[1])) for x in split_top(mm.group(2)))
                            if str(sid) in targets:
                                bb = targets[str(sid)]
                                continue
                        raise Unsupported("cannot find resume edge for state %s" % sid)
                path.end = ("return", ret)
                self.paths.append(path)
                return
            if t in ("unreachable", "resume") or t.startswith("resume"):
                path.end = (t,)
                # unreachable paths are dropped: they are artefacts of `otherwise` arms
                return
            m = re.match(r"^switchInt\((.*)\) -> \[(.*)\]$", t)
            if m:
                v = self.operand(m.group(1), path)
                targets = []
                otherwise = None
                for x in split_top(m.group(2)):
                    k, tgt = x.split(": bb")
                    if k.strip() == "otherwise":
                        otherwise = int(tgt)
                    else:
                        targets.append((int(k), int(tgt)))
                # the coroutine state switch at entry: start state
                c = self.const_int(v)
                if c is None and v[0] == "discr" and bb == 0 and not path.events and self.is_coroutine():
                    c = 0   # first poll of a fresh coroutine
                if c is not None:
                    nxt = dict(targets).get(c, otherwise)
                    if nxt is None:
                        raise Unsupported("switch without matching arm")
                    bb = nxt
                    continue
                key = tstr(v)
                path.cond_term[key] = v
                known = None
                for (kt, op, val) in path.conds:
                    if kt == key and op == "==":
                        known = val
                if known is not None:
                    bb = dict(targets).get(known, otherwise)
                    continue
                excluded = set()
                for (kt, op, val) in path.conds:
                    if kt == key and op == "notin":
                        excluded |= set(val)
                first = True
                branches = []
                for val, tgt in targets:
                    if val in excluded:
                        continue
                    branches.append((("==", val), tgt))
                if otherwise is not None and not self.is_unreachable(otherwise):
                    # booleans / two-variant discriminants: `otherwise` after [0] means 1
                    if len(targets) == 1 and self.is_boolish(v):
                        branches.append((("==", 1 - targets[0][0] if targets[0][0] in (0, 1) else 1), otherwise))
                    else:
                        branches.append((("notin", tuple(val for val, _ in targets)), otherwise))
                if not branches:
                    return
                for (op, val), tgt in branches[1:]:
                    np = path.fork()
                    np.conds.append((key, op, val))
                    np.events.append({"kind": "branch", "on": v, "op": op, "val": val})
                    work.append((np, tgt))
                (op, val), tgt = branches[0]
                path.conds.append((key, op, val))
                path.events.append({"kind": "branch", "on": v, "op": op, "val": val})
                bb = tgt
                continue
            m = re.match(r"^drop\((.*)\) -> \[return: bb(\d+), unwind.*\]$", t)
            if m:
                path.events.append({"kind": "drop", "place": parse_place(m.group(1))})
                bb = int(m.group(2))
                continue
            m = re.match(r"^assert\((.*?), \"(.*?)\".*\) -> \[success: bb(\d+), unwind.*\]$", t)
            if m:
                cond_txt = m.group(1)
                neg = cond_txt.startswith("!")
                c = self.operand(cond_txt[1:] if neg else cond_txt, path)
                if neg:
                    c = ("not", c)
                ci = self.const_int(c)
                if ci == 0:
                    path.end = ("panic", m.group(2))
                    self.paths.append(path)
                    return
                path.asserts.append((c, m.group(2), len(path.events)))
                path.events.append({"kind": "assert", "cond": c, "msg": m.group(2)})
                bb = int(m.group(3))
                continue
            # call
            m = re.match(r"^(.*) -> \[return: bb(\d+), unwind.*\]$", t)
            if m:
                self.call(m.group(1), path)
                bb = int(m.group(2))
                continue
            m = re.match(r"^(.*) -> unwind.*$", t)
            if m:
                # diverging call
                self.call(m.group(1), path)
                path.end = ("diverge", m.group(1)[:120])
                self.paths.append(path)
                return
            m = re.match(r"^(?:_\d+ = )?(?:core::panicking::|std::rt::)?(panic\w*|begin_panic\w*|unreachable_display)\((.*)\) -> bb\d+$", t)
            if m:
                # a diverging panic whose only successor is the cleanup path
                path.end = ("panic", m.group(2)[:120])
                self.paths.append(path)
                return
            raise Unsupported("terminator: " + t[:200])

    def is_coroutine(self):
        return "{closure#0}" in self.fn.name and ("Pin<&mut" in self.fn.sig)

    def is_unreachable(self, bb):
        b = self.fn.blocks[bb]
        return not b.stmts and b.term == "unreachable"

    def is_boolish(self, v):
        return v[0] in ("ret", "in", "proj", "op", "not", "await", "discr", "flip", "isvariant")

    # ---- calls ----------------------------------------------------------------------------
    def call(self, text, path):
        # the destination is a place (starts with '_' or '('); callee text may itself contain ' = '
        dst = None
        callee_txt = text
        sa = split_assign(text) if text[:1] in "_(" else None
        if sa is not None:
            dst, callee_txt = sa
        # split callee(args): last top-level parenthesised group
        if not callee_txt.endswith(")"):
            raise Unsupported("call shape: " + text[:200])
        depth = 0
        j = len(callee_txt) - 1
        while j >= 0:
            if callee_txt[j] == ")":
                depth += 1
            elif callee_txt[j] == "(":
                depth -= 1
                if depth == 0:
                    break
            j -= 1
        callee = callee_txt[:j]
        argtxt = callee_txt[j + 1:-1]
        args_txt = split_top(argtxt) if argtxt.strip() else []
        args = [self.operand(a, path) for a in args_txt]
        short = short_callee(callee)
        # what each reference argument points to at the time of the call
        pointees = {}
        for k, a in enumerate(args):
            b = a
            while isinstance(b, tuple) and b and b[0] in ("via", "cast"):
                b = b[2] if b[0] == "via" else b[1]
            if isinstance(b, tuple) and b and b[0] == "ref":
                try:
                    pointees[k] = (b[1], self.read(b[1], path))
                except Exception:
                    pass
        res = self.model(short, callee, args, args_txt, path)
        ev = {"kind": "call", "callee": short, "full": callee[:300], "args": args, "ret": res, "pointees": pointees,
              "pure": res is not None and not (res[0] == "ret")}
        path.events.append(ev)
        if res is None:
            path.nret += 1
            res = ("ret", len(path.events) - 1, short)
            ev["ret"] = res
        if dst is not None:
            self.write(dst, res, path)
        # closures handed to this call may have assigned to the locals they captured by `&mut`
        idx = len(path.events) - 1
        for a in args:
            b = a
            while isinstance(b, tuple) and b and b[0] in ("via", "clone"):
                b = b[2] if b[0] == "via" else b[1]
            if isinstance(b, tuple) and len(b) > 2 and b[0] == "closure":
                for c in b[2]:
                    if isinstance(c, tuple) and c and c[0] == "mutcap":
                        old = path.mem.get(c[1])
                        self.write(c[1], ("havoc", idx, c[1], old), path)

    def model(self, short, callee, args, args_txt, path):
        """semantics of a few std helpers; None = uninterpreted environment call"""
        if short.endswith("::into_future") or short.endswith("Pin::new_unchecked") or short.endswith("Pin::new") \
                or short.endswith("Deref::deref") or short.endswith("DerefMut::deref_mut") \
                or short.endswith("::as_ref") and short.startswith(("Result", "Option")) \
                or short in ("Option::as_deref", "Authenticator::store", "Authenticator::store_mut", "Authenticator::aaguid",
                             "Option::as_mut", "Result::as_mut", "convert::identity"):
            return ("via", short, args[0]) if args else None
        if short.endswith("Try::branch"):
            kind = "Option" if callee.startswith("<Option<") or callee.startswith("<std::option::Option<") else "Result"
            return ("branch", args[0], kind)
        if short.endswith("from_residual"):
            r = args[0]
            how = "same" if re.search(r"FromResidual<Result<Infallible, (\w+)>>", callee) and \
                re.search(r"<Result<[^>]*, (\w+)> as FromResidual<Result<Infallible, \1>>", callee) else "converted"
            return ("ctor", "Err", (("errof", r, how),))
        if short.endswith("Future::poll"):
            fut = self.chase(args[0], path)
            path.events.append({"kind": "poll", "future": fut})
            k = len(path.events) - 1
            return ("pollres", k, fut)
        if short.endswith("Option::is_some") or short.endswith("Option::is_none") or short.endswith("Result::is_ok") or short.endswith("Result::is_err"):
            return ("isvariant", short.split("::")[-1], args[0])
        if short in ("Result::ok", "Result::err"):
            return ("via", short, args[0])
        if short.endswith("Clone::clone"):
            a = args[0]
            if a[0] == "ref":
                return ("clone", self.read(a[1], path))
            return ("clone", a)
        if short.endswith("::split_at") and len(args) == 2 and args[1][0] == "const":
            k = self.const_int(args[1])
            if k is not None:
                s0 = args[0]
                path.events.append({"kind": "require", "what": "split_at", "slice": s0, "at": k})
                return ("tuple", (("subslice", s0, 0, k), ("restslice", s0, k)))
        if short.endswith("::checked_add") and len(args) == 2:
            return ("checked", "Add", args[0], args[1])
        if short.endswith("::saturating_add") and len(args) == 2:
            return ("saturating", "Add", args[0], args[1])
        if short.endswith("::wrapping_add") and len(args) == 2:
            return ("wrapping", "Add", args[0], args[1])
        if short.endswith("Into::into") or short.endswith("From::from"):
            return ("conv", short_type_pair(callee), args[0])
        return None

    def chase(self, t, path):
        """look through references and identity helpers to the value itself"""
        for _ in range(20):
            if t[0] == "via":
                t = t[2]
            elif t[0] == "ref":
                t = self.read(t[1], path)
            else:
                break
        return t


def strip_via(t):
    """look through identity-like helpers"""
    while isinstance(t, tuple) and t and t[0] in ("via", "clone") :
        t = t[2] if t[0] == "via" else t[1]
    return t


def short_type_pair(callee):
    m = re.match(r"<(.*?) as (?:Into|From)<(.*?)>>", callee)
    return (m.group(1)[-40:], m.group(2)[-40:]) if m else callee[-60:]


def short_callee(c):
    """'<S as CredentialStore>::find_credentials::<'_, '_>' -> 'CredentialStore::find_credentials'"""
    c = c.strip()
    # remove generic argument lists
    out, depth = "", 0
    i = 0
    while i < len(c):
        ch = c[i]
        if ch == "<":
            # `<T as Trait>::f` head keeps the trait name
            depth += 1
        elif ch == ">" and (i == 0 or c[i - 1] != "-"):
            depth -= 1
        elif depth == 0:
            out += ch
        i += 1
    m = re.match(r"^<.* as ([\w:]+?)(?:<.*>)?>::(\w+)", c)
    if m:
        # walk to the matching ' as Trait>' at depth 1
        depth = 0
        for i, ch in enumerate(c):
            if ch == "<":
                depth += 1
            elif ch == ">" and c[i - 1] != "-":
                depth -= 1
                if depth == 0:
                    head = c[1:i]
                    rest = c[i + 1:]
                    mm = re.search(r" as ([\w:]+)", head[::-1][::-1])
                    # find last top-level ' as '
                    d2, pos = 0, -1
                    for j, c2 in enumerate(head):
                        if c2 == "<":
                            d2 += 1
                        elif c2 == ">" and head[j - 1] != "-":
                            d2 -= 1
                        elif d2 == 0 and head.startswith(" as ", j):
                            pos = j
                    if pos >= 0:
                        trait = re.sub(r"<.*", "", head[pos + 4:]).split("::")[-1]
                        fn = re.match(r"::(\w+)", rest)
                        return "%s::%s" % (trait, fn.group(1) if fn else "?")
                    break
    out = re.sub(r"::+", "::", out).strip(":")
    parts = [p for p in out.split("::") if p]
    return "::".join(parts[-2:]) if len(parts) >= 2 else out
