"""Property checks over the paths enumerated by the MIR executor (engine E2).

Each check returns Findings.  A finding carries a *scenario* for the native replay runner and a
predicate over the runner's output; it becomes a VIOLATION only if the predicate holds on the real
code.  A check that meets a MIR shape it does not understand raises Shape -> inconclusive."""
import re, json, os
from .executor import tstr, strip_via

MUTATING = ("CredentialStore::save_credential", "CredentialStore::update_credential")
STORE_OR_USER = ("CredentialStore::", "Authenticator::check_user", "UserValidationMethod::")
ERR_CODES = {"PinAuthInvalid": 0x33, "UnsupportedOption": 0x2B, "InvalidOption": 0x2C, "NoCredentials": 0x2E,
             "CredentialExcluded": 0x19, "OperationDenied": 0x27, "UnsupportedAlgorithm": 0x26}


class Shape(Exception):
    pass


class Finding:
    def __init__(self, prop, role, text, scenario=None, predicate=None, path=None):
        self.prop, self.role, self.text = prop, role, text
        self.scenario, self.predicate, self.path = scenario, predicate, path


# ---- helpers over a path -----------------------------------------------------------------

def calls(p, name):
    return [(i, e) for i, e in enumerate(p.events) if e["kind"] == "call" and e["callee"].endswith(name)]


def env_calls(p):
    return [(i, e) for i, e in enumerate(p.events) if e["kind"] == "call" and not e.get("pure")]


def cond_value(p, key):
    for k, op, v in p.conds:
        if k == key and op == "==":
            return v
    return None


def await_discr(p, ret):
    return cond_value(p, tstr(("discr", ("await", ret))))


def ret_discr(p, ret):
    return cond_value(p, tstr(("discr", ret)))


def result_of(p):
    """-> ('Ok', term) | ('Err', term) | None"""
    if not p.end or p.end[0] != "return":
        return None
    r = p.end[1]
    if r[0] == "ctor" and r[1] == "Ready" and r[2] and r[2][0][0] == "ctor" and r[2][0][1] in ("Ok", "Err"):
        inner = r[2][0]
        return inner[1], (inner[2][0] if inner[2] else None)
    return None


def contains(t, sub):
    if t == sub:
        return True
    if isinstance(t, tuple):
        return any(contains(x, sub) for x in t)
    return False


def derives_from(t, origin, p, depth=0):
    """t contains `origin`, possibly through the arguments of the calls whose results appear in t"""
    if contains(t, origin):
        return True
    if depth > 6 or not isinstance(t, tuple):
        return False
    if t and t[0] == "ret" and isinstance(t[1], int) and t[1] < len(p.events):
        ev = p.events[t[1]]
        return any(derives_from(a, origin, p, depth + 1) for a in ev.get("args", [])) or \
            any(derives_from(v, origin, p, depth + 1) for _, v in ev.get("pointees", {}).values())
    return any(derives_from(x, origin, p, depth + 1) for x in t if isinstance(x, tuple))


def chase(t):
    while isinstance(t, tuple) and t and t[0] in ("via", "clone", "cast"):
        t = t[2] if t[0] == "via" else t[1]
    return t


def const_arg(t):
    t = chase(t)
    return isinstance(t, tuple) and t and t[0] == "const"


def no_yield(p):
    return not any(e["kind"] == "yield" for e in p.events)


def mutating(p):
    return [(i, e) for i, e in env_calls(p) if e["callee"] in MUTATING]


def field_index(src, struct, field):
    """index of `field` in `pub struct <struct> {` of the source text (declaration order)"""
    m = re.search(r"pub struct %s\s*\{(.*?)\n\s*\}" % re.escape(struct), src, re.S)
    if not m:
        raise Shape("struct %s not found in source" % struct)
    names = re.findall(r"^\s*(?:pub(?:\([a-z]+\))? )?([a-z_0-9]+):\s", m.group(1), re.M)
    if field not in names:
        raise Shape("field %s not in struct %s (%s)" % (field, struct, names))
    return names.index(field)


def input_field(ctx, *idx):
    """term of the coroutine's captured `input` projected by field indices: (proj (in _1.0) ^.1.<i>.<j>)"""
    return ctx.in_field(*idx)


def describe(p):
    return {"calls": [e["callee"] for _, e in env_calls(p)],
            "yields": [e["state"] for e in p.events if e["kind"] == "yield"],
            "conds": [[k[:90], op, v] for k, op, v in p.conds],
            "result": tstr(p.end[1])[:160] if p.end and len(p.end) > 1 else str(p.end)}


# ---- scenario construction -----------------------------------------------------------------

class Ctx:
    """what the checks need to know about the source tree of this run"""

    def __init__(self, sources):
        self.src = sources
        ga = sources["passkey-types/src/ctap2/get_assertion.rs"]
        mc = sources["passkey-types/src/ctap2/make_credential.rs"]
        pk = sources["passkey-types/src/passkey.rs"]
        self.ga = {f: field_index(ga, "Request", f) for f in ("rp_id", "allow_list", "options", "pin_auth", "extensions", "client_data_hash")}
        self.mc = {f: field_index(mc, "Request", f) for f in ("rp", "user", "pub_key_cred_params", "exclude_list", "options", "pin_auth", "extensions")}
        self.opt = {f: field_index(mc, "Options", f) for f in ("rk", "up", "uv")}
        self.pk = {f: field_index(pk, "Passkey", f) for f in ("key", "credential_id", "rp_id", "user_handle", "counter", "extensions")}
        self.pk_all = dict(self.pk)
        if sorted(self.pk_all.values()) != list(range(len(self.pk_all))):
            self.pk_all = {}
        self.rp_id_idx = field_index(mc, "PublicKeyCredentialRpEntity", "id")
        self.input_in = {}      # fn key -> suffix of the `in` term of the request (e.g. '^.1')
        self.input_place = {}   # fn key -> place holding the request while the coroutine runs

    def set_fn(self, key, fn):
        """where the request lives in this coroutine (from the MIR's `debug input =>` lines)"""
        d = fn.debug.get("input") or fn.debug.get("request")
        if not d:
            raise Shape("no `debug input` in %s" % fn.name[:80])
        first, last = d[0], d[-1]
        m = re.match(r"^_\d+(\^.*)$", first)
        if not m:
            raise Shape("unexpected place of the captured request: %s" % first)
        self.input_in[key] = m.group(1)
        self.input_place[key] = last
        self.cur = key

    def in_field(self, *idx):
        return ("proj", ("in", "_1.0"), self.input_in[self.cur] + "".join(".%d" % i for i in idx))

    def is_input_ref(self, t, *idx):
        """t is a reference to the request's field path idx (in its suspended-state location)"""
        return t[0] == "ref" and t[1] == self.input_place[self.cur] + "".join(".%d" % i for i in idx)


def ga_scenario(p, ctx, counter=None, strict=False):
    ctx.cur = "ga"
    """request + fault schedule of a get_assertion path; None if the path needs a callee outcome the
    replay doubles cannot force (internal helper failing)"""
    sc = {"op": "get_assertion", "request": {"up": True, "uv": False, "rk": False, "pin_auth": False, "allow_list": None},
          "store": {"find": {"ok": 1}, "held": [{"counter": None}], "pending": {}},
          "user": {"verification": True, "presence_enabled": True, "outcome": {"ok": [True, True]}, "pending": 0}}
    for k, op, v in p.conds:
        if op != "==":
            continue
        if "isvariant is_some" in k and (ctx.input_place["ga"] + ".%d))" % ctx.ga["pin_auth"]) in k:
            sc["request"]["pin_auth"] = bool(v)
        elif k == tstr(input_field(ctx, ctx.ga["options"], ctx.opt["rk"])):
            sc["request"]["rk"] = bool(v)
        elif k.startswith("(discr (await (ret") and "Authenticator::check_user" in k:
            if v == 1:
                sc["user"]["outcome"] = {"err": 0x27}
        elif k.startswith("(discr (ret") and "Result::and_then" in k:
            if v == 1:
                sc["store"]["find"] = {"err": 0x2E}
        elif k.startswith("(discr (proj (ret") and k.endswith("@Ok.0.%d))" % ctx.pk["counter"]):
            sc["store"]["held"][0]["counter"] = (7 if counter is None else counter) if v == 1 else None
        elif k.startswith("(discr (await (ret") and "update_credential" in k:
            if v == 1:
                sc["store"]["update"] = {"err": 0x28}
        elif k.startswith("(discr (pollres"):
            pass
        elif k.startswith("(discr (ret") and any(x in k for x in ("Option::ok_or", "get_extensions", "set_assertion_extensions", "private_key_from_cose_key")):
            if v == 1 and strict:
                return None
        elif k.startswith("(discr (await (ret") and "find_credentials" in k:
            if v == 1:
                sc["store"]["find"] = {"err": 0x2E}
        elif strict:
            return None
    for e in p.events:
        if e["kind"] == "yield":
            if e["state"] == 3:
                sc["store"]["pending"]["find"] = 1
            elif e["state"] == 4:
                sc["user"]["pending"] = 1
            elif e["state"] == 5:
                sc["store"]["pending"]["update"] = 1
    return sc


def predicted_log(p):
    m = {"CredentialStore::find_credentials": "find", "Authenticator::check_user": "check_user",
         "CredentialStore::update_credential": "update", "CredentialStore::save_credential": "save",
         "CredentialStore::get_info": "get_info"}
    return [m[e["callee"]] for _, e in env_calls(p) if e["callee"] in m]


# ---- get_assertion ---------------------------------------------------------------------------

def _strip_via(t):
    while isinstance(t, tuple) and t and t[0] == "via":
        t = t[2]
    return t


def _pointee(e, k):
    """(place, value at call time) of reference argument k of call event e, or (None, None)"""
    return e.get("pointees", {}).get(k, (None, None))


def _struct_field(t, name):
    if isinstance(t, tuple) and t and t[0] == "struct":
        for k, v in t[2]:
            if k == name:
                return v
    return None


def assertion_binding_checks(p, ctx, payload, find, sign):
    """C03, data flow of a successful get_assertion path (crypto itself is an environment call):
    the signature returned is the one signature made on this path; it is made with the key of the
    credential that came out of the lookup and that is named in the response; the signed message is the
    serialisation of exactly the authenticator data that is returned, extended by exactly the request's
    client data hash; that authenticator data is built for the request's rp_id and carries no attested
    credential data."""
    F = []
    ev = env_calls(p)
    sc = ga_scenario(p, ctx)
    if sc:
        # the same path with the other consent outcomes and with extension output, so that a difference in flags or
        # extensions between what is signed and what is returned shows
        vs = [sc]
        for outcome, uv in (([True, False], False), ([True, True], True)):
            v = json.loads(json.dumps(sc))
            v["user"]["outcome"] = {"ok": outcome}
            v["request"]["uv"] = uv
            vs.append(v)
            w = json.loads(json.dumps(v))
            w["request"]["prf_eval"] = True
            w["store"]["held"][0]["hmac"] = "both"
            w["config"] = {"hmac_secret": "without_uv"}
            vs.append(w)
        sc = vs
    bind = lambda o: o["result"]["ok"]["binding"] if isinstance(o["result"], dict) and "ok" in o["result"] else {}
    not_verifying = lambda o: bind(o).get("verifies") is not True
    resp = payload
    while isinstance(resp, tuple) and resp and resp[0] != "struct":
        # Ok payload: (struct Response ...)
        nxt = [x for x in resp[1:] if isinstance(x, tuple)]
        if not nxt:
            break
        resp = nxt[0]
    if not (isinstance(resp, tuple) and resp and resp[0] == "struct" and "Response" in resp[1]):
        raise Shape("get_assertion's Ok value is not a Response literal: %s" % tstr(payload)[:120])
    r_auth = _struct_field(resp, "auth_data")
    r_sig = _struct_field(resp, "signature")
    r_cred = _struct_field(resp, "credential")
    if r_auth is None or r_sig is None or r_cred is None:
        raise Shape("Response literal without auth_data / signature / credential")
    if len(sign) != 1:
        F.append(Finding("C03", "ga.signatures-per-assertion", "a successful path makes %d signatures" % len(sign), sc, not_verifying, p))
        return F
    si, se = sign[0]
    # -- authenticator data: for the request's rp_id, no attested credential data
    new = calls(p, "AuthenticatorData::new")
    if not new:
        raise Shape("no AuthenticatorData::new call on a successful get_assertion path")
    for _, ne in new:
        a0 = _strip_via(ne["args"][0])
        _, a0v = _pointee(ne, 0)
        from_lookup = bool(find) and a0v is not None and derives_from(a0v, ("await", find[0][1]["ret"]), p) and tstr(chase(a0v)).endswith(".%d)" % ctx.pk["rp_id"])
        if not ctx.is_input_ref(a0, ctx.ga["rp_id"]) and not from_lookup:
            F.append(Finding("C03", "ga.authdata-rp-id", "the authenticator data is built for %s, not for the request's rp_id" % tstr(a0)[:80], sc,
                             lambda o: bind(o).get("rp_hash_ok") is not True, p))
    if calls(p, "set_attested_credential_data") or calls(p, "AuthenticatorData::set_attested_credential_data"):
        F.append(Finding("C03", "ga.attested-data-in-assertion", "an assertion's authenticator data is given attested credential data", sc,
                         lambda o: bind(o).get("attested") is not False, p))
    # the returned authenticator data descends from such a constructor call
    if not any(derives_from(r_auth, ne["ret"], p) for _, ne in new):
        F.append(Finding("C03", "ga.returned-authdata-source", "the returned authenticator data is not the one built for this request (%s)" % tstr(r_auth)[:80], sc, not_verifying, p))
    # -- the signed message
    tv = [(i, e) for i, e in ev if e["callee"].endswith("AuthenticatorData::to_vec") and i < si]
    msg_place, msg_val = _pointee(se, 1)
    if msg_place is None:
        raise Shape("cannot see what the sign call's message argument points to: %s" % tstr(se["args"][1])[:80])
    src = [(i, e) for i, e in tv if e["ret"] == msg_val]
    if not src:
        F.append(Finding("C03", "ga.signed-message-source", "the signed buffer does not start as the serialised authenticator data (%s)" % tstr(msg_val)[:80], sc, not_verifying, p))
    else:
        ti, te = src[0]
        _, ser = _pointee(te, 0)
        if ser is None:
            ser = te["args"][0]
        if ser != r_auth:
            F.append(Finding("C03", "ga.signed-authdata-differs", "the authenticator data that is signed (%s) is not the authenticator data that is returned (%s)" %
                             (tstr(ser)[:60], tstr(r_auth)[:60]), sc, not_verifying, p))
        touch = [(i, e) for i, e in ev if ti < i < si and any(pl == msg_place for pl, _ in e.get("pointees", {}).values())
                 and not e["callee"].endswith(("Deref::deref", "DerefMut::deref_mut"))]
        ext = [(i, e) for i, e in touch if e["callee"].endswith("Extend::extend") or e["callee"].endswith("::extend_from_slice")]
        other = [e["callee"] for i, e in touch if (i, e) not in ext]
        if len(ext) != 1 or other:
            F.append(Finding("C03", "ga.signed-message-shape", "between serialisation and signing the buffer is touched by %s (expected: extended once, by the client data hash)" %
                             [e["callee"] for _, e in touch], sc, not_verifying, p))
        else:
            h = _strip_via(ext[0][1]["args"][1])
            hp, hv = _pointee(ext[0][1], 1)
            ok_h = h == ctx.in_field(ctx.ga["client_data_hash"]) or ctx.is_input_ref(h, ctx.ga["client_data_hash"]) or \
                (hv is not None and hv == ctx.in_field(ctx.ga["client_data_hash"]))
            if not ok_h:
                F.append(Finding("C03", "ga.signed-hash-source", "the signed buffer is extended by %s, not by the request's client data hash" % tstr(h)[:80], sc, not_verifying, p))
    # -- the key
    kp, kv = _pointee(se, 0)
    pk = calls(p, "private_key_from_cose_key")
    if kv is None or len(pk) != 1 or not derives_from(kv, pk[0][1]["ret"], p):
        F.append(Finding("C03", "ga.signing-key-source", "the signing key is not the one converted from a stored COSE key (%s)" % (tstr(kv)[:80] if kv else "?"), sc, not_verifying, p))
    elif find:
        origin = ("await", find[0][1]["ret"])
        cp, cv = _pointee(pk[0][1], 0)
        if cv is None or not derives_from(cv, origin, p):
            F.append(Finding("C03", "ga.signing-key-source", "the signing key does not come from the looked-up credential (%s)" % (tstr(cv)[:80] if cv else "?"), sc, not_verifying, p))
        else:
            # the credential named in the response is the one whose key signs
            want_key_suffix = ".%d" % ctx.pk["key"]
            t = chase(cv)
            base = None
            if t[0] == "proj" and t[2].endswith(want_key_suffix):
                base = ("proj", t[1], t[2][:-len(want_key_suffix)]) if t[2][:-len(want_key_suffix)] else t[1]
            if base is None:
                raise Shape("the COSE key given to the converter is not a credential's key field: %s" % tstr(t)[:100])
            if not contains(r_cred, base):
                F.append(Finding("C03", "ga.returned-credential-differs", "the credential named in the response (%s) is not the credential whose key signs (%s)" %
                                 (tstr(r_cred)[:60], tstr(base)[:60]), sc, lambda o: not_verifying(o) or bind(o).get("credential_held_for_rp") is not True, p))
    # -- the signature that is returned
    if not derives_from(r_sig, se["ret"], p):
        F.append(Finding("C03", "ga.returned-signature-source", "the returned signature bytes do not come from the signature made on this path (%s)" % tstr(r_sig)[:80], sc, not_verifying, p))
    return F


def check_get_assertion(paths, ctx, want):
    """want: set of property ids to evaluate.  -> (findings, stats)"""
    F = []
    ctx.cur = "ga"
    stats = {"paths": len(paths), "checked": 0}
    for p in paths:
        if p.end and p.end[0] == "unsupported":
            raise Shape("unsupported MIR in get_assertion: " + p.end[1][:200])
        res = result_of(p)
        if res is None:
            if p.end and p.end[0] == "panic" and "resumed after" in p.end[1]:
                continue
            if p.end and p.end[0] == "panic":
                continue
            raise Shape("get_assertion path with unexpected end: %r" % (p.end,))
        stats["checked"] += 1
        ev = env_calls(p)
        find = calls(p, "CredentialStore::find_credentials")
        cu = calls(p, "Authenticator::check_user")
        upd = calls(p, "CredentialStore::update_credential")
        sign = [(i, e) for i, e in ev if e["callee"].endswith("::sign") or e["callee"].endswith("::try_sign")]
        ext = calls(p, "get_extensions")
        muts = mutating(p)
        kind, payload = res
        cu_ok = [(i, e) for i, e in cu if await_discr(p, e["ret"]) == 0]

        if "C07" in want:
            bad = [e["callee"] for _, e in muts if e["callee"] != "CredentialStore::update_credential"]
            if bad or len(muts) > 1:
                F.append(Finding("C07", "ga.mutations", "get_assertion path with store mutations %s (at most one update_credential expected)" % [e["callee"] for _, e in muts], path=p))
            for i, e in upd:
                d = await_discr(p, e["ret"])
                if kind == "Ok" and d != 0:
                    sc = with_store_errors(ga_scenario(p, ctx), "update")
                    F.append(Finding("C07", "ga.ok-without-accepted-update", "an assertion is returned on a path where the store's answer to update_credential is not checked",
                                     sc, lambda o: isinstance(o["result"], dict) and "ok" in o["result"] and any(c["call"] == "update" for c in o["log"]), p))
                if d == 1:
                    want_err = ("errof", ("residual", ("await", e["ret"])), "same")
                    if kind != "Err" or payload != want_err:
                        sc = with_store_errors(ga_scenario(p, ctx), "update")
                        F.append(Finding("C07", "ga.update-error-not-propagated", "update_credential's error is not what get_assertion returns (%s)" % tstr(payload)[:80],
                                         sc, lambda o, sc=None: o["result"] != {"err": o["scenario"]["store"]["update"]["err"]}, p))
                later = [j for j, x in ext + sign if j < i]
                if later:
                    F.append(Finding("C07", "ga.update-after-signing", "update_credential is issued after extension processing / signing", ga_scenario(p, ctx),
                                     lambda o: True, p))
            # a credential with a counter never produces an assertion without the store having been given the new value
            cdiscr = None
            for k, op, v in p.conds:
                if k.startswith("(discr (proj (ret") and k.endswith("@Ok.0.%d))" % ctx.pk["counter"]):
                    cdiscr = v
            if kind == "Ok" and cdiscr == 1 and not upd:
                base = ga_scenario(p, ctx, counter=7)
                vs = []
                if base:
                    for up in (True, False):
                        for uv in (False, True):
                            for outcome in ([True, True], [False, True], [False, False], [True, False]):
                                v = json.loads(json.dumps(base))
                                v["request"]["up"] = up
                                v["request"]["uv"] = uv
                                v["user"]["outcome"] = {"ok": outcome}
                                vs.append(v)
                F.append(Finding("C07", "ga.ok-without-update", "an assertion is returned for a credential with a counter on a path that never calls update_credential (%s)" %
                                 "; ".join(kk[:50] for kk, op, v in p.conds if "contains" in kk or "up" in kk)[:120], vs or None,
                                 lambda o: isinstance(o["result"], dict) and "ok" in o["result"] and o["result"]["ok"]["counter"] is not None and
                                 not any(c["call"] == "update" for c in o["log"]), p))
            # lookup errors surface only after consent
            if kind == "Err" and find and not cu and payload is not None and derives_from(payload, ("await", find[0][1]["ret"]), p):
                sc = ga_scenario(p, ctx)
                F.append(Finding("C07", "ga.lookup-error-before-consent", "a lookup error is returned before the consent step", sc,
                                 lambda o: not any(c["call"] == "check_user" for c in o["log"]) and isinstance(o["result"], dict) and "err" in o["result"], p))

        if "C04" in want:
            needs_consent = bool(upd or sign or kind == "Ok")
            if needs_consent:
                first_sensitive = min([i for i, _ in upd + sign] + [len(p.events)])
                if not [1 for i, _ in cu_ok if i < first_sensitive]:
                    sc = ga_scenario(p, ctx)
                    if sc:
                        sc["user"]["outcome"] = {"err": 0x27}
                    F.append(Finding("C04", "ga.use-without-consent", "credential used (update/sign/Ok) on a path without a successful consent step before it", sc,
                                     lambda o: "ok" in json.dumps(o["result"]) or any(c["call"] == "update" for c in o["log"]), p))
            consent_failed = [(i, e) for i, e in cu if await_discr(p, e["ret"]) == 1]
            before_consent_exit = not cu
            if consent_failed or before_consent_exit:
                if muts:
                    F.append(Finding("C04", "ga.mutation-without-consent", "store mutated although consent was not obtained", ga_scenario(p, ctx),
                                     lambda o: any(c["call"] in ("update", "save") for c in o["log"]), p))
                # same outcome whether or not a matching credential exists: the path condition must not
                # depend on the lookup result
                dep = [k for k, op, v in p.conds if ("Result::and_then" in k or ("find_credentials" in k and "(await" in k))]
                if dep and find:
                    # two requests that differ only in whether a matching credential exists, consent denied in both
                    base = ga_scenario(p, ctx)
                    if base:
                        base["user"]["outcome"] = {"err": 0x27}
                        a = json.loads(json.dumps(base)); a["store"]["find"] = {"ok": 1}
                        b = json.loads(json.dumps(base)); b["store"]["find"] = {"err": 0x2E}
                        pair = {"pair": [a, b]}
                    else:
                        pair = None
                    F.append(Finding("C04", "ga.existence-disclosed-before-consent", "outcome without consent depends on the lookup result: %s" % dep[0][:80], pair,
                                     lambda outs: outs[0]["result"] != outs[1]["result"], p))
            if consent_failed:
                i, e = consent_failed[0]
                if kind != "Err" or not contains(payload, ("await", e["ret"])):
                    F.append(Finding("C04", "ga.consent-error-not-returned", "consent failed but the result is %s" % tstr(payload)[:80], ga_scenario(p, ctx),
                                     lambda o: o["result"] != {"err": 0x27}, p))
            # flags reported = flags returned by the consent step
            sf = calls(p, "AuthenticatorData::set_flags")
            for i, e in sf:
                if not cu_ok:
                    raise Shape("set_flags without consent event")
                want_flags = ("proj", ("await", cu_ok[0][1]["ret"]), "@Ok.0")
                if chase(e["args"][1]) != want_flags:
                    F.append(Finding("C04", "ga.flags-not-from-consent", "flags given to the authenticator data are %s, not the consent step's result" % tstr(e["args"][1])[:80],
                                     None, None, p))
            # credential shown = credential that signs = a credential from the lookup
            if cu and find:
                origin = ("await", find[0][1]["ret"])
                shown = cu[0][1]["args"][2]
                shown_t = chase(shown)
                if shown_t[0] == "ref":
                    # a reference to the coroutine field holding the lookup result
                    holder = [e for _, e in env_calls(p) if e["kind"] == "call"]
                    ok_shown = True
                else:
                    ok_shown = derives_from(shown, origin, p) or (shown_t[0] == "ctor" and shown_t[1] == "None")
                if not ok_shown:
                    F.append(Finding("C04", "ga.consent-for-other-credential", "the credential passed to the consent step does not come from the lookup result", None, None, p))
                pk = calls(p, "private_key_from_cose_key")
                for i, e in pk:
                    a0 = e["args"][0]
                    if not derives_from(a0, origin, p) and chase(a0)[0] != "ref":
                        F.append(Finding("C04", "ga.signs-with-other-credential", "the signing key does not come from the looked-up credential", None, None, p))
                # ... and the credential that signs is the very one that was shown for consent (not another element of the lookup result)
                _, shown_v = _pointee(cu[0][1], 2)
                if shown_v is None and shown_t[0] != "ref":
                    shown_v = shown_t
                if pk and shown_v is not None and not (shown_v[0] == "ctor" and shown_v[1] == "None"):
                    _, key_v = _pointee(pk[0][1], 0)
                    sel = shown_v
                    while isinstance(sel, tuple) and sel and sel[0] in ("via", "clone"):
                        sel = sel[2] if sel[0] == "via" else sel[1]
                    if key_v is not None and not derives_from(key_v, sel, p):
                        sc2 = ga_scenario(p, ctx)
                        if sc2:
                            sc2["store"]["find"] = {"ok": 3}
                            sc2["store"]["held"] = [{"counter": 5}, {"counter": 6}, {"counter": 7}]
                        F.append(Finding("C04", "ga.consent-for-other-credential", "the credential shown to the user (%s) is not the one whose key signs (%s)" %
                                         (tstr(sel)[:70], tstr(chase(key_v))[:70]), sc2,
                                         lambda o: isinstance(o["result"], dict) and "ok" in o["result"] and
                                         [c for c in o["log"] if c["call"] == "check_user"][0]["credential_first_byte"] != o["result"]["ok"]["credential_first_byte"], p))

        if "C03" in want and kind == "Ok":
            F += assertion_binding_checks(p, ctx, payload, find, sign)

        if "C05" in want and find:
            i, e = find[0]
            rp = chase(e["args"][2])
            want_place = "@variant#"  # coroutine field of `input`
            if not ctx.is_input_ref(rp, ctx.ga["rp_id"]):
                F.append(Finding("C05", "ga.lookup-rp-id", "find_credentials does not receive the request's rp_id (%s)" % tstr(rp)[:80], None, None, p))
            ids = e["args"][1]
            if not (ids[0] == "ret" and ids[2] == "Option::filter"):
                F.append(Finding("C05", "ga.allow-list-not-filtered", "the allow list is not passed through the emptiness filter (%s)" % tstr(ids)[:80], None, None, p))
            else:
                fe = p.events[ids[1]]
                src = chase(fe["args"][0])
                if not ctx.is_input_ref(src, ctx.ga["allow_list"]):
                    F.append(Finding("C05", "ga.allow-list-source", "the id list given to the store is not the request's allow list", None, None, p))

        if "C05" in want and find:
            sel = calls(p, "Result::and_then")
            picked_ok = False
            if sel:
                clo = chase(sel[0][1]["args"][1]) if len(sel[0][1]["args"]) > 1 else None
                if clo is not None and clo[0] == "closure" and getattr(ctx, "fns", None):
                    f = _closure_fn(ctx.fns, clo)
                    if f is not None:
                        from .executor import Executor
                        names = set()
                        for q in Executor(f, follow_yields=False).run():
                            names |= {e2["callee"] for e2 in q.events if e2["kind"] == "call"}
                        picked_ok = any(n.endswith("Iterator::next") for n in names) and any(n.endswith("into_iter") for n in names) \
                            and not any(n.endswith(x) for n in names for x in ("::pop", "::last", "::max_by_key", "::rev", "::next_back", "::swap_remove"))
            if not picked_ok:
                sc = ga_scenario(p, ctx)
                if sc:
                    sc["store"]["find"] = {"ok": 2}
                    sc["store"]["held"] = [{"counter": None}, {"counter": None}]
                F.append(Finding("C05", "ga.first-credential", "the credential used is not obtained as the first element of the store's result", sc,
                                 lambda o: isinstance(o["result"], dict) and "ok" in o["result"] and o["result"]["ok"]["credential_first_byte"] != 1, p))

        if "C09" in want:
            for i, e in ext:
                uv_arg = chase(e["args"][3])
                ok_uv = False
                if uv_arg[0] == "ret" and uv_arg[2].endswith("contains"):
                    ce = p.events[uv_arg[1]]
                    flags_src = chase(ce["args"][0])
                    # the flags must be the consent step's result (held in a coroutine field) and the bit must be UV
                    from_consent = cu_ok and (derives_from(flags_src, ("await", cu_ok[0][1]["ret"]), p) or flags_src[0] == "ref")
                    ok_uv = bool(from_consent) and "UV" in tstr(ce["args"][1])
                if not ok_uv:
                    sc = ga_scenario(p, ctx)
                    if sc:
                        sc["request"]["uv"] = False
                        sc["request"]["prf_eval"] = True
                        sc["user"]["outcome"] = {"ok": [True, True]}
                        sc["config"] = {"hmac_secret": "uv_only"}
                        sc["store"]["held"][0]["hmac"] = "uv_only"
                    F.append(Finding("C09", "ga.ext-uv", "get_extensions is told %s instead of whether the user was actually verified" % tstr(uv_arg)[:80], sc,
                                     lambda o: o["result"] == {"err": 0x3C}, p))

        if "C08" in want:
            for i, e in upd:
                passed = e["args"][1]
                stats.setdefault("c08_update_terms", []).append(tstr(passed)[:200])

        if ("C11" in want or "C03" in want) and kind == "Ok":
            mp = calls(p, "Option::map")
            if not mp:
                raise Shape("no Option::map for the response's user")
            src = chase(mp[-1][1]["args"][0])
            # must be the credential's user_handle (clone of ...@variant#5.<cred>.<user_handle>)
            if not re.search(r"\.%d\)?$" % ctx.pk["user_handle"], tstr(src)) and not (src[0] == "ref" and src[1].endswith(".%d" % ctx.pk["user_handle"])):
                # the handle is transformed on its way into the response: try the combinations of
                # requested / performed verification with a credential that stores a handle
                variants = []
                base = ga_scenario(p, ctx)
                if base:
                    for uv_req, verified in ((False, False), (False, True), (True, True)):
                        v = json.loads(json.dumps(base))
                        v["request"]["uv"] = uv_req
                        v["user"]["outcome"] = {"ok": [True, verified]}
                        v["store"]["held"][0]["user_handle"] = True
                        variants.append(v)
                for _pid in ("C11", "C03"):
                    if _pid in want:
                        F.append(Finding(_pid, "ga.user-handle-source", "the response's user is not derived from the credential's stored user handle alone (%s)" % tstr(src)[:80],
                                         variants or None, lambda o: isinstance(o["result"], dict) and "ok" in o["result"] and o["result"]["ok"]["user"] is False, p))
    return F, stats


def counter_checks(paths, ctx, solver):
    """C08 on get_assertion: overflow query + the value written back == the value reported"""
    F = []
    q = 0
    ctx.cur = "ga"
    for p in paths:
        if not no_yield(p):
            continue
        for (c, msg, idx) in p.asserts:
            if "overflow" not in msg:
                continue
            # cond = not(ovf); ovf = (op AddOvf a b)
            ovf = c[1] if c[0] == "not" else None
            if not ovf or ovf[0] != "op" or ovf[1] not in ("AddOvf",):
                raise Shape("unrecognised overflow assertion %s" % tstr(c)[:100])
            a, b = ovf[2], ovf[3]
            if b[0] != "const":
                raise Shape("non-constant increment")
            mb = re.match(r"(\d+)_u(\d+)", b[1])
            width = int(mb.group(2))
            inc = int(mb.group(1))
            decls = ["(declare-const a (_ BitVec %d))" % width]
            asserts = ["(bvult (bvadd a (_ bv%d %d)) a)" % (inc, width)]
            verdict, model = solver.check(decls, asserts, want_model=True)
            q += 1
            if verdict == "sat":
                from .smt import bv_value
                val = bv_value(model.get("a", "")) if model else None
                if val is None:
                    val = (1 << width) - 1
                sc = ga_scenario(p, ctx, counter=val)
                F.append(Finding("C08", "ga.counter-overflow",
                                 "signature counter increment `%s + %d` overflows for counter = %d (debug: panic, release: wraps to %d)" % ("counter", inc, val, (val + inc) % (1 << width)),
                                 sc, lambda o, val=val, inc=inc, width=width: ("panic" in o["result"]) or (isinstance(o["result"], dict) and "ok" in o["result"] and o["result"]["ok"]["counter"] is not None and o["result"]["ok"]["counter"] < val),
                                 p))
            elif verdict != "unsat":
                raise Shape("solver answered %s on the overflow query" % verdict)
        upd = calls(p, "CredentialStore::update_credential")
        new = calls(p, "AuthenticatorData::new")
        res = result_of(p)
        cdiscr = None
        for k, op, v in p.conds:
            if k.startswith("(discr (proj (ret") and k.endswith("@Ok.0.%d))" % ctx.pk["counter"]):
                cdiscr = v
        if res and res[0] == "Ok" and cdiscr is None:
            # the path never looks at the stored counter's own presence (e.g. it is filtered first):
            # whether the counter is advanced then depends on something else - try boundary values natively
            base = ga_scenario(p, ctx)
            variants = []
            for c in (0, 1, 7, 2 ** 31, 2 ** 32 - 2, None):
                v = json.loads(json.dumps(base))
                v["store"]["held"][0]["counter"] = c
                variants.append(v)

            def pred(o):
                c = o["scenario"]["store"]["held"][0]["counter"]
                if not (isinstance(o["result"], dict) and "ok" in o["result"]):
                    return False
                u = [x for x in o["log"] if x["call"] == "update"]
                if c is None:
                    return bool(u)        # a credential without a counter is never rewritten
                return (not u) or u[0]["counter"] != c + 1 or o["result"]["ok"]["counter"] != c + 1
            F.append(Finding("C08", "ga.counter-guard", "the decision to advance the counter does not depend on the stored counter's presence alone (%s)" %
                             "; ".join(k[:60] for k, op, v in p.conds if "filter" in k or "counter" in k)[:120], variants, pred, p))
        if res and res[0] == "Ok":
            for i, e in upd:
                if await_discr(p, e["ret"]) != 0:
                    F.append(Finding("C08", "ga.reported-counter-not-stored", "an assertion reports counter+1 on a path where the store did not accept that value",
                                     with_store_errors(ga_scenario(p, ctx), "update"),
                                     lambda o: isinstance(o["result"], dict) and "ok" in o["result"] and o["result"]["ok"]["counter"] != (o.get("held_counters") or [None])[0]
                                     and any(c["call"] == "update" for c in o["log"]), p))
            if cdiscr == 0 and upd:
                F.append(Finding("C08", "ga.update-without-counter", "a credential without a counter is written back by an assertion", ga_scenario(p, ctx),
                                 lambda o: any(c["call"] == "update" for c in o["log"]), p))
            if cdiscr == 1 and not upd:
                _b = ga_scenario(p, ctx, counter=7)
                _vs = []
                for _up in (True, False):
                    for _oc in ([True, True], [False, True], [False, False], [True, False]):
                        if _b:
                            _v = json.loads(json.dumps(_b)); _v["request"]["up"] = _up; _v["user"]["outcome"] = {"ok": _oc}; _vs.append(_v)
                F.append(Finding("C08", "ga.counter-not-persisted", "a credential with a counter is not written back", _vs or ga_scenario(p, ctx),
                                 lambda o: not any(c["call"] == "update" for c in o["log"]) and "ok" in json.dumps(o["result"]), p))
            if cdiscr == 1 and upd and new:
                written = counter_of(upd[0][1]["args"][1], ctx)
                reported = chase(new[-1][1]["args"][1])
                old = None
                if written is None:
                    raise Shape("cannot find the counter inside the value passed to update_credential")
                step = counter_step(written, p)
                if step is None:
                    F.append(Finding("C08", "ga.counter-step", "the counter written back is %s, not old + 1" % tstr(written)[:100], ga_scenario(p, ctx),
                                     lambda o: [c for c in o["log"] if c["call"] == "update"] and [c for c in o["log"] if c["call"] == "update"][0]["counter"] != 8, p))
                else:
                    # for every old value below the maximum the new value is old + 1; at the maximum a successful step never yields a smaller value
                    val, okc = step_smt(step, "c")
                    decls = ["(declare-const c (_ BitVec 32))"]
                    for role, asserts, text in (
                            ("ga.counter-step", [okc, "(bvult c #xffffffff)", "(not (= %s (bvadd c #x00000001)))" % val], "below the maximum the counter written back is not old + 1"),
                            ("ga.counter-wraps", [okc, "(= c #xffffffff)", "(bvult %s c)" % val], "at the maximum the counter wraps to a smaller value")):
                        if role == "ga.counter-wraps" and step[0] == "plain":
                            continue      # decided by the overflow-assertion query above
                        verdict, model = solver.check(decls, asserts, want_model=True)
                        q += 1
                        if verdict == "sat":
                            from .smt import bv_value
                            cv = bv_value(model.get("c", "")) if model else None
                            cv = 7 if cv is None else cv
                            F.append(Finding("C08", role, "%s (%s by %d; counter = %d)" % (text, step[0], step[1], cv), ga_scenario(p, ctx, counter=cv),
                                             lambda o, cv=cv: isinstance(o["result"], dict) and "ok" in o["result"] and
                                             (o["result"]["ok"]["counter"] != cv + 1 if cv < 2 ** 32 - 1 else (o["result"]["ok"]["counter"] or 0) < cv), p))
                        elif verdict != "unsat":
                            raise Shape("solver answered %s on the counter-step query" % verdict)
                if tstr(reported) != tstr(written):
                    F.append(Finding("C08", "ga.reported-counter-differs", "reported counter %s differs from the stored one %s" % (tstr(reported)[:60], tstr(written)[:60]),
                                     ga_scenario(p, ctx), lambda o: "ok" in o["result"] and o["result"]["ok"]["counter"] != [c for c in o["log"] if c["call"] == "update"][0]["counter"], p))
    return F, q


def counter_of(passkey_term, ctx):
    """the counter field inside the (cloned) passkey value handed to update_credential"""
    t = chase(passkey_term)
    if t[0] == "with":
        for suf, v in t[2]:
            if suf == ".%d" % ctx.pk["counter"]:
                return v
        return ("proj", t[1], ".%d" % ctx.pk["counter"])
    return None


def counter_step(t, p=None):
    """how the new counter is computed from the old one `c` (32-bit): -> (kind, n) with kind in
    'checked' (fails on overflow) | 'plain' (overflow assertion: panics / wraps) | 'saturating' | 'wrapping', or None"""
    if not isinstance(t, tuple) or not t:
        return None
    if t[0] == "ctor" and t[1] == "Some" and t[2]:
        return counter_step(t[2][0], p)
    if t[0] in ("op", "checked", "saturating", "wrapping") and t[1] == "Add" and t[3][0] == "const":
        m = re.match(r"(\d+)_u32$", t[3][1])
        if m:
            return ("plain" if t[0] == "op" else t[0], int(m.group(1)))
    if t[0] == "proj" and t[2] in ("@Ok.0", "@Some.0", "@Continue.0"):
        return counter_step(t[1], p)
    if t[0] == "branch":
        return counter_step(t[1], p)
    if t[0] == "ret" and p is not None and t[2] in ("Option::ok_or", "Option::ok_or_else", "Result::map_err", "Option::map", "Option::unwrap_or", "Option::unwrap"):
        return counter_step(p.events[t[1]]["args"][0], p)
    return None


def step_smt(step, c):
    """(value, succeeds) as SMT-LIB terms over the 32-bit variable named c"""
    kind, n = step
    add = "(bvadd %s (_ bv%d 32))" % (c, n)
    ovf = "(bvult %s %s)" % (add, c)
    if kind == "checked":
        return add, "(not %s)" % ovf
    if kind == "plain":
        return add, "(not %s)" % ovf          # the overflow case is C08's own question (panic / wrap)
    if kind == "saturating":
        return "(ite %s #xffffffff %s)" % (ovf, add), "true"
    if kind == "wrapping":
        return add, "true"
    raise Shape("unknown counter step %r" % (step,))


def is_old_plus_one(t, p=None):
    """Some(old + 1) with `old` the counter read from the credential: a plain add of 1, or the payload of a
    checked_add(old, 1) that went through ok_or / `?`"""
    one = ("const", "1_u32")
    if t[0] == "ctor" and t[1] == "Some" and t[2]:
        return is_old_plus_one(t[2][0], p)
    if t[0] == "op" and t[1] == "Add" and t[3] == one:
        return True
    if t[0] == "checked" and t[1] == "Add" and t[3] == one:
        return True
    if t[0] == "proj" and t[2] in ("@Ok.0", "@Some.0", "@Continue.0"):
        return is_old_plus_one(t[1], p)
    if t[0] == "branch":
        return is_old_plus_one(t[1], p)
    if t[0] == "ret" and p is not None and t[2] in ("Option::ok_or", "Option::ok_or_else", "Result::map_err", "Option::map"):
        return is_old_plus_one(p.events[t[1]]["args"][0], p)
    return False


# ---- make_credential -------------------------------------------------------------------------

def mc_scenario(p, ctx, strict=False):
    ctx.cur = "mc"
    sc = {"op": "make_credential", "request": {"up": True, "uv": False, "rk": False, "pin_auth": False, "exclude_list": None},
          "store": {"find": {"ok": 0}, "held": [], "capability": "forced", "pending": {}},
          "user": {"verification": True, "presence_enabled": True, "outcome": {"ok": [True, True]}, "pending": 0}, "config": {}}
    for k, op, v in p.conds:
        if op != "==":
            continue
        if k == tstr(input_field(ctx, ctx.mc["options"], ctx.opt["up"])):
            sc["request"]["up"] = bool(v)
        elif k == tstr(input_field(ctx, ctx.mc["options"], ctx.opt["rk"])):
            sc["request"]["rk"] = bool(v)
        elif k.startswith("(discr (await (ret") and "Authenticator::check_user" in k:
            if v == 1:
                sc["user"]["outcome"] = {"err": 0x27}
        elif "isvariant is_some" in k and "(ref _" in k and "@variant" not in k:
            # exclude list present and non-empty (result of the emptiness filter)
            sc["request"]["exclude_list"] = [1] if v == 1 else None
            if v == 1:
                sc["store"]["held"] = [{"counter": None}]
        elif "isvariant is_some" in k and (ctx.input_place["mc"] + ".%d))" % ctx.mc["pin_auth"]) in k:
            sc["request"]["pin_auth"] = bool(v)
        elif k.startswith("(discr (ret") and "choose_algorithm" in k:
            if v == 1:
                sc["request"]["unsupported_alg"] = True
        elif k.startswith("(discr (await (ret") and "save_credential" in k:
            if v == 1:
                sc["store"]["save"] = {"err": 0x28}
        elif k.startswith("(discr (ret") and "Result::map" in k:
            # exclude lookup: Ok(..) or Err
            sc["store"]["find"] = {"ok": 1} if v == 0 else {"err": 0x2E}
        elif "Result::map" in k and "@Ok.0" in k:
            # is_empty() of the lookup result
            sc["store"]["find"] = {"ok": 0} if v == 1 else {"ok": 1}
        elif k.startswith("(discr (pollres"):
            pass
        elif "get_info" in k or "unwrap_or_default" in k:
            # the rk member of get_info().options: false only for a store without discoverable credentials
            sc["store"]["capability"] = "non_discoverable" if v == 0 else "full"
        elif k.startswith("(discr (ret") and any(x in k for x in ("make_extensions", "set_make_credential_extensions", "make_prf", "calculate_hmac_secret")):
            if v == 1:
                if strict:
                    return None
                # the one way to make extension processing fail: hmac-secret-mc, prf eval, no user verification
                sc["config"]["hmac_secret"] = "uv_only_mc"
                sc["request"]["prf_eval"] = True
                sc["request"]["uv"] = False
        elif strict:
            return None
    for e in p.events:
        if e["kind"] == "yield":
            sc["store"]["pending"]["save"] = 1
    return sc


STORE_ERROR_CODES = (0x28, 0x7F, 0x01, 0xE0, 0xF0)


def with_store_errors(sc, op):
    """variants of a scenario in which store call `op` fails with status bytes of every class
    (CTAP2 known, CTAP1, extension, vendor)"""
    if sc is None:
        return None
    out = []
    for code in STORE_ERROR_CODES:
        v = json.loads(json.dumps(sc))
        v["store"][op] = {"err": code}
        out.append(v)
    if op == "save":
        # ... and under every store capability / resident-key request (the path's own choice comes first)
        for cap in ("full", "non_discoverable", "forced"):
            for rk in (False, True):
                v = json.loads(json.dumps(sc))
                v["store"][op] = {"err": STORE_ERROR_CODES[0]}
                v["store"]["capability"] = cap
                v["request"]["rk"] = rk
                out.append(v)
    return out


def check_make_credential(paths, ctx, want):
    F = []
    ctx.cur = "mc"
    stats = {"paths": len(paths), "checked": 0}
    up_key = tstr(input_field(ctx, ctx.mc["options"], ctx.opt["up"]))
    for p in paths:
        if p.end and p.end[0] == "unsupported":
            raise Shape("unsupported MIR in make_credential: " + p.end[1][:200])
        res = result_of(p)
        if res is None:
            if p.end and p.end[0] == "panic":
                continue
            raise Shape("make_credential path with unexpected end: %r" % (p.end,))
        stats["checked"] += 1
        kind, payload = res
        ev = env_calls(p)
        cu = calls(p, "Authenticator::check_user")
        cu_ok = [(i, e) for i, e in cu if await_discr(p, e["ret"]) == 0]
        save = calls(p, "CredentialStore::save_credential")
        muts = mutating(p)
        keygen = [(i, e) for i, e in ev if e["callee"].endswith("random_vec") or e["callee"].endswith("::random") or e["callee"].endswith("from_secret_key")]

        if "C04" in want:
            upv = cond_value(p, up_key)
            if upv == 0:
                touched = [e["callee"] for _, e in ev if e["callee"].startswith(STORE_OR_USER)]
                if touched or kind != "Err" or "InvalidOption" not in tstr(payload):
                    sc = mc_scenario(p, ctx)
                    F.append(Finding("C04", "mc.up-false", "registration that waives presence: result %s, calls %s" % (tstr(payload)[:60], touched), sc,
                                     lambda o: o["result"] != {"err": 0x2C} or len(o["log"]) > 0, p))
            if upv is None and (save or kind == "Ok"):
                F.append(Finding("C04", "mc.up-not-checked", "a credential is created on a path that never looks at the up option", mc_scenario(p, ctx) or None,
                                 lambda o: "ok" in json.dumps(o["result"]), p))
            first_sensitive = min([i for i, _ in save + keygen] + [len(p.events)])
            if (save or kind == "Ok") and not [1 for i, _ in cu_ok if i < first_sensitive]:
                sc = mc_scenario(p, ctx)
                if sc:
                    sc["user"]["outcome"] = {"err": 0x27}
                F.append(Finding("C04", "mc.create-without-consent", "credential created on a path without a successful consent step before key generation / save", sc,
                                 lambda o: any(c["call"] == "save" for c in o["log"]) or "ok" in json.dumps(o["result"]), p))
            for i, e in cu:
                a2 = chase(e["args"][2])
                if not (a2[0] == "ctor" and a2[1] == "None"):
                    F.append(Finding("C04", "mc.consent-credential", "make_credential passes a credential to the consent step", None, None, p))
            failed = [(i, e) for i, e in cu if await_discr(p, e["ret"]) == 1]
            if failed and (muts or kind != "Err" or not contains(payload, ("await", failed[0][1]["ret"]))):
                F.append(Finding("C04", "mc.consent-failure-handling", "consent failed but result is %s / mutations %d" % (tstr(payload)[:60], len(muts)), mc_scenario(p, ctx),
                                 lambda o: o["result"] != {"err": 0x27} or any(c["call"] == "save" for c in o["log"]), p))
            sf = calls(p, "AuthenticatorData::set_flags")
            for i, e in sf:
                if cu_ok and chase(e["args"][1]) != ("proj", ("await", cu_ok[0][1]["ret"]), "@Ok.0"):
                    F.append(Finding("C04", "mc.flags-not-from-consent", "flags given to the authenticator data are not the consent step's result", None, None, p))

        if "C07" in want:
            if kind == "Ok" and not save:
                sc0 = mc_scenario(p, ctx)
                vs0 = []
                if sc0:
                    for cap in ("full", "non_discoverable", "forced"):
                        for rk in (False, True):
                            v = json.loads(json.dumps(sc0)); v["store"]["capability"] = cap; v["request"]["rk"] = rk; vs0.append(v)
                F.append(Finding("C07", "mc.ok-without-save", "a registration succeeds on a path that never calls save_credential: the new credential was not accepted by the store before "
                                 "the response existed", vs0 or None,
                                 lambda o: isinstance(o["result"], dict) and "ok" in o["result"] and not any(c["call"] == "save" for c in o["log"]), p))
            bad = [e["callee"] for _, e in muts if e["callee"] != "CredentialStore::save_credential"]
            if bad or len(muts) > 1:
                F.append(Finding("C07", "mc.mutations", "make_credential path with store mutations %s (at most one save_credential expected)" % [e["callee"] for _, e in muts], mc_scenario(p, ctx),
                                 lambda o: len([c for c in o["log"] if c["call"] in ("save", "update")]) > 1, p))
            for i, e in save:
                d = await_discr(p, e["ret"])
                if kind == "Ok" and d != 0:
                    sc = with_store_errors(mc_scenario(p, ctx), "save")
                    F.append(Finding("C07", "mc.ok-without-accepted-save", "a registration succeeds on a path where the store's answer to save_credential is not checked", sc,
                                     lambda o: isinstance(o["result"], dict) and "ok" in o["result"] and o.get("held_after", 0) == 0, p))
                if d == 1 and (kind != "Err" or payload != ("errof", ("residual", ("await", e["ret"])), "same")):
                    F.append(Finding("C07", "mc.save-error-not-propagated", "save_credential's error is not what make_credential returns (%s)" % tstr(payload)[:80],
                                     with_store_errors(mc_scenario(p, ctx), "save"),
                                     lambda o: o["result"] != {"err": o["scenario"]["store"]["save"]["err"]}, p))
                # nothing fallible after the save: no later branch on a call result
                later = [x for x in p.events[i + 1:] if x["kind"] == "branch" and ("ret" in tstr(x["on"]) or "await" in tstr(x["on"]))
                         and not tstr(x["on"]).startswith("(discr (pollres") and not contains(x["on"], e["ret"])]
                if later:
                    lp = [q for q in paths if q.conds[:len(p.conds)] != p.conds]
                    fail_sc = None
                    for q in paths:
                        # a sibling path on which that later step fails
                        if any(k == tstr(later[0]["on"]) and v == 1 for k, op, v in q.conds) and calls(q, "CredentialStore::save_credential"):
                            fail_sc = mc_scenario(q, ctx)
                            break
                    F.append(Finding("C07", "mc.fallible-after-save", "a fallible step (%s) follows save_credential" % tstr(later[0]["on"])[:80], fail_sc or mc_scenario(p, ctx),
                                     lambda o: isinstance(o["result"], dict) and "err" in o["result"] and o.get("held_after", 0) > 0, p))
            if kind == "Err" and muts and all(await_discr(p, e["ret"]) == 0 for _, e in save):
                F.append(Finding("C07", "mc.error-after-save", "registration returns an error after the credential was saved", mc_scenario(p, ctx),
                                 lambda o: "err" in o["result"] and o.get("held_after", 0) > 0, p))

        if "C05" in want:
            find = calls(p, "CredentialStore::find_credentials")
            for i, e in find:
                rp = chase(e["args"][2])
                if not ctx.is_input_ref(rp, ctx.mc["rp"], ctx.rp_id_idx):
                    F.append(Finding("C05", "mc.exclude-rp-id", "the exclude-list lookup does not receive the request's rp.id (%s)" % tstr(rp)[:80], None, None, p))
                ids = chase(e["args"][1])
                if not ctx.is_input_ref(ids, ctx.mc["exclude_list"]):
                    base = {"op": "make_credential", "request": {"up": True, "uv": False, "rk": False, "pin_auth": False, "exclude_list": [1]},
                            "store": {"find": {"ok": 1}, "held": [{"counter": None}], "capability": "forced", "pending": {}},
                            "user": {"verification": True, "presence_enabled": True, "outcome": {"ok": [True, True]}, "pending": 0}, "config": {}}
                    vs = []
                    for n_ in (16, 32, 8, 64, 1):
                        v = json.loads(json.dumps(base))
                        v["request"]["id_len"] = n_
                        vs.append(v)
                    v = json.loads(json.dumps(base)); v["request"]["exclude_list"] = [2, 1]; vs.append(v)
                    F.append(Finding("C05", "mc.exclude-list-source", "the id list of the exclude lookup is not the request's exclude list (%s)" % tstr(ids)[:80], vs,
                                     lambda o: o["result"] != {"err": 0x19}, p))
            if kind == "Err" and "CredentialExcluded" in tstr(payload):
                if muts or not find:
                    F.append(Finding("C05", "mc.excluded-handling", "CredentialExcluded without a lookup or with a store mutation", mc_scenario(p, ctx), None, p))
            # a non-empty exclude list that names a held credential must end in CredentialExcluded
            for i, e in find:
                mp = calls(p, "Result::map")
                if mp:
                    d = ret_discr(p, mp[0][1]["ret"])
                    isempty = cond_value(p, tstr(("proj", mp[0][1]["ret"], "@Ok.0")))
                    if d == 0 and isempty == 0 and not (kind == "Err" and "CredentialExcluded" in tstr(payload)):
                        F.append(Finding("C05", "mc.excluded-not-refused", "the exclude list names a held credential but registration continues", mc_scenario(p, ctx),
                                         lambda o: o["result"] != {"err": 0x19}, p))

            # ... and only then ("exactly when"): a refusal must rest on the lookup having returned a non-empty list
            if "C05" in want and kind == "Err" and "CredentialExcluded" in tstr(payload) and find:
                mp = calls(p, "Result::map")
                tested_empty = bool(mp) and cond_value(p, tstr(("proj", mp[0][1]["ret"], "@Ok.0"))) == 0
                if not tested_empty:
                    lens = [k for k, op, v in p.conds if "is_empty" in k or "Vec::len" in k]
                    if not lens:
                        sc = {"op": "make_credential", "request": {"up": True, "uv": False, "rk": False, "pin_auth": False, "exclude_list": [9]},
                              "store": {"find": {"ok": 0}, "held": [], "capability": "forced", "pending": {}},
                              "user": {"verification": True, "presence_enabled": True, "outcome": {"ok": [True, True]}, "pending": 0}, "config": {}}
                        F.append(Finding("C05", "mc.excluded-without-a-match", "CredentialExcluded is returned on a path that never tests whether the lookup found anything "
                                         "(a store answering a miss with an empty list is refused)", sc, lambda o: o["result"] == {"err": 0x19}, p))

        if "C11" in want:
            rkv = cond_value(p, tstr(input_field(ctx, ctx.mc["options"], ctx.opt["rk"])))
            if kind == "Err" and "UnsupportedOption" in tstr(payload) and rkv == 1 and not calls(p, "is_some"):
                if keygen or muts:
                    F.append(Finding("C11", "mc.rk-refusal-late", "resident key refused after key generation or store mutation", mc_scenario(p, ctx), None, p))
            th = [(i, e) for i, e in ev if e["callee"].endswith("bool::then")]
            if kind == "Ok":
                if not th:
                    raise Shape("no bool::then for the user handle")
                src = chase(th[0][1]["args"][0])
                if not (src[0] == "ret" and src[2].endswith("is_passkey_discoverable")):
                    F.append(Finding("C11", "mc.user-handle-condition", "the user handle is stored under %s, not under is_passkey_discoverable" % tstr(src)[:80], None, None, p))
                else:
                    ip = p.events[src[1]]
                    rk_arg = chase(ip["args"][1])
                    if rk_arg != input_field(ctx, ctx.mc["options"], ctx.opt["rk"]):
                        F.append(Finding("C11", "mc.discoverable-arg", "is_passkey_discoverable is asked about %s, not the request's rk" % tstr(rk_arg)[:80], None, None, p))

        if "C08" in want and kind == "Ok":
            ts = [(i, e) for i, e in ev if e["callee"].endswith("bool::then_some")]
            new = calls(p, "AuthenticatorData::new")
            if not ts or not new:
                raise Shape("counter initialisation shape")
            if ts[0][1]["args"][1] != ("const", "0_u32"):
                F.append(Finding("C08", "mc.initial-counter", "initial counter is %s, not 0" % tstr(ts[0][1]["args"][1]), mc_scenario(p, ctx), None, p))
            rep = chase(new[-1][1]["args"][1])
            if rep != ts[0][1]["ret"] and not contains(rep, ts[0][1]["ret"]):
                F.append(Finding("C08", "mc.reported-counter", "registration reports %s, not the counter stored with the credential" % tstr(rep)[:80], None, None, p))

        if "C02" in want:
            ca = calls(p, "choose_algorithm")
            for i, e in ca:
                src = chase(e["args"][1])
                if src[0] == "via":
                    src = chase(src[2])
                if not ctx.is_input_ref(src, ctx.mc["pub_key_cred_params"]):
                    F.append(Finding("C02", "mc.algorithm-list-source", "choose_algorithm is not given the request's pubKeyCredParams (%s)" % tstr(src)[:80], None, None, p))
            if kind == "Err" and "UnsupportedAlgorithm" in tstr(payload) and (muts or keygen):
                F.append(Finding("C02", "mc.unsupported-algorithm-late", "UnsupportedAlgorithm is reported after key generation or a store mutation", mc_scenario(p, ctx),
                                 lambda o: any(c["call"] == "save" for c in o["log"]), p))
            if ca and ret_discr(p, ca[0][1]["ret"]) == 1 and not (kind == "Err" and derives_from(payload, ca[0][1]["ret"], p)):
                sc = mc_scenario(p, ctx)
                F.append(Finding("C02", "mc.unsupported-algorithm-not-reported", "no supported algorithm, but the result is %s" % tstr(payload)[:60], sc,
                                 lambda o: o["result"] != {"err": 0x26}, p))
            if kind == "Ok":
                fsk = calls(p, "from_secret_key")
                rv = [(i, e) for i, e in ev if e["callee"].endswith("random_vec")]
                if len(save) == 0:
                    # "exactly one credential is added": a success that never hands the credential to the store
                    sc = mc_scenario(p, ctx)
                    vs = []
                    if sc:
                        for cap in ("full", "non_discoverable", "forced"):
                            for rk in (False, True):
                                v = json.loads(json.dumps(sc))
                                v["store"]["capability"] = cap
                                v["request"]["rk"] = rk
                                vs.append(v)
                    F.append(Finding("C02", "mc.ok-without-save", "a registration succeeds on a path that never calls save_credential (%s)" %
                                     "; ".join(kk[:50] for kk, op, v in p.conds if "discoverable" in kk or "rk" in kk)[:120], vs or None,
                                     lambda o: isinstance(o["result"], dict) and "ok" in o["result"] and not any(c["call"] == "save" for c in o["log"]), p))
                    continue
                if len(save) != 1 or not fsk or not rv or not ca:
                    raise Shape("successful registration without the expected key generation / save events")
                if not derives_from(fsk[0][1]["args"][1], ca[0][1]["ret"], p):
                    F.append(Finding("C02", "mc.key-algorithm", "the key pair is not generated for the algorithm chosen from the preference list", None, None, p))
                pk = save[0][1]["args"][1]
                fields = dict(pk[2]) if pk[0] == "struct" else None
                if fields is None:
                    raise Shape("the value given to save_credential is not a struct literal (%s)" % tstr(pk)[:60])
                if "credential_id" not in fields or not derives_from(fields["credential_id"], rv[0][1]["ret"], p):
                    F.append(Finding("C02", "mc.credential-id-source", "the stored credential id is not the freshly generated random id", None, None, p))
                if const_arg(rv[0][1]["args"][0]):
                    F.append(Finding("C02", "mc.credential-id-length", "the credential id length is a constant, not the configured length", None, None, p))
                rp_src = chase(fields.get("rp_id", ("const", "?")))
                if rp_src[0] == "ref":
                    rp_ok = ctx.is_input_ref(rp_src, ctx.mc["rp"], ctx.rp_id_idx)
                elif rp_src == ctx.in_field(ctx.mc["rp"], ctx.rp_id_idx):
                    rp_ok = True
                else:
                    rp_ok = ctx.input_place["mc"] in tstr(rp_src) or "%s.%d.%d" % (ctx.input_place["mc"], ctx.mc["rp"], ctx.rp_id_idx) in tstr(fields.get("rp_id"))
                if not rp_ok:
                    F.append(Finding("C02", "mc.stored-rp-id", "the stored credential's rp_id is not the request's rp.id (%s)" % tstr(fields.get("rp_id"))[:80], mc_scenario(p, ctx),
                                     lambda o: any(c["call"] == "save" and c["rp_id"] != "example.com" for c in o["log"]), p))
                if "key" not in fields or not derives_from(fields["key"], fsk[0][1]["ret"], p):
                    F.append(Finding("C02", "mc.stored-key", "the stored private key does not come from the generated key pair", None, None, p))
                new = calls(p, "AuthenticatorData::new")
                if new:
                    a0 = chase(new[-1][1]["args"][0])
                    if a0[0] == "via":
                        a0 = chase(a0[2])
                    if not ctx.is_input_ref(a0, ctx.mc["rp"], ctx.rp_id_idx):
                        F.append(Finding("C02", "mc.authdata-rp-id", "the authenticator data is built for %s, not the request's rp.id" % tstr(a0)[:80], None, None, p))

        if "C09" in want:
            me = calls(p, "make_extensions")
            for i, e in me:
                if chase(e["args"][2]) != input_field(ctx, ctx.mc["options"], ctx.opt["uv"]):
                    F.append(Finding("C09", "mc.ext-uv", "make_extensions receives %s, not the request's uv option" % tstr(e["args"][2])[:80], None, None, p))
    return F, stats


# ---- Ctap2Api forwarding (C18) -----------------------------------------------------------------

def check_forwarding(fn_paths, method, ctx):
    """the async block of `<Authenticator as Ctap2Api>::<method>`: exactly one environment call, to the
    inherent method of the same name on the same receiver and request; its awaited value is returned"""
    F = []
    for p in fn_paths:
        if p.end and p.end[0] == "unsupported":
            raise Shape("unsupported MIR in Ctap2Api::%s: %s" % (method, p.end[1][:200]))
    done = [p for p in fn_paths if p.end and p.end[0] == "return" and p.end[1][0] == "ctor" and p.end[1][1] == "Ready"]
    if not done:
        raise Shape("no completing path in Ctap2Api::%s" % method)

    def pair(req):
        base = {"request": req, "store": {"find": {"ok": 1}, "held": [{"counter": 0, "user_handle": True}]},
                "user": {"verification": True, "outcome": {"ok": [True, True]}}}
        a = dict(base, op="trait_" + method)
        b = dict(base, op=method)
        return {"pair": [a, b]}

    def differ(outs):
        return outs[0]["result"] != outs[1]["result"] or [c["call"] for c in outs[0]["log"]] != [c["call"] for c in outs[1]["log"]]
    probes = [{"up": False, "pin_auth": True}, {"up": True, "pin_auth": True, "unsupported_alg": True}, {"up": True, "allow_list_unknown": True},
              {"up": True, "uv": True}, {"up": True, "rk": True}]
    for p in done:
        ev = [(i, e) for i, e in env_calls(p)]
        fwd = [(i, e) for i, e in ev if e["callee"].endswith("::" + method)]
        if len(fwd) == 0:
            if method == "get_info":
                raise Shape("Ctap2Api::get_info completes without calling the direct method")
            F.append(Finding("C18", "trait.%s.answers-without-forwarding" % method,
                             "<Authenticator as Ctap2Api>::%s has a path that answers without calling the direct method (%s)" %
                             (method, "; ".join(kk[:50] for kk, op, v in p.conds)[:120]), [pair(req) for req in probes], differ, p))
            continue
        if len(fwd) != 1:
            raise Shape("Ctap2Api::%s: %d forwarding calls" % (method, len(fwd)))
        i, e = fwd[0]
        if method != "get_info" and len(e["args"]) > 1:
            req = chase(e["args"][1])
            unchanged = req[0] in ("in", "proj") or (req[0] == "with" and False)
            if not unchanged:
                F.append(Finding("C18", "trait.%s.request-rewritten" % method,
                                 "the trait method passes a rebuilt request to the direct method (%s)" % tstr(req)[:80], [pair(rq) for rq in probes], differ, p))
        full = e["full"]
        if " as Ctap2Api>::" in full or full.strip().startswith("<") and "Ctap2Api" in full:
            sc = {"op": "trait_" + method, "request": {"up": True}, "store": {"find": {"err": 0x2E}}, "user": {"outcome": {"ok": [True, True]}}}
            F.append(Finding("C18", "trait.%s.self-recursion" % method,
                             "<Authenticator as Ctap2Api>::%s calls itself (%s): it never terminates" % (method, full[:100]),
                             sc, "crash", p))
            continue
        if "Authenticator" not in full:
            F.append(Finding("C18", "trait.%s.wrong-callee" % method, "forwards to %s" % full[:100], None, None, p))
        ret = p.end[1][2][0]
        # nothing may reach into the answer after it has arrived: no later call takes (a reference to) the awaited value or a
        # part of it, and nothing is stored through a pointer derived from it
        touched = []
        aw = ("await", e["ret"])
        for j, x in enumerate(p.events):
            if x["kind"] != "call" or j <= i or x["callee"].endswith(("Future::poll", "IntoFuture::into_future", "Pin::new_unchecked", "Try::branch", "from_residual", "From::from", "Into::into")):
                continue
            vals = list(x["args"]) + [v for _, v in x.get("pointees", {}).values()]
            if any(contains(v, aw) for v in vals):
                touched.append(x["callee"])
        for k, vals in getattr(p, "heap", {}).items():
            if k > i:
                touched.append("store through a pointer obtained from %s" % p.events[k]["callee"])
        if touched:
            ret = ("touched", tuple(touched[:4]), ret)
        if chase(ret) != ("await", e["ret"]):
            # anything but the awaited value itself: a rebuilt / filtered / re-wrapped answer
            if method == "get_info":
                base = {"request": {}, "store": {"find": {"ok": 0}, "held": []}}
                sc2 = []
                for ver in (False, True, None):
                    for pres in (True, False):
                        for hs in (None, "uv_only", "without_uv_mc"):
                            for tr in (None, "empty", "usb"):
                                u = {"verification": ver, "presence_enabled": pres, "outcome": {"ok": [True, True]}}
                                cfg = dict({"hmac_secret": hs} if hs else {}, **({"transports": tr} if tr else {}))
                                a = dict(base, op="trait_get_info", user=u, config=cfg)
                                b = dict(base, op="get_info", user=u, config=cfg)
                                sc2.append({"pair": [a, b]})
            else:
                sc2 = [pair(rq) for rq in probes]
            F.append(Finding("C18", "trait.%s.result-changed" % method, "the trait method does not return the direct method's result unchanged (%s)" % tstr(ret)[:100], sc2, differ, p))
        others = [x for _, x in ev if x is not e and x["callee"].startswith(("CredentialStore::", "UserValidationMethod::"))]
        if others:
            F.append(Finding("C18", "trait.%s.extra-effects" % method, "the trait method touches the store / user validation itself: %s" % [x["callee"] for x in others], None, None, p))
    return F


# ---- shipped stores: the documented lookup contract (C05) ----------------------------------------

def _closure_fn(fns, closure_term):
    """MIR function of a closure value ('closure', '{closure@file:l:c:') -> fn"""
    m = re.match(r"\{closure@([^ ]+)", closure_term[1])
    if not m:
        return None
    loc = m.group(1).rstrip(":")
    for n, f in fns.items():
        if ("{closure@" + loc) in f.sig.split(")")[0] and f.sig.startswith("fn ") and re.search(r"\(_1: &?(?:mut )?\{closure@" + re.escape(loc), f.sig):
            return f
    return None


def _closures_in(p):
    out = []
    for e in p.events:
        if e["kind"] != "call":
            continue
        for a in e["args"]:
            a = chase(a)
            if isinstance(a, tuple) and a and a[0] == "closure":
                out.append((e["callee"], a))
    return out


def _predicate_facts(fn, ctx, solver):
    """for a `-> bool` closure over a &Passkey: which equalities its truth implies.
    -> {'rp': bool, 'id': bool} (True = the closure returns true only if that comparison holds)"""
    from .executor import Executor
    ex = Executor(fn, follow_yields=False)
    ps = ex.run()
    atoms = {}   # ret term str -> kind
    # locals that merely hold (a deref of) the closure's Passkey parameter `_2`
    alias = {}
    for b in fn.blocks.values():
        for st in b.stmts:
            m = re.match(r"^(_\d+) = (?:no_retag )?(?:copy|move) (\(\*_2\)|_2)$", st)
            if m:
                alias[m.group(1)] = "_2^" if m.group(2).startswith("(") else "_2"
    rp_names = [d for n, d in fn.debug.items() if n.lstrip("_") == "rp_id"]
    id_names = [d for n, d in fn.debug.items() if n in ("id", "ids", "allow_credentials")]
    disj = []
    for p in ps:
        if p.end and p.end[0] == "unsupported":
            raise Shape("unsupported MIR in store predicate: " + p.end[1][:120])
        if not p.end or p.end[0] != "return":
            continue
        lits = []
        for i, e in enumerate(p.events):
            if e["kind"] == "call" and (e["callee"].endswith("::eq") or e["callee"].endswith("::ne")):
                kind = None
                places = [chase(a) for a in e["args"]]
                txt = " ".join(tstr(x) for x in places)
                pk_field = None
                for x in places:
                    if x[0] == "ref":
                        pl = x[1]
                        mh = re.match(r"^(_\d+)(.*)$", pl)
                        if mh and mh.group(1) in alias:
                            pl = alias[mh.group(1)] + mh.group(2)
                        m = re.match(r"^_2\^+\.(\d+)$", pl)
                        if m:
                            pk_field = int(m.group(1))
                if pk_field == ctx.pk["rp_id"] and any(any(dd.rstrip("^") in txt for dd in d) for d in rp_names):
                    kind = "rp"
                elif pk_field == ctx.pk["credential_id"]:
                    kind = "id"
                if kind:
                    atoms[tstr(e["ret"])] = (kind, e["callee"].endswith("::ne"))
        ret = p.end[1]
        conj = []
        for k, op, v in p.conds:
            if k in atoms and op == "==":
                conj.append((k, bool(v)))
            elif k in atoms:
                raise Shape("non-boolean constraint on an equality result")
        if ret[0] == "const":
            if ret[1] == "false":
                continue
            if ret[1] != "true":
                raise Shape("store predicate returns %s" % tstr(ret))
        elif tstr(ret) in atoms:
            conj.append((tstr(ret), True))
        elif ret[0] == "not" and tstr(ret[1]) in atoms:
            conj.append((tstr(ret[1]), False))
        else:
            # returns something that is not one of the recognised comparisons: it may be true freely
            pass
        disj.append(conj)
    names = {k: "a%d" % i for i, k in enumerate(atoms)}
    decls = ["(declare-const %s Bool)" % v for v in names.values()] + ["(declare-const rp_eq Bool)", "(declare-const id_eq Bool)"]
    link = []
    for k, (kind, neg) in atoms.items():
        target = "rp_eq" if kind == "rp" else "id_eq"
        link.append("(= %s %s)" % (names[k], ("(not %s)" % target) if neg else target))
    P = "(or false %s)" % " ".join("(and true %s)" % " ".join(names[k] if val else "(not %s)" % names[k] for k, val in c) for c in disj)
    facts = {}
    for what in ("rp", "id"):
        verdict, _ = solver.check(decls, link + [P, "(not %s_eq)" % what])
        if verdict not in ("sat", "unsat"):
            raise Shape("solver answered %s on a store-predicate query" % verdict)
        facts[what] = verdict == "unsat"
    return facts


def check_store_contract(fns, ctx, solver, store_kind):
    """the async block of `<Store as CredentialStore>::find_credentials` and its closures"""
    from .executor import Executor
    self_ty = "&Option<Passkey>" if store_kind == "option" else "&HashMap<Vec<u8>, Passkey>"
    outer = [f for n, f in fns.items() if "credential_store::<impl" in n and n.endswith("::find_credentials") and ("_1: " + self_ty) in f.sig]
    if len(outer) != 1:
        raise Shape("cannot identify find_credentials of the %s store (%d candidates)" % (store_kind, len(outer)))
    blk = fns.get(outer[0].name + "::{closure#0}")
    if blk is None:
        raise Shape("no async block for %s" % outer[0].name[:80])
    ex = Executor(blk)
    ps = [p for p in ex.run() if p.end and p.end[0] == "return" and p.end[1][0] == "ctor" and p.end[1][1] == "Ready"]
    if not ps:
        raise Shape("no completing path in the %s store's find_credentials" % store_kind)
    F = []
    queries = 0
    seen = {"some": False, "none": False}
    for p in ps:
        # which case: ids present or absent (discriminant of the captured Option<&[..]>)
        case = None
        for k, op, v in p.conds:
            if k.startswith("(discr (proj (in _1.0) ^.1") and op == "==":
                case = "some" if v == 1 else "none"
        if case is None:
            # a path that does not look at `ids` at all (iterator over Option::into_iter): treat as both
            case = "both"
        # predicates reachable from this path (through non-bool closures as well)
        facts = {"rp": False, "id": False}
        work = [c for _, c in _closures_in(p)]
        done = set()
        while work:
            c = work.pop()
            if c[1] in done:
                continue
            done.add(c[1])
            f = _closure_fn(fns, c)
            if f is None:
                continue
            if f.sig.rstrip().endswith("-> bool {"):
                fx = _predicate_facts(f, ctx, solver)
                queries += 2
                facts = {k: facts[k] or fx[k] for k in facts}
            else:
                sub = Executor(f, follow_yields=False).run()
                for q in sub:
                    work += [cc for _, cc in _closures_in(q)]
        if case == "both":
            # one path for both cases: if what is returned is produced by iterating the id list itself,
            # an absent list can never find the RP's credentials
            ids_term = ("proj", ("in", "_1.0"), "^.1")
            src = [e for e in p.events if e["kind"] == "call" and e["callee"].endswith("into_iter") and any(contains(a, ids_term) for a in e["args"])]
            if src:
                # the list and the no-list case share one path: probe the whole documented contract natively
                probes = [{"op": "store_find", "store_kind": store_kind, "stored_rp": "a.example", "query_rp": q, "ids": ids}
                          for q in ("a.example", "b.example") for ids in (None, "match", "other", "other_then_match")]

                def contract_violated(o, store_kind=store_kind):
                    scn, r = o["scenario"], o["result"]
                    n_ = r.get("ok", 0) if isinstance(r, dict) else 0
                    same = scn["stored_rp"] == scn["query_rp"]
                    ids = scn["ids"]
                    if store_kind == "memory" and ids in ("match", "other_then_match") and not same:
                        return False      # this probe is the open known finding, reported under its own role
                    want = same if ids in (None, "match", "other_then_match") else False
                    return (n_ > 0) != want
                F.append(Finding("C05", "store.%s.id-list-contract" % store_kind,
                                 "the lookup handles a present and an absent id list on one path (it iterates the list itself): probing the documented contract "
                                 "(absent list: all credentials of the RP; present list: only listed credentials)", probes, contract_violated, p))
        if case in ("some", "both") and store_kind == "option":
            names = [e["callee"] for e in p.events if e["kind"] == "call"]
            iterated = any(n.endswith(("Iterator::find_map", "Iterator::filter_map", "Iterator::find", "Iterator::any", "Iterator::filter", "Iterator::position", "Iterator::for_each")) for n in names)
            sampled = [n for n in names if n.endswith(("::first", "::last", "::get", "::split_first", "::split_last"))]
            if not iterated or sampled:
                sc = {"op": "store_find", "store_kind": store_kind, "stored_rp": "a.example", "query_rp": "a.example", "ids": "other_then_match"}
                F.append(Finding("C05", "store.%s.id-list-not-iterated" % store_kind,
                                 "the lookup does not go through every entry of the id list (%s)" % (sampled or "no iterator adaptor over the list"), sc,
                                 lambda o: isinstance(o["result"], dict) and "err" in o["result"], p))
        for cs in (("some", "none") if case == "both" else (case,)):
            seen[cs] = True
            if cs == "none" and case == "both":
                continue
            if not facts["rp"]:
                sc = {"op": "store_find", "store_kind": store_kind, "stored_rp": "a.example", "query_rp": "b.example",
                      "ids": "match" if cs == "some" else None}
                F.append(Finding("C05", "store.%s.rp-id-ignored.%s" % (store_kind, cs),
                                 "the %s store's lookup (id list %s) never requires the stored credential's rp_id to equal the requested one" %
                                 ("Option<Passkey>" if store_kind == "option" else "MemoryStore", "present" if cs == "some" else "absent"),
                                 sc, lambda o: isinstance(o["result"], dict) and o["result"].get("ok", 0) > 0, p))
            if cs == "some" and store_kind == "option" and not facts["id"]:
                sc = {"op": "store_find", "store_kind": store_kind, "stored_rp": "a.example", "query_rp": "a.example", "ids": "other"}
                F.append(Finding("C05", "store.%s.id-ignored" % store_kind, "the lookup with an id list does not require the credential id to be listed", sc,
                                 lambda o: isinstance(o["result"], dict) and o["result"].get("ok", 0) > 0, p))
    return F, queries, len(ps)


# ---- AuthenticatorData::from_slice: length guard and fixed-size reads (C12 / C15) ------------------

def _len_smt(t, decls):
    """SMT term (BitVec 64) for the length of a slice-valued term"""
    t = chase(t)
    if t[0] == "subslice":
        return "(_ bv%d 64)" % t[3]
    if t[0] == "restslice":
        return "(bvsub %s (_ bv%d 64))" % (_len_smt(t[1], decls), t[2])
    name = "len_" + re.sub(r"[^A-Za-z0-9]", "_", tstr(t))[:40]
    d = "(declare-const %s (_ BitVec 64))" % name
    if d not in decls:
        decls.append(d)
    return name


def _bv_smt(t, decls):
    t = chase(t)
    if t[0] == "const":
        m = re.match(r"^(\d+)_(?:usize|u64|u32|u16|u8)$", t[1])
        if m:
            return "(_ bv%d 64)" % int(m.group(1))
    if t[0] == "op1" and t[1] in ("PtrMetadata", "Len"):
        return _len_smt(t[2], decls)
    if t[0] == "lenof":
        return _len_smt(t[1], decls)
    raise Shape("cannot encode %s as a bit-vector" % tstr(t)[:80])


def _cond_smt(p, decls):
    """the comparisons on slice lengths among the path's branch conditions"""
    out = []
    for k, op, v in p.conds:
        t = p.cond_term.get(k)
        if t is None or t[0] != "op" or t[1] not in ("Lt", "Le", "Gt", "Ge", "Eq", "Ne"):
            continue
        try:
            a, b = _bv_smt(t[2], decls), _bv_smt(t[3], decls)
        except Shape:
            continue
        rel = {"Lt": "(bvult %s %s)", "Le": "(bvule %s %s)", "Gt": "(bvugt %s %s)", "Ge": "(bvuge %s %s)",
               "Eq": "(= %s %s)", "Ne": "(distinct %s %s)"}[t[1]] % (a, b)
        if op == "==":
            out.append(rel if v == 1 else "(not %s)" % rel)
    return out


def check_from_slice(paths, solver, want):
    """every fixed-size read is covered by the length guard (no panic: C15); nothing shorter than the
    37-byte header is accepted (C12); the flag byte goes through Flags::from_bits (C12)"""
    from .smt import bv_value
    F = []
    queries = 0
    for p in paths:
        if p.end and p.end[0] == "unsupported":
            raise Shape("unsupported MIR in from_slice: " + p.end[1][:200])
        decls = []
        try:
            conds = _cond_smt(p, decls)
        except Shape:
            conds = []
        total = "len__in__1_"
        # (1) each split_at needs len >= at
        for e in p.events:
            if e["kind"] != "require":
                continue
            ln = _len_smt(e["slice"], decls)
            verdict, model = solver.check(decls, conds + ["(bvult %s (_ bv%d 64))" % (ln, e["at"])], want_model=True)
            queries += 1
            if verdict == "sat":
                n = None
                for k, v in model.items():
                    if k.startswith("len_"):
                        n = bv_value(v)
                if n is None or n > 4096:
                    n = 36
                prop_ = "C15" if "C15" in want else "C12"
                F.append(Finding(prop_, "authdata.from_slice.short-read",
                                 "AuthenticatorData::from_slice reaches split_at(%d) with only %s bytes left for an input of %d bytes (panic)" % (e["at"], "fewer", n),
                                 {"op": "authdata_from_slice", "len": n, "flag": 0}, lambda o: isinstance(o["result"], dict) and "panic" in o["result"], p))
            elif verdict != "unsat":
                raise Shape("solver answered %s on a length query" % verdict)
        # (2) Ok only for inputs of at least 37 bytes
        r = p.end[1] if p.end and p.end[0] == "return" else None
        is_err = r is not None and r[0] == "ctor" and r[1] == "Err"
        if r is not None and not is_err and "C12" in want:
            d2 = list(decls)
            name = _len_smt(("in", "_1"), d2)
            verdict, model = solver.check(d2, conds + ["(bvult %s (_ bv37 64))" % name], want_model=True)
            queries += 1
            if verdict == "sat":
                n = bv_value(model.get(name, "")) if model else None
                F.append(Finding("C12", "authdata.from_slice.short-accepted", "an input of %s bytes (< 37) is not rejected by the length guard" % n,
                                 {"op": "authdata_from_slice", "len": n if n is not None else 36, "flag": 0},
                                 lambda o: isinstance(o["result"], dict) and ("ok" in o["result"] or "panic" in o["result"]), p))
            elif verdict != "unsat":
                raise Shape("solver answered %s on the minimum-length query" % verdict)
        # (3) the flags of an accepted input come from Flags::from_bits on the byte at offset 32
        if r is not None and not is_err and "C12" in want:
            fb = [e for e in p.events if e["kind"] == "call" and re.search(r"Flags::from_bits$|::from_bits$", e["callee"])]
            bad = [e for e in p.events if e["kind"] == "call" and re.search(r"from_bits_(truncate|retain)$", e["callee"])]
            if not fb or bad:
                F.append(Finding("C12", "authdata.from_slice.reserved-flags", "the flag byte of an accepted input is not validated with Flags::from_bits",
                                 {"op": "authdata_from_slice", "len": 37, "flag": 0x02}, lambda o: isinstance(o["result"], dict) and "ok" in o["result"], p))
    return F, queries


# ---- U2F register / authenticate (C17) -----------------------------------------------------------

def check_u2f(reg_paths, auth_paths):
    F = []
    for p in reg_paths + auth_paths:
        if p.end and p.end[0] == "unsupported":
            raise Shape("unsupported MIR in u2f: " + p.end[1][:200])
    # register: success only if the store accepted the credential; exactly one save, nothing else mutating
    for p in reg_paths:
        res = result_of(p)
        if res is None:
            continue
        save = calls(p, "CredentialStore::save_credential")
        upd = calls(p, "CredentialStore::update_credential")
        if res[0] == "Ok":
            if len(save) != 1 or upd or await_discr(p, save[0][1]["ret"]) != 0:
                sc = [{"op": "u2f_register", "store": {"save": {"err": c}}, "user": {}} for c in STORE_ERROR_CODES]
                F.append(Finding("C17", "u2f.register-ok-without-stored-credential",
                                 "U2F register reports success on a path where the store did not accept the credential (save calls: %d)" % len(save), sc,
                                 lambda o: isinstance(o["result"], dict) and "ok" in o["result"] and o.get("held_after", 0) == 0, p))
        else:
            if save and all(await_discr(p, e["ret"]) == 0 for _, e in save):
                F.append(Finding("C17", "u2f.register-error-after-save", "U2F register returns an error after the credential was stored", None, None, p))
    # authenticate: a response is produced only from a credential the store returned for this key handle
    for p in auth_paths:
        res = result_of(p)
        if res is None:
            continue
        find = calls(p, "CredentialStore::find_credentials")
        sign = [(i, e) for i, e in env_calls(p) if e["callee"].endswith("::sign") or e["callee"].endswith("::try_sign")]
        if res[0] == "Ok":
            if not find or not sign or find[0][0] > sign[0][0]:
                F.append(Finding("C17", "u2f.authenticate-without-lookup", "U2F authenticate signs without a preceding credential lookup", None, None, p))
                continue
            origin = ("await", find[0][1]["ret"])
            pk = calls(p, "private_key_from_cose_key")
            if not pk or not derives_from(pk[0][1]["args"][0], origin, p) and chase(pk[0][1]["args"][0])[0] != "ref":
                F.append(Finding("C17", "u2f.authenticate-key-source", "the signing key does not come from the looked-up credential", None, None, p))
            # an unknown key handle (lookup error or empty result) must fail: the Ok path has to depend on both
            dep_lookup = any("Result::map_err" in k or "find_credentials" in k for k, op, v in p.conds)
            dep_first = any("Option::ok_or" in k or "Iterator::next" in k for k, op, v in p.conds)
            if not (dep_lookup and dep_first):
                sc = {"op": "u2f_authenticate", "store": {"find": {"err": 0x2E}}, "user": {}}
                F.append(Finding("C17", "u2f.unknown-key-handle-accepted", "U2F authenticate can succeed without the lookup having produced a credential", sc,
                                 lambda o: isinstance(o["result"], dict) and "ok" in o["result"], p))
    return F


# ---- C01: the suffix provider is asked about the ASCII RP ID -------------------------------------

IDN_SUFFIXES = ["xn--55qx5d.cn", "xn--io0a7i.cn", "xn--od0alg.cn", "xn--55qx5d.hk", "xn--mgba3a4f16a.ir"]


def check_provider_argument(fns, fn_name_needle):
    """In `assert_valid_rp_id` / `assert_android_rp_id`: every call of
    EffectiveTLDProvider::effective_tld_plus_one must receive the (ASCII) RP ID it validates, not
    something derived from `decode_host` (the table is keyed by punycode, per its documentation)."""
    from .executor import Executor
    cands = [f for n, f in fns.items() if n.endswith("::" + fn_name_needle)]
    if len(cands) != 1:
        raise Shape("cannot identify %s in the MIR (%d candidates)" % (fn_name_needle, len(cands)))
    fn = cands[0]
    ps = Executor(fn, follow_yields=False).run()
    F = []
    seen_provider = False
    for p in ps:
        if p.end and p.end[0] == "unsupported":
            raise Shape("unsupported MIR in %s: %s" % (fn_name_needle, p.end[1][:160]))
        dec = [e for e in p.events if e["kind"] == "call" and e["callee"].endswith("decode_host")]
        # direct calls
        for e in p.events:
            if e["kind"] == "call" and e["callee"].endswith("effective_tld_plus_one"):
                seen_provider = True
                if dec and any(derives_from(e["args"][1], d["ret"], p) for d in dec):
                    F.append(Finding("C01", "%s.provider-gets-decoded-name" % fn_name_needle,
                                     "the suffix provider is asked about the decoded (Unicode) form of the RP ID", {"op": "rp_id_valid", "names": IDN_SUFFIXES},
                                     lambda o: bool(o["result"].get("accepted")), p))
        # calls inside closures applied to the decoded value
        for callee, clo in _closures_in(p):
            f = _closure_fn(fns, clo)
            if f is None:
                continue
            inner = Executor(f, follow_yields=False).run()
            uses_param = False
            for q in inner:
                for e in q.events:
                    if e["kind"] == "call" and e["callee"].endswith("effective_tld_plus_one"):
                        seen_provider = True
                        if contains(e["args"][1], ("in", "_2")):
                            uses_param = True
            if uses_param:
                # which value is the closure applied to?
                app = [e for e in p.events if e["kind"] == "call" and any(chase(a) == clo for a in e["args"])]

                def through_ref(t):
                    t = chase(t)
                    if t[0] == "ref" and t[1] in p.mem:
                        return p.mem[t[1]]
                    return t
                if app and dec and any(derives_from(through_ref(app[0]["args"][0]), d["ret"], p) for d in dec):
                    F.append(Finding("C01", "%s.provider-gets-decoded-name" % fn_name_needle,
                                     "the suffix provider is asked about the decoded (Unicode) form of the RP ID (through a closure applied to decode_host's result)",
                                     {"op": "rp_id_valid", "names": IDN_SUFFIXES}, lambda o: bool(o["result"].get("accepted")), p))
    if not seen_provider:
        delegated = any(e["kind"] == "call" and e["callee"].endswith("assert_valid_rp_id") for p in ps for e in p.events)
        if not delegated:
            raise Shape("%s never consults the suffix provider" % fn_name_needle)
        if fn_name_needle == "assert_android_rp_id":
            # the shared helper grants the localhost exemption by RP ID alone; the Android path has no literal-host guard of its own
            guarded = any("localhost" in k for p in ps for k, op, v in p.conds) or any(e["kind"] == "call" and "localhost" in tstr(e["args"]) for p in ps for e in p.events)
            if not guarded:
                F.append(Finding("C01", "assert_android_rp_id.localhost-exemption-unguarded",
                                 "assert_android_rp_id delegates to assert_valid_rp_id (which accepts the RP ID `localhost` when insecure localhost is enabled) without comparing the "
                                 "asset-link host with the literal `localhost`", {"op": "android_rp", "allow_localhost": True, "cases": [["app.localhost", "localhost"], ["evil.dev.localhost", "localhost"]]},
                                 lambda o: any(c["accepted"] for c in o["result"]["cases"]), ps[0] if ps else None))
    return F, len(ps)


# ---- C13: duplicate members are rejected by the integer-keyed map visitors ------------------------

def check_duplicate_detection(fns):
    """every `visit_map` generated by serde_workaround!: a member's value is only read
    (`MapAccess::next_value::<T>`, T != IgnoredAny) after `check_is_already_set` for that key, on every
    path through one iteration of the key loop; `set_if_none` itself checks before it reads."""
    from .executor import Executor
    F = []
    npaths = 0
    vms = [f for n, f in fns.items() if n.endswith(">::visit_map") and "serde_workaround.rs" in n]
    if not vms:
        raise Shape("no serde_workaround visit_map in the MIR")
    helper = [f for n, f in fns.items() if n == "set_if_none" or n.endswith("::set_if_none")]
    if len(helper) != 1:
        raise Shape("cannot identify serde_workaround::set_if_none (%d)" % len(helper))
    hp = Executor(helper[0], follow_yields=False).run()
    for p in hp:
        names = [e["callee"].split("::")[-1] for e in p.events if e["kind"] == "call"]
        if "next_value" in names and ("check_is_already_set" not in names or names.index("check_is_already_set") > names.index("next_value")):
            F.append(Finding("C13", "serde_workaround.set_if_none-without-check", "set_if_none reads a value without checking for a duplicate first",
                             {"op": "cbor_duplicates"}, lambda o: bool(o["result"].get("accepted")), p))
            continue
        # the check's answer has to decide whether the value is read: `(discr <its result>) == 0` on the path
        if "next_value" in names:
            chk = [e for e in p.events if e["kind"] == "call" and e["callee"].split("::")[-1] == "check_is_already_set"][0]
            if not any(k == tstr(("discr", chk["ret"])) and op == "==" and v == 0 for k, op, v in p.conds):
                F.append(Finding("C13", "serde_workaround.set_if_none-ignores-check", "set_if_none reads the value on a path that does not depend on the outcome of check_is_already_set "
                                 "(its error is dropped): a duplicated member is accepted", {"op": "cbor_duplicates"}, lambda o: bool(o["result"].get("accepted")), p))
    npaths += len(hp)
    for f in vms:
        msg = re.search(r"Result<([\w:]+),", f.sig)
        msg = msg.group(1) if msg else f.name[:40]
        ps = Executor(f, max_paths=50000, max_steps=2000, follow_yields=False, max_visits=2).run()
        npaths += len(ps)
        bad = set()
        for p in ps:
            if p.end and p.end[0] == "unsupported":
                raise Shape("unsupported MIR in visit_map of %s: %s" % (msg, p.end[1][:120]))
            since_key = []
            last_key = None
            last_chk = None
            for e in p.events:
                if e["kind"] != "call":
                    continue
                short = e["callee"].split("::")[-1]
                if short == "next_key":
                    since_key = []
                    last_chk = None
                    last_key = e["ret"]
                elif short == "next_value":
                    if "IgnoredAny" in e["full"]:
                        continue
                    heeded = last_chk is not None and any(k == tstr(("discr", last_chk)) and op == "==" and v == 0 for k, op, v in p.conds)
                    if "check_is_already_set" not in since_key or not heeded:
                        # which key? the discriminant of the key read in this iteration
                        key = None
                        for k, op, v in p.conds:
                            if op == "==" and last_key is not None and tstr(last_key) in k and "@Some.0" in k:
                                key = v
                        bad.add(key)
                else:
                    since_key.append(short)
                    if short == "check_is_already_set":
                        last_chk = e["ret"]
        for key in sorted(bad, key=lambda x: (x is None, x)):
            F.append(Finding("C13", "visit_map.%s.key-%s.no-duplicate-check" % (msg.replace("::", "."), key),
                             "the map visitor of %s reads member %s without first checking whether it was already set: a duplicated member is accepted" % (msg, key),
                             {"op": "cbor_duplicates"}, lambda o: bool(o["result"].get("accepted")), None))
    return F, npaths


# ---- C19: ceremonies sharing a store through the lock wrappers --------------------------------------

def check_concurrent_counters(ga_paths, fns_tokio, ctx, solver):
    """(1) from the MIR of get_assertion: the stored counter is read by the lookup and written back by a
    separate update call, with at least one suspension point in between on a successful path;
    (2) from the MIR of the lock wrappers: the lock is taken and released inside every single store call;
    (3) z3: two such ceremonies on one credential, every order of their (atomic) read / write steps that
    keeps each ceremony's own order - can both report the same counter?"""
    from .executor import Executor
    ctx.cur = "ga"
    F = []
    # (1)
    gap = None
    for p in ga_paths:
        res = result_of(p)
        if not res or res[0] != "Ok":
            continue
        find = calls(p, "CredentialStore::find_credentials")
        upd = calls(p, "CredentialStore::update_credential")
        if not find or not upd:
            continue
        ys = [i for i, e in enumerate(p.events) if e["kind"] == "yield" and find[0][0] < i < upd[0][0]]
        # a yield belonging to the lookup's own future does not separate read from write
        ys = [i for i in ys if p.events[i]["state"] != 3]
        if ys:
            gap = (p, ys)
            break
    if gap is None:
        return F, 0, "no successful path suspends between the lookup and the counter update"
    # (2)
    per_call = {}
    nwrap = 0
    expect = {"save_credential": lambda o: o["result"]["saved"] and o["result"]["save_ok"], "update_credential": lambda o: o["result"]["updated"] and o["result"]["update_ok"],
              "find_credentials": lambda o: o["result"]["found"] == 1, "get_info": lambda o: o["result"]["info"] == {"full": "full", "non_discoverable": "non-discoverable"}.get(o["scenario"].get("capability"), "forced")}
    for lock, ty in (("mutex", "Arc<tokio::sync::Mutex<S>>"), ("rwlock", "Arc<tokio::sync::RwLock<S>>")):
        ok = True
        for m in ("find_credentials", "update_credential", "save_credential", "get_info"):
            outer = [f for n, f in fns_tokio.items() if "credential_store::<impl" in n and n.endswith("::" + m) and re.match(r"fn [^(]*\(_1: &(mut )?" + re.escape(ty), f.sig)]
            if len(outer) != 1:
                raise Shape("cannot identify the %s wrapper's %s (%d)" % (lock, m, len(outer)))
            blk = fns_tokio.get(outer[0].name + "::{closure#0}")
            if blk is None:
                raise Shape("no async block for the %s wrapper's %s" % (lock, m))
            done = [q for q in Executor(blk).run() if q.end and q.end[0] == "return" and q.end[1][0] == "ctor" and q.end[1][1] == "Ready"]
            if not done:
                raise Shape("the %s wrapper's %s has no completing path" % (lock, m))
            # the wrapped store reports each discoverability capability in turn (a wrapper may branch on get_info)
            sc = [{"op": "wrapper_ops", "lock": lock, "rk": rk, "up": up, "uv": uv, "capability": cap} for cap in ("forced", "full", "non_discoverable")
                  for rk in (True, False) for up in (True, False) for uv in (False, True)]
            bad = lambda o, m=m: m in o["result"]["deadlock"] or not expect[m](o)
            for q in done:
                nwrap += 1
                lk = [(i, e) for i, e in env_calls(q) if e["callee"].endswith(("::lock", "::read", "::write"))]
                inner = [(i, e) for i, e in env_calls(q) if e["callee"].endswith("::" + m)]
                selfcalls = [(i, e) for i, e in env_calls(q) if e["callee"].startswith("CredentialStore::") and ("Arc<tokio::sync::" in e["full"] or "tokio::sync::Mutex<S> as" in e["full"]
                                                                                                              or "tokio::sync::RwLock<S> as" in e["full"])]
                if selfcalls and lk and any(i > lk[0][0] for i, _ in selfcalls):
                    F.append(Finding("C19", "wrapper.%s.%s.calls-wrapper-while-locked" % (lock, m),
                                     "the %s wrapper's %s calls %s on the wrapper itself while it holds the guard: a second acquisition of the same lock (with a writer queued in between it "
                                     "never completes)" % (lock, m, selfcalls[0][1]["callee"]), {"op": "wrapper_contention", "lock": lock},
                                     lambda o: bool(o["result"]["deadlocks"]), q))
                    continue
                if len(lk) >= 2:
                    F.append(Finding("C19", "wrapper.%s.%s.nested-lock" % (lock, m), "the %s wrapper's %s acquires the lock %d times in one call (%s): a second acquisition while the first guard is "
                                     "alive never completes" % (lock, m, len(lk), [e["callee"] for _, e in lk]), sc, bad, q))
                    continue
                if len(inner) == 0:
                    F.append(Finding("C19", "wrapper.%s.%s.not-forwarded" % (lock, m), "the %s wrapper's %s completes without calling the wrapped store" % (lock, m), sc, bad, q))
                    continue
                if len(lk) != 1 or len(inner) != 1 or lk[0][0] > inner[0][0]:
                    raise Shape("unexpected shape of the %s wrapper's %s" % (lock, m))
                e = inner[0][1]
                for a in e["args"][1:]:
                    a = chase(a)
                    if not (isinstance(a, tuple) and a and a[0] in ("in", "proj", "deref", "move", "copy")):
                        F.append(Finding("C19", "wrapper.%s.%s.argument-rewritten" % (lock, m), "the %s wrapper's %s passes %s instead of its own argument" % (lock, m, tstr(a)[:80]), sc, bad, q))
                ret = q.end[1][2][0]
                if not contains(ret, ("await", e["ret"])):
                    F.append(Finding("C19", "wrapper.%s.%s.result-changed" % (lock, m), "the %s wrapper's %s does not return the wrapped store's answer (%s)" % (lock, m, tstr(ret)[:80]), sc, bad, q))
                # the guard must not be part of what is returned (it is dropped when the call ends)
                if contains(q.end[1], ("await", lk[0][1]["ret"])):
                    ok = False
        per_call[lock] = ok
    # (3)
    upd0 = calls(gap[0], "CredentialStore::update_credential")
    written = counter_of(upd0[0][1]["args"][1], ctx)
    step = counter_step(written, gap[0]) if written is not None else None
    if step is None:
        raise Shape("cannot express the counter written back as a function of the counter read: %s" % tstr(written)[:100])
    nA, okA = step_smt(step, "vA")
    nB, okB = step_smt(step, "vB")
    decls = ["(declare-const c (_ BitVec 32))"] + ["(declare-const %s Int)" % t for t in ("tRA", "tWA", "tRB", "tWB")] + \
            ["(declare-const vA (_ BitVec 32))", "(declare-const vB (_ BitVec 32))"]
    common = ["(distinct tRA tWA tRB tWB)", "(< tRA tWA)", "(< tRB tWB)"] + ["(and (>= %s 0) (<= %s 3))" % (t, t) for t in ("tRA", "tWA", "tRB", "tWB")] + [
        "(= vA (ite (< tWB tRA) %s c))" % nB,
        "(= vB (ite (< tWA tRB) %s c))" % nA,
        okA, okB,                                  # both ceremonies succeed
        "(= %s %s)" % (nA, nB)]                    # and report the same counter
    # (3a) one ceremony after the other: must be impossible (a different failure than the overlapping one below)
    verdict, model = solver.check(decls, common + ["(or (< tWA tRB) (< tWB tRA))"], want_model=True)
    nq = 1
    if verdict == "sat":
        from .smt import bv_value
        cv = bv_value(model.get("c", "")) if model else None
        cv = 2 ** 32 - 2 if cv is None else cv
        F.append(Finding("C19", "sequential.assert-assert.duplicate-counter",
                         "two assertions with the same credential, one after the other, both succeed and report the same counter (step: %s by %d; stored counter %d)" % (step[0], step[1], cv),
                         [{"op": "concurrent_assert", "counter": cv, "lock": lock, "sequential": True} for lock in ("mutex", "rwlock")],
                         lambda o: len(o["result"]["counters"]) == 2 and None not in o["result"]["counters"] and o["result"]["counters"][0] == o["result"]["counters"][1], gap[0]))
    elif verdict != "unsat":
        raise Shape("solver answered %s on the sequential query" % verdict)
    # (3b) overlapping ceremonies
    asserts = common + ["(not (or (< tWA tRB) (< tWB tRA)))", "(bvult c #xfffffff0)"]
    verdict, model = solver.check(decls, asserts, want_model=True)
    nq += 1
    if verdict == "sat":
        for lock, percall in per_call.items():
            if not percall:
                continue
            F.append(Finding("C19", "concurrent.assert-assert.duplicate-counter.%s" % lock,
                             "two assertions with the same credential through Arc<%s<store>> can both read counter c and both report and store c+1 "
                             "(lookup and update are separate critical sections with a suspension point between them; schedule %s)" %
                             ("Mutex" if lock == "mutex" else "RwLock", {k: model.get(k) for k in ("tRA", "tRB", "tWA", "tWB")}),
                             {"op": "concurrent_assert", "counter": 5, "lock": lock},
                             lambda o: len(o["result"]["counters"]) == 2 and None not in o["result"]["counters"] and o["result"]["counters"][0] == o["result"]["counters"][1], gap[0]))
    elif verdict != "unsat":
        raise Shape("solver answered %s on the interleaving query" % verdict)
    # (3c) three ceremonies: after all have succeeded, the stored counter is the largest one reported
    names = ("A", "B", "C")
    tv = ["tR%s" % n for n in names] + ["tW%s" % n for n in names]
    decls3 = ["(declare-const c (_ BitVec 32))"] + ["(declare-const %s Int)" % t for t in tv] + ["(declare-const v%s (_ BitVec 32))" % n for n in names] + \
             ["(declare-const stored (_ BitVec 32))", "(declare-const largest (_ BitVec 32))"]
    nv = {n: step_smt(step, "v" + n) for n in names}
    a3 = ["(distinct %s)" % " ".join(tv)] + ["(and (>= %s 0) (<= %s 5))" % (t, t) for t in tv] + ["(< tR%s tW%s)" % (n, n) for n in names]
    for i in names:
        j, k = [x for x in names if x != i]
        a3.append("(= v%s (ite (and (< tW%s tR%s) (or (not (< tW%s tR%s)) (< tW%s tW%s))) %s (ite (< tW%s tR%s) %s (ite (< tW%s tR%s) %s c))))" %
                  (i, j, i, k, i, k, j, nv[j][0], k, i, nv[k][0], j, i, nv[j][0]))
        a3.append(nv[i][1])
    a3.append("(= stored (ite (and (> tWA tWB) (> tWA tWC)) %s (ite (> tWB tWC) %s %s)))" % (nv["A"][0], nv["B"][0], nv["C"][0]))
    mx = lambda x, y: "(ite (bvugt %s %s) %s %s)" % (x, y, x, y)
    a3.append("(= largest %s)" % mx(mx(nv["A"][0], nv["B"][0]), nv["C"][0]))
    a3 += ["(bvult stored largest)", "(bvult c #xfffffff0)"]
    verdict, model = solver.check(decls3, a3, want_model=True)
    nq += 1
    if verdict == "sat":
        try:
            pos = {t: int(model[t]) for t in tv}
        except (KeyError, ValueError):
            pos = {"tRA": 0, "tRB": 1, "tWB": 2, "tRC": 3, "tWC": 4, "tWA": 5}
        evs = sorted(tv, key=lambda t: pos[t])
        pending = {}
        for n_ in names:
            r, w = evs.index("tR" + n_), evs.index("tW" + n_)
            pending[n_] = 1 if w - r > 1 else 0
        order = []
        for t in evs:
            n_ = t[2]
            if t[1] == "R" or pending[n_]:
                order.append(n_)
        for lock, percall in per_call.items():
            if not percall:
                continue
            F.append(Finding("C19", "concurrent.three-assertions.stored-below-largest.%s" % lock,
                             "three assertions with the same credential through the %s wrapper: the counter left in the store is smaller than the largest counter reported "
                             "(a suspended ceremony writes its stale value back last; schedule %s)" % (lock, " ".join(evs)),
                             {"op": "concurrent_assert", "counter": 5, "lock": lock, "order": order, "pending": pending},
                             lambda o: None not in o["result"]["counters"] and o["result"]["stored"] is not None and o["result"]["stored"] < max(o["result"]["counters"]), gap[0]))
    elif verdict != "unsat":
        raise Shape("solver answered %s on the three-ceremony query" % verdict)
    return F, nq + nwrap, None


# ---- C06: secrets never flow into anything handed back ------------------------------------------------

def field_index_any(src, struct, field):
    """like field_index, for structs of any visibility"""
    m = re.search(r"(?:pub(?:\([a-z]+\))? )?struct %s\s*\{(.*?)\n\s*\}" % re.escape(struct), src, re.S)
    if not m:
        raise Shape("struct %s not found in source" % struct)
    names = re.findall(r"^\s*(?:pub(?:\([a-z]+\))? )?([a-z_0-9]+):\s", m.group(1), re.M)
    if field not in names:
        raise Shape("field %s not in struct %s (%s)" % (field, struct, names))
    return names.index(field)


COSE_KEY_FIELDS = ["kty", "key_id", "alg", "key_ops", "base_iv", "params"]   # coset 0.3 `CoseKey`, declaration order
SIGN_CALLS = ("::sign", "::try_sign", "::sign_recoverable")


class Taint:
    """does a term depend on a secret other than through a declassifying call?  `classify(t)` -> 'secret' |
    'public' (stop here) | None (look inside); results of calls are followed into their arguments and into
    what their reference arguments pointed to at the time of the call"""

    def __init__(self, p, classify, declass, fields_of=None, fns=None):
        self.p = p
        self.fields_of = fields_of
        self.fns = fns
        self.classify = classify
        self.declass = tuple(declass)
        self.memo = {}
        self.trail = []

    def walk(self, t, depth=0):
        if not isinstance(t, (tuple, list)) or depth > 40:
            return []
        try:
            key = (t, tuple(self.trail[-1:]))
            if key in self.memo:
                return self.memo[key]
        except TypeError:
            key = None
        if key is not None:
            self.memo[key] = []
        out = self._walk(t, depth)
        if key is not None:
            self.memo[key] = out
        return out

    def _walk(self, t, depth):
        if isinstance(t, tuple) and t and isinstance(t[0], str):
            c = self.classify(t)
            if c == "secret":
                return [tstr(t)[:100] + " <- " + " <- ".join(self.trail[-4:])]
            if c == "public":
                return []
            if t[0] == "ret" and len(t) >= 3 and isinstance(t[1], int) and t[1] < len(self.p.events):
                if str(t[2]).endswith(self.declass):
                    return []
                ev = self.p.events[t[1]]
                out = []
                if str(t[2]).endswith("Option::and") and len(ev.get("args", [])) == 2:
                    # `a.and(b)` is b or None: of `a` only its presence (one bit) shows
                    pv = ev.get("pointees", {}).get(1)
                    return self.walk(ev["args"][1], depth + 1) + (self.walk(pv[1], depth + 1) if pv else [])
                self.trail.append("%d:%s" % (t[1], t[2]))
                for a in ev.get("args", []):
                    out += self.walk(a, depth + 1)
                for _, v in ev.get("pointees", {}).values():
                    out += self.walk(v, depth + 1)
                for v in getattr(self.p, "heap", {}).get(t[1], ()):
                    out += self.walk(v, depth + 1)
                self.trail.pop()
                return out
            if t[0] == "pollres" or t[0] == "await":
                return self.walk(t[-1], depth + 1)
            if t[0] in ("isvariant", "discr"):
                # which variant a value has: one bit, not the value
                return []
            if t[0] == "errof":
                # the error a callee reports: a status code (one byte), which cannot carry a 32-byte secret
                return []
            if t[0] == "closure":
                return self._closure(t, depth)
            if t[0] == "proj" and isinstance(t[1], tuple) and t[1] and t[1][0] == "struct" and self.fields_of is not None:
                # a field of a struct literal: only that field's value matters
                names = self.fields_of(t[1][1])
                m = re.match(r"^\.(\d+)(.*)$", t[2])
                if names and m and int(m.group(1)) < len(names):
                    v = dict(t[1][2]).get(names[int(m.group(1))])
                    if v is not None:
                        return self.walk(("proj", v, m.group(2)) if m.group(2) else v, depth + 1)
        out = []
        for x in t:
            if isinstance(x, (tuple, list)):
                out += self.walk(x, depth + 1)
        return out


def _taint_closure(self, t, depth):
    """a closure value: what it returns depends on the secrets it captured only as far as its body lets them through"""
    from .executor import Executor
    caps = t[2] if len(t) > 2 else ()
    fields = [c for c in caps if not (isinstance(c, tuple) and c and c[0] == "pointee")]
    pointees = {c[1]: c[2] for c in caps if isinstance(c, tuple) and c and c[0] == "pointee"}
    secret_idx = {}
    for i, c in enumerate(fields):
        v = pointees[c[1]] if isinstance(c, tuple) and c and c[0] == "ref" and c[1] in pointees else c
        leaks = self.walk(v, depth + 1)
        if leaks:
            secret_idx[i] = leaks[0]
    if not secret_idx:
        return []
    f = _closure_fn(self.fns, t) if self.fns else None
    if f is None:
        return list(secret_idx.values())
    root = "_1^" if re.search(r"\(_1: &", f.sig) else "_1"
    out = []
    for q in Executor(f, follow_yields=False).run():
        if not q.end or q.end[0] == "unsupported":
            return list(secret_idx.values())
        if q.end[0] != "return":
            continue

        def classify_inner(u):
            name = None
            if u[0] in ("in", "ref") and isinstance(u[1], str):
                name = u[1]
            elif u[0] == "proj" and isinstance(u[1], tuple) and u[1] and u[1][0] == "in" and isinstance(u[1][1], str):
                name = u[1][1] + u[2]
            if name is not None and (name == root or name.startswith(root + ".") or name.startswith(root + "^")):
                m = re.match(r"^\.(\d+)", name[len(root):])
                if m is None:
                    return "secret"
                return "secret" if int(m.group(1)) in secret_idx else "public"
            return None
        tw = Taint(q, classify_inner, self.declass, self.fields_of, self.fns)
        for l in tw.walk(q.end[1]):
            out.append(l + " [inside %s, captured: %s]" % (t[1][:70], list(secret_idx.values())[0][:60]))
    return out


Taint._closure = _taint_closure


def _fields_of(ctx):
    order = sorted(ctx.pk_all, key=lambda k: ctx.pk_all[k])

    def f(struct_name):
        return order if struct_name.split("::")[-1] == "Passkey" else None
    return f


def _passkey_field_class(rest, ctx):
    """rest: field path below a Passkey value ('' = the whole credential)"""
    if rest == "":
        return "secret"
    m = re.match(r"^\.(\d+)(.*)$", rest)
    if not m:
        return "secret"
    idx, more = int(m.group(1)), m.group(2)
    if idx == ctx.pk["extensions"]:
        return "secret"
    if idx == ctx.pk["key"]:
        m2 = re.match(r"^\.(\d+)", more)
        if m2 and int(m2.group(1)) != COSE_KEY_FIELDS.index("params"):
            return "public"
        return "secret"
    return "public"


def _leak_scan_finding(role, text, p, pattern):
    """every C06 finding is confirmed by the same native scan: real ceremonies, every rendering searched"""
    return Finding("C06", role, text, {"op": "leak_scan"},
                   lambda o: o["result"].get("scanner_selftest") is True and any(re.search(pattern, l) for l in o["result"]["leaks"]), p)


def check_secrecy_get_assertion(paths, ctx):
    """results and errors of get_assertion depend on the looked-up credential's key / extension secrets only
    through the signing call and the extension processing (C09 decides what that produces)"""
    F = []
    ctx.cur = "ga"
    n = 0
    for p in paths:
        res = result_of(p)
        if res is None:
            continue
        find = calls(p, "CredentialStore::find_credentials")
        if not find:
            continue
        pkc = calls(p, "private_key_from_cose_key")
        bases = []
        for _, e in pkc:
            _, cv = _pointee(e, 0)
            t = chase(cv) if cv is not None else None
            suf = ".%d" % ctx.pk["key"]
            if t is not None and t[0] == "proj" and t[2].endswith(suf):
                bases.append((t[1], t[2][:-len(suf)]))
        lookup = ("await", find[0][1]["ret"])

        def classify(t, bases=bases, lookup=lookup):
            if t == lookup:
                return "secret"
            for root, suffix in bases:
                if t == root:
                    return "secret"
                if t[0] == "proj" and t[1] == root:
                    if not t[2].startswith(suffix):
                        return "secret" if suffix.startswith(t[2]) else None
                    return _passkey_field_class(t[2][len(suffix):], ctx)
            if t[0] == "conv" and isinstance(t[1], tuple) and len(t[1]) == 2 and t[1][0].split("::")[-1].lstrip("&") == "Passkey" \
                    and t[1][1].split("::")[-1] == "PublicKeyCredentialDescriptor":
                return "public"       # the conversion is checked separately (only the id flows)
            if t[0] == "ret" and str(t[2]) == "private_key_from_cose_key":
                return "secret"
            return None
        tw = Taint(p, classify, SIGN_CALLS + ("extensions::get_extensions", "Authenticator::get_extensions", "Authenticator::check_user"), _fields_of(ctx), getattr(ctx, "fns", None))
        kind, payload = res
        leaks = tw.walk(payload) if payload is not None else []
        n += 1
        if leaks:
            F.append(_leak_scan_finding("ga.%s-depends-on-secret" % ("response" if kind == "Ok" else "error"),
                                        "get_assertion's %s value depends on the credential's secrets outside signing / extension processing: %s" %
                                        ("Ok" if kind == "Ok" else "Err", leaks[0]), p, r"ctap2\.get_assertion|webauthn\.authenticate"))
    return F, n


def check_secrecy_make_credential(paths, ctx, which="mc"):
    """results and errors of make_credential (and U2F register) do not depend on the generated private key, the
    private half of the COSE key pair or the credential part of the extension outputs"""
    F = []
    lib = ctx.src["passkey-authenticator/src/lib.rs"]
    ext = ctx.src["passkey-authenticator/src/authenticator/extensions.rs"]
    pub_idx = field_index_any(lib, "CoseKeyPair", "public")
    cred_idx = field_index_any(ext, "MakeExtensionOutputs", "credential")
    n = 0
    for p in paths:
        res = result_of(p)
        if res is None:
            continue

        def classify(t):
            if t[0] == "ret" and str(t[2]).endswith("SecretKey::random"):
                return "secret"
            if t[0] == "ret" and str(t[2]).endswith("CoseKeyPair::from_secret_key"):
                return "secret"
            if t[0] == "proj" and t[1][0] == "ret" and str(t[1][2]).endswith("CoseKeyPair::from_secret_key"):
                return "public" if re.match(r"^\.%d(\.|$|@)" % pub_idx, t[2]) else "secret"
            if t[0] == "ret" and str(t[2]).endswith("make_extensions"):
                return "secret"
            if t[0] == "proj" and t[1][0] == "ret" and str(t[1][2]).endswith("make_extensions"):
                m = re.match(r"^@Ok\.0\.(\d+)", t[2])
                if not m:
                    return "secret" if t[2] in ("@Ok", "@Ok.0") else None
                return "secret" if int(m.group(1)) == cred_idx else "public"
            return None
        tw = Taint(p, classify, SIGN_CALLS + ("::verifying_key",), _fields_of(ctx), getattr(ctx, "fns", None))
        kind, payload = res
        leaks = tw.walk(payload) if payload is not None else []
        n += 1
        if leaks:
            F.append(_leak_scan_finding("%s.%s-depends-on-secret" % (which, "response" if kind == "Ok" else "error"),
                                        "%s's %s value depends on the new credential's secrets: %s" % ("make_credential" if which == "mc" else "U2F register",
                                                                                                      "Ok" if kind == "Ok" else "Err", leaks[0]), p,
                                        r"ctap2\.make_credential|webauthn\.register" if which == "mc" else r"u2f\.register"))
    return F, n


def check_secrecy_u2f_authenticate(paths, ctx):
    F = []
    n = 0
    for p in paths:
        res = result_of(p)
        find = calls(p, "CredentialStore::find_credentials")
        if res is None or not find:
            continue
        lookup = ("await", find[0][1]["ret"])

        def classify(t, lookup=lookup):
            if t == lookup:
                return "secret"
            if t[0] == "ret" and str(t[2]).endswith("private_key_from_cose_key"):
                return "secret"
            return None
        tw = Taint(p, classify, SIGN_CALLS)
        kind, payload = res
        leaks = tw.walk(payload) if payload is not None else []
        n += 1
        if leaks:
            F.append(_leak_scan_finding("u2f.authenticate.%s-depends-on-secret" % ("response" if kind == "Ok" else "error"),
                                        "U2F authenticate's result depends on the stored credential outside the signing call: %s" % leaks[0], p, r"u2f\.authenticate"))
    return F, n


def check_secrecy_key_pair(fns, ctx):
    """CoseKeyPair::from_secret_key: the public half depends on the secret key only through the public-key
    derivation (`verifying_key`), never through its bytes"""
    from .executor import Executor
    cands = [f for n, f in fns.items() if n.endswith("::from_secret_key") and f.sig.rstrip(" {").endswith("-> CoseKeyPair")]
    if len(cands) != 1:
        raise Shape("cannot identify CoseKeyPair::from_secret_key (%d)" % len(cands))
    lib = ctx.src["passkey-authenticator/src/lib.rs"]
    pub_idx = field_index_any(lib, "CoseKeyPair", "public")
    F = []
    n = 0
    for p in Executor(cands[0], follow_yields=False).run():
        if not p.end or p.end[0] != "return":
            if p.end and p.end[0] == "unsupported":
                raise Shape("unsupported MIR in from_secret_key: %s" % p.end[1][:160])
            continue
        ret = p.end[1]
        pub = None
        if ret[0] in ("struct", "agg"):
            fields = ret[2]
            if ret[0] == "struct":
                pub = dict(fields).get("public")
            elif pub_idx < len(fields):
                pub = fields[pub_idx]
        if pub is None:
            raise Shape("from_secret_key does not return a CoseKeyPair literal: %s" % tstr(ret)[:120])

        def classify(t):
            if t == ("in", "_1") or (t[0] in ("proj", "ref") and isinstance(t[1], str) and t[1].startswith("_1")) or \
                    (t[0] == "proj" and t[1] == ("in", "_1")):
                return "secret"
            return None
        tw = Taint(p, classify, ("::verifying_key",))
        leaks = tw.walk(pub)
        n += 1
        if leaks:
            F.append(_leak_scan_finding("keypair.public-half-depends-on-secret-bytes",
                                        "the public COSE key built by CoseKeyPair::from_secret_key depends on the secret key outside the public-key derivation: %s" % leaks[0],
                                        p, r"private-scalar"))
    if n == 0:
        raise Shape("from_secret_key has no returning path")
    return F, n


def check_secrecy_debug(types_fns, ctx):
    """`<Passkey as Debug>::fmt` and the Passkey -> PublicKeyCredentialDescriptor conversions: no place that covers
    the COSE key's parameters or the extension secrets is handed to a formatter / copied into the descriptor"""
    from .executor import Executor
    F = []
    n = 0
    targets = []
    for name, f in types_fns.items():
        if re.search(r"::fmt$", name) and re.match(r"fn [^(]*\(_1: &(?:passkey::)?Passkey, _2: &mut std::fmt::Formatter", f.sig):
            targets.append(("debug", f))
        if re.search(r"::from$", name) and re.match(r"fn [^(]*\(_1: &?(?:passkey::)?Passkey\) -> (?:\w+::)*PublicKeyCredentialDescriptor", f.sig):
            targets.append(("descriptor", f))
    if not any(k == "descriptor" for k, _ in targets):
        raise Shape("no Passkey -> PublicKeyCredentialDescriptor conversion found in the MIR")
    for kind, f in targets:
        byref = "(_1: &" in f.sig
        root = "_1^" if byref else "_1"
        for p in Executor(f, follow_yields=False).run():
            if p.end and p.end[0] == "unsupported":
                raise Shape("unsupported MIR in %s: %s" % (f.name[:60], p.end[1][:160]))
            n += 1
            places = set()

            def collect(t):
                if isinstance(t, tuple) and t and t[0] in ("ref", "in") and isinstance(t[1], str):
                    places.add(t[1])
                if isinstance(t, tuple) and t and t[0] == "proj" and isinstance(t[1], tuple) and t[1] and t[1][0] == "in" and isinstance(t[1][1], str):
                    places.add(t[1][1] + t[2])
                    return
                if isinstance(t, (tuple, list)):
                    for x in t:
                        collect(x)
            for e in p.events:
                if e["kind"] != "call":
                    continue
                for a in e["args"]:
                    collect(a)
                for pl, v in e.get("pointees", {}).values():
                    places.add(pl)
                    collect(v)
            if p.end and p.end[0] == "return":
                collect(p.end[1])
            for pl in sorted(places):
                if not pl.startswith(root):
                    continue
                rest = pl[len(root):]
                if byref and rest.startswith("^"):
                    rest = rest[1:]
                if rest and rest[0] not in ".":
                    continue
                if _passkey_field_class(rest, ctx) == "secret":
                    if kind == "debug":
                        F.append(_leak_scan_finding("passkey.debug-shows-secret-field", "<Passkey as Debug>::fmt hands %s (a place covering the private key parameters or the "
                                                    "extension secrets) to the formatter" % pl, p, r"passkey\.debug"))
                    else:
                        # a by-value conversion moves the whole credential in and drops the rest: only the returned fields matter
                        if p.end and p.end[0] == "return" and pl in _places_of(p.end[1]):
                            F.append(_leak_scan_finding("passkey.descriptor-carries-secret-field", "the Passkey -> PublicKeyCredentialDescriptor conversion copies %s" % pl,
                                                        p, r"ctap2\.get_assertion|webauthn\.authenticate"))
    return F, n


def _places_of(t):
    out = set()

    def go(t):
        if isinstance(t, tuple) and t and t[0] in ("ref", "in") and isinstance(t[1], str):
            out.add(t[1])
        if isinstance(t, tuple) and t and t[0] == "proj" and isinstance(t[1], tuple) and t[1] and t[1][0] == "in":
            out.add(t[1][1] + t[2])
            return
        if isinstance(t, (tuple, list)):
            for x in t:
                go(x)
    go(t)
    return out


# ---- C02 / C03 at the WebAuthn client: what Client::register / Client::authenticate hand to the
# ---- authenticator and hand back, as data flow on every successful path ------------------------

CLIENT_SOURCES = ("passkey-types/src/webauthn/assertion.rs", "passkey-types/src/webauthn/attestation.rs", "passkey-types/src/webauthn/common.rs")


def _client_variants():
    base = {"op": "client_ceremony"}
    vs = [dict(base)]
    vs.append(dict(base, origin="https://future.1password.com:8443"))
    vs.append(dict(base, origin="https://login.future.1password.com", rp_id="1password.com"))
    vs.append(dict(base, custom_hash=True))
    # a caller-supplied hash need not be 32 bytes long (SHA-512, SHA-1, empty): it is signed as given
    vs.append(dict(base, custom_hash=True, custom_hash_len=64))
    vs.append(dict(base, custom_hash=True, custom_hash_len=20))
    vs.append(dict(base, custom_hash=True, custom_hash_len=0))
    vs.append(dict(base, params="empty"))
    vs.append(dict(base, params="rs256_first"))
    vs.append(dict(base, params="unknown_type_only"))
    vs.append(dict(base, params="unknown_type_es256"))
    vs.append(dict(base, params="rs256_only"))
    vs.append(dict(base, allow_list=False))
    vs.append(dict(base, user_verification="discouraged", uv_outcome=False))
    vs.append(dict(base, counter=False))
    return vs


def _rp_view_bad(which):
    """predicate over the native client_ceremony output: some relying-party check fails"""
    def bad(o):
        r = o["result"]
        if not isinstance(r, dict) or which not in r or not isinstance(r[which], dict):
            return False
        d = r[which]
        if "authenticate_err" in d:
            return True
        for k, v in d.items():
            if k in ("alg_reported", "flags", "counter", "att_obj_members", "counter_zero", "alg_is_es256"):
                continue
            if k == "client_data":
                if not (v["type_ok"] and v["challenge_ok"] and v["origin_ok"] and v["order_ok"]):
                    return True
                continue
            if v is False or v is None:
                return True
        if which == "register" and d.get("att_obj_members") != 3:
            return True
        return False
    return bad


def derives_from_under(t, root, prefix, p, depth=0):
    """t depends (through call arguments and pointees) on a projection of `root` at or below `prefix`"""
    if depth > 8 or not isinstance(t, (tuple, list)):
        return False
    if isinstance(t, tuple) and t and t[0] == "proj" and t[1] == root and isinstance(t[2], str) and t[2].startswith(prefix):
        return True
    if isinstance(t, tuple) and t and t[0] == "ret" and len(t) >= 3 and isinstance(t[1], int) and t[1] < len(p.events):
        ev = p.events[t[1]]
        return any(derives_from_under(a, root, prefix, p, depth + 1) for a in ev.get("args", [])) or \
            any(derives_from_under(v, root, prefix, p, depth + 1) for _, v in ev.get("pointees", {}).values())
    return any(derives_from_under(x, root, prefix, p, depth + 1) for x in t if isinstance(x, (tuple, list)))


def check_client(fns, ctx, kind):
    """kind: 'register' (C02) | 'authenticate' (C03)"""
    from .executor import Executor
    pid = "C02" if kind == "register" else "C03"
    cands = [n for n in fns if n.endswith("::%s::{closure#0}" % kind) and n.count("{closure#") == 1 and "passkey-client/src/lib.rs" in n]
    if len(cands) != 1:
        raise Shape("cannot identify Client::%s in the MIR (%d)" % (kind, len(cands)))
    fn = fns[cands[0]]
    ps = Executor(fn).run()
    att = ctx.src["passkey-types/src/webauthn/attestation.rs"]
    ass = ctx.src["passkey-types/src/webauthn/assertion.rs"]
    if kind == "register":
        opts = {f: field_index(att, "PublicKeyCredentialCreationOptions", f) for f in ("rp", "user", "challenge", "pub_key_cred_params", "exclude_credentials")}
        rp_id_path = ".%d.%d" % (opts["rp"], field_index(att, "PublicKeyCredentialRpEntity", "id"))
        resp_idx = {f: field_index(ctx.src["passkey-types/src/ctap2/make_credential.rs"], "Response", f) for f in ("auth_data",)}
        want_ty, call_name = "Create", "make_credential"
    else:
        opts = {f: field_index(ass, "PublicKeyCredentialRequestOptions", f) for f in ("challenge", "rp_id", "allow_credentials", "user_verification")}
        rp_id_path = ".%d" % opts["rp_id"]
        resp_idx = {f: field_index(ctx.src["passkey-types/src/ctap2/get_assertion.rs"], "Response", f) for f in ("credential", "auth_data", "signature", "user")}
        want_ty, call_name = "Get", "get_assertion"
    F = []
    sc = _client_variants()
    bad = _rp_view_bad(kind)
    n_ok = 0

    def add(role, text, p):
        F.append(Finding(pid, "client.%s.%s" % (kind, role), text, sc, bad, p))

    def arg_root(suffix):
        # the request is the coroutine's third captured argument: (proj (in _1.0) ^.2.0<suffix>)
        return ("proj", ("in", "_1.0"), "^.2.0" + suffix)

    for p in ps:
        if p.end and p.end[0] == "unsupported":
            raise Shape("unsupported MIR in Client::%s: %s" % (kind, p.end[1][:160]))
        res = result_of(p)
        if res is None or res[0] != "Ok":
            continue
        n_ok += 1
        ev = [(i, e) for i, e in enumerate(p.events) if e["kind"] == "call"]
        byname = lambda suffix: [(i, e) for i, e in ev if e["callee"].endswith(suffix)]
        payload = res[1]
        resp = payload
        while isinstance(resp, tuple) and resp and resp[0] != "struct":
            nxt = [x for x in resp[1:] if isinstance(x, tuple)]
            if not nxt:
                break
            resp = nxt[0]
        if not (isinstance(resp, tuple) and resp and resp[0] == "struct"):
            raise Shape("Client::%s does not return a struct literal" % kind)
        inner = _struct_field(resp, "response")
        if inner is None or inner[0] != "struct":
            raise Shape("Client::%s: no inner response literal" % kind)
        # --- origin
        oconv = [e for i, e in ev if e["callee"].endswith("Into::into") and chase(e["args"][0]) == ("proj", ("in", "_1.0"), "^.1")]
        if not oconv:
            raise Shape("Client::%s: the origin argument is not converted with Into" % kind)
        origin_v = oconv[0]["ret"]
        # --- collected client data
        ser = byname("serde_json::to_string")
        if len(ser) != 1:
            raise Shape("Client::%s: %d serde_json::to_string calls" % (kind, len(ser)))
        _, ccd = _pointee(ser[0][1], 0)
        if ccd is None or ccd[0] != "struct" or "CollectedClientData" not in ccd[1]:
            raise Shape("Client::%s: what is serialised is not a CollectedClientData literal" % kind)
        ty = _struct_field(ccd, "ty")
        if not re.search(r"(^|[: (])%s\)?$" % want_ty, tstr(ty)):
            add("client-data-type", "the collected client data has type %s, not %s" % (tstr(ty)[:60], want_ty), p)
        ch = _struct_field(ccd, "challenge")
        ok_ch = False
        if ch is not None and ch[0] == "ret" and str(ch[2]).endswith("base64url"):
            _, cv = _pointee(p.events[ch[1]], 0)
            ok_ch = cv is not None and chase(cv) == arg_root(".%d" % opts["challenge"])
        if not ok_ch:
            add("client-data-challenge", "the collected client data's challenge is not base64url(request.challenge): %s" % tstr(ch)[:80], p)
        og = _struct_field(ccd, "origin")
        ok_og = False
        if og is not None and og[0] == "ret" and str(og[2]).endswith("ToString::to_string"):
            _, ov = _pointee(p.events[og[1]], 0)
            ok_og = ov is not None and ov == origin_v
        if not ok_og:
            add("client-data-origin", "the collected client data's origin is not the caller's origin rendered with Display: %s" % tstr(og)[:80], p)
        co = _struct_field(ccd, "cross_origin")
        if co is not None and not (co == ("ctor", "None", ()) or (co[0] == "ctor" and co[1] == "Some" and tstr(co[2][0]) in ("(const false)",))):
            add("client-data-cross-origin", "crossOrigin is set to %s" % tstr(co)[:60], p)
        jsn = [e for i, e in ev if e["callee"].endswith(("Result::unwrap", "Result::expect")) and e["args"] and e["args"][0] == ser[0][1]["ret"]]
        if not jsn:
            raise Shape("Client::%s: the serialised client data is not unwrapped" % kind)
        json_v = jsn[0]["ret"]
        # --- the hash handed to the authenticator
        call = byname("%s::%s" % (call_name, call_name)) or byname("::" + call_name)
        call = [(i, e) for i, e in call if len(e["args"]) >= 2 and isinstance(e["args"][1], tuple) and e["args"][1] and e["args"][1][0] == "struct"]
        if len(call) != 1:
            raise Shape("Client::%s: cannot identify the authenticator call (%d)" % (kind, len(call)))
        ci, ce = call[0]
        req = ce["args"][1]
        h = chase(_struct_field(req, "client_data_hash"))
        while isinstance(h, tuple) and h and h[0] == "conv":
            h = chase(h[2])
        ok_h = False
        if h is not None and h[0] == "ret" and str(h[2]).endswith("Option::unwrap_or_else"):
            he = p.events[h[1]]
            src = chase(he["args"][0])
            clo = chase(he["args"][1])
            own = src[0] == "ret" and str(src[2]).endswith("ClientData::client_data_hash")
            caps = clo[2] if clo[0] == "closure" and len(clo) > 2 else ()
            cap_json = any(isinstance(c, tuple) and c and c[0] == "pointee" and c[2] == json_v for c in caps)
            body_ok = False
            cf = _closure_fn(fns, clo) if clo[0] == "closure" else None
            if cf is not None:
                for q in Executor(cf, follow_yields=False).run():
                    if q.end and q.end[0] == "return":
                        sh = [e for _, e in env_calls(q) if e["callee"].endswith("sha256")]
                        def from_capture(t, d=0):
                            if d > 8 or not isinstance(t, (tuple, list)):
                                return False
                            if isinstance(t, tuple) and t and t[0] in ("in", "ref") and isinstance(t[1], str) and t[1].startswith("_1"):
                                return True
                            if isinstance(t, tuple) and t and t[0] == "ret" and isinstance(t[1], int) and t[1] < len(q.events):
                                e2 = q.events[t[1]]
                                return any(from_capture(a, d + 1) for a in e2.get("args", [])) or any(from_capture(v, d + 1) for _, v in e2.get("pointees", {}).values())
                            return any(from_capture(x, d + 1) for x in t if isinstance(x, (tuple, list)))
                        body_ok = bool(sh) and derives_from(q.end[1], sh[0]["ret"], q) and from_capture(sh[0]["args"])
            ok_h = own and cap_json and body_ok
            why = "own=%s captured-json=%s closure-body=%s" % (own, cap_json, body_ok)
        if not ok_h:
            add("hash-source", "the client data hash given to the authenticator is not `client_data.client_data_hash()` or else SHA-256 of the serialised client data: %s" % (tstr(h)[:60] + " " + (why if "why" in dir() else "")), p)
        # --- rp id
        ad = byname("RpIdVerifier::assert_domain")
        if len(ad) != 1:
            raise Shape("Client::%s: %d assert_domain calls" % (kind, len(ad)))
        _, ao = _pointee(ad[0][1], 1)
        _, ar = _pointee(ad[0][1], 2)
        if ao != origin_v:
            add("rp-id-origin", "assert_domain is not given the caller's origin", p)
        if ar is None or chase(ar) != arg_root(rp_id_path):
            add("rp-id-request", "assert_domain is not given the request's RP ID (%s)" % (tstr(ar)[:60] if ar else "?"), p)
        eff = ("proj", ad[0][1]["ret"], "@Ok.0")
        if kind == "register":
            rpf = _struct_field(req, "rp")
            rid = _struct_field(rpf, "id") if rpf is not None else None
        else:
            rid = _struct_field(req, "rp_id")
        rid_ok = rid is not None and rid[0] == "ret" and str(rid[2]).endswith(("ToOwned::to_owned", "ToString::to_string", "String::from")) and \
            chase(p.events[rid[1]]["args"][0]) == eff
        if not rid_ok:
            add("rp-id-effective", "the RP ID given to the authenticator is not the effective RP ID returned by assert_domain: %s" % tstr(rid)[:80], p)
        optf = _struct_field(req, "options")
        if optf is None or tstr(_struct_field(optf, "up")) != "(const true)":
            add("presence-not-required", "the authenticator request does not set up = true", p)
        if kind == "authenticate":
            al = _struct_field(req, "allow_list")
            if al is None or chase(al) != arg_root(".%d" % opts["allow_credentials"]):
                add("allow-list", "the allow list given to the authenticator is not the request's allowCredentials: %s" % tstr(al)[:80], p)
        else:
            for f, src in (("user", "user"), ("exclude_list", "exclude_credentials")):
                v = _struct_field(req, f)
                if v is None or chase(v) != arg_root(".%d" % opts[src]):
                    add("request-" + f, "make_credential's %s is not the request's %s: %s" % (f, src, tstr(v)[:80]), p)
            pp = chase(_struct_field(req, "pub_key_cred_params"))
            ok_pp = pp == arg_root(".%d" % opts["pub_key_cred_params"]) or (pp[0] == "ret" and str(pp[2]).endswith("default_algorithms"))
            if ok_pp and pp[0] == "ret":
                # the default list only when the request's list is empty
                ok_pp = any("Vec::is_empty" in k and ("^.2.0.%d" % opts["pub_key_cred_params"]) in tstr(p.events[int(re.search(r"\(ret (\d+) Vec::is_empty", k).group(1))].get("pointees", {}).get(0, ("", ""))[1])
                            for k, op, v in p.conds if re.search(r"\(ret (\d+) Vec::is_empty", k))
            if not ok_pp:
                add("algorithm-list", "pubKeyCredParams given to the authenticator is neither the request's list nor the default list for an empty one: %s" % tstr(pp)[:80], p)
        # --- what is handed back
        me = [(i, e) for i, e in ev if i > ci and e["callee"].endswith("Result::map_err") and chase(e["args"][0]) == ("await", ce["ret"])]
        if len(me) != 1:
            raise Shape("Client::%s: the authenticator's answer is not passed through one map_err" % kind)
        R = me[0][1]["ret"]
        cdj = _struct_field(inner, "client_data_json")
        if cdj is None or not contains(cdj, json_v):
            add("returned-client-data", "the returned clientDataJSON is not the serialised client data that was hashed", p)
        adv = _struct_field(inner, "authenticator_data")
        t = adv
        while isinstance(t, tuple) and t and t[0] == "conv":
            t = t[2]
        ok_ad = False
        if t is not None and t[0] == "ret" and str(t[2]).endswith("AuthenticatorData::to_vec"):
            _, av = _pointee(p.events[t[1]], 0)
            ok_ad = av == ("proj", R, "@Ok.0.%d" % resp_idx["auth_data"])
        if not ok_ad:
            add("returned-authenticator-data", "the returned authenticator data is not the serialisation of the authenticator's auth_data: %s" % tstr(adv)[:80], p)
        rid_v = _struct_field(resp, "id")
        raw_v = _struct_field(resp, "raw_id")

        def bytes_source(t):
            """the byte string a base64url(..) / to_vec(..).into() term is computed from"""
            while isinstance(t, tuple) and t and t[0] == "conv":
                t = t[2]
            if not (isinstance(t, tuple) and t and t[0] == "ret"):
                return None
            e = p.events[t[1]]
            if not e["callee"].endswith(("base64url", "slice::to_vec", "to_vec")):
                return None
            a = e["args"][0]
            _, v = _pointee(e, 0)
            return chase(v) if v is not None else chase(a)
        def norm(t):
            # two calls of the same pure accessor on the same value are the same bytes
            if isinstance(t, tuple) and t and t[0] == "ret" and str(t[2]).endswith("credential_id"):
                return ("call", t[2], tuple(chase(a) for a in p.events[t[1]]["args"]))
            return t
        s_id, s_raw = bytes_source(rid_v), bytes_source(raw_v)
        n_id, n_raw = norm(s_id), norm(s_raw)
        if rid_v is None or not (rid_v[0] == "ret" and str(rid_v[2]).endswith("base64url")) or s_id is None or n_id != n_raw:
            add("id-raw-id", "id is not base64url of the bytes returned as rawId (%s vs %s)" % (tstr(s_id)[:50], tstr(s_raw)[:50]), p)
        if kind == "authenticate":
            want_src = None
            if s_raw is not None and s_raw[0] == "proj" and s_raw[1][0] == "ret" and str(s_raw[1][2]).endswith(("Option::unwrap", "Option::expect")):
                want_src = chase(p.events[s_raw[1][1]]["args"][0])
            if want_src != ("proj", R, "@Ok.0.%d" % resp_idx["credential"]):
                add("raw-id-source", "rawId is not the id of the credential named in the authenticator's answer (%s)" % tstr(s_raw)[:80], p)
            sg = _struct_field(inner, "signature")
            if sg is None or chase(sg) != ("proj", R, "@Ok.0.%d" % resp_idx["signature"]):
                add("returned-signature", "the returned signature is not the authenticator's signature: %s" % tstr(sg)[:80], p)
            uh = _struct_field(inner, "user_handle")
            ok_uh = uh is not None and uh[0] == "ret" and str(uh[2]).endswith("Option::map") and chase(p.events[uh[1]]["args"][0]) == ("proj", R, "@Ok.0.%d" % resp_idx["user"])
            if not ok_uh:
                add("returned-user-handle", "the returned user handle does not come from the authenticator's answer: %s" % tstr(uh)[:80], p)
        else:
            authd = ("proj", R, "@Ok.0.%d" % resp_idx["auth_data"])
            acd_src = None
            if s_raw is not None and s_raw[0] == "ret" and str(s_raw[2]).endswith("credential_id"):
                acd_src = p.events[s_raw[1]]["args"][0]
            if acd_src is None or not derives_from_under(acd_src, R, authd[2], p):
                add("raw-id-source", "rawId is not the credential id inside the returned authenticator data's attested credential data (%s)" % tstr(s_raw)[:80], p)
            ao_v = _struct_field(inner, "attestation_object")
            t = ao_v
            while isinstance(t, tuple) and t and t[0] == "conv":
                t = t[2]
            wr = [e for _, e in ev if e["callee"].endswith("into_writer") and _pointee(e, 1)[1] == t]
            if t is None or len(wr) != 1 or not derives_from_under(_pointee(wr[0], 0)[1], R, authd[2], p):
                add("attestation-object", "the attestation object is not written from a value built from the authenticator's auth_data", p)
            pk = _struct_field(inner, "public_key")
            der = [e for _, e in ev if e["callee"].endswith("public_key_der_from_cose_key")]
            if pk is None or len(der) != 1 or not derives_from(pk, der[0]["ret"], p) or not derives_from_under(_pointee(der[0], 0)[1], R, authd[2], p):
                add("public-key-der", "the returned DER public key is not converted from the COSE key inside the returned authenticator data", p)
            # credProps: the extension outputs are computed from the store's own info, the rk option that was sent and the
            # authenticator's unsigned outputs
            reo = byname("registration_extension_outputs")
            if reo:
                re_ = reo[0][1]
                rk_sent = _struct_field(optf, "rk") if optf is not None else None
                a_rk = chase(re_["args"][3]) if len(re_["args"]) > 3 else None
                if a_rk is None or rk_sent is None or a_rk != chase(rk_sent) or not (a_rk[0] == "ret" and str(a_rk[2]).endswith("map_rk")):
                    F.append(Finding("C11", "client.register.credprops-rk-source", "credProps is computed from %s, not from the rk option sent to the authenticator (%s)" %
                                     (tstr(a_rk)[:60], tstr(rk_sent)[:60]), {"op": "client_credprops"}, lambda o: bool(o["result"]["mismatches"]), p))
                a_info = chase(re_["args"][2]) if len(re_["args"]) > 2 else None
                if a_info is None or not (a_info[0] == "await" and str(a_info[1][2]).endswith("CredentialStore::get_info")):
                    F.append(Finding("C11", "client.register.credprops-store-info", "credProps is not computed from the store's own capability report (%s)" % tstr(a_info)[:60],
                                     {"op": "client_credprops"}, lambda o: bool(o["result"]["mismatches"]), p))
            alg = _struct_field(inner, "public_key_algorithm")
            if alg is None or not derives_from_under(alg, R, authd[2], p):
                add("public-key-algorithm", "the reported algorithm does not come from the COSE key inside the returned authenticator data: %s" % tstr(alg)[:80], p)
    if n_ok == 0:
        raise Shape("Client::%s has no successful path" % kind)
    return F, n_ok, len(ps), cands[0]


def check_origin_rendering(fns):
    """<Origin as Display>::fmt, Web variant: what is written depends on scheme, host AND port of the URL
    (one accessor that covers all three - as_str / origin - or one for each), so that the `origin` of the client
    data is the caller's origin, not a part of it"""
    from .executor import Executor
    cands = [f for n, f in fns.items() if n.endswith("::fmt") and re.match(r"fn [^(]*\(_1: &(?:\w+::)*Origin<", f.sig)]
    if len(cands) != 1:
        raise Shape("cannot identify <Origin as Display>::fmt (%d)" % len(cands))
    ps = Executor(cands[0], follow_yields=False).run()
    F = []
    n = 0
    for p in ps:
        if p.end and p.end[0] == "unsupported":
            raise Shape("unsupported MIR in <Origin as Display>::fmt: %s" % p.end[1][:160])
        if not any("@Web" in tstr(e.get("args", "")) + tstr(list(e.get("pointees", {}).values())) for e in p.events if e["kind"] == "call"):
            continue
        n += 1
        wr = [e for _, e in env_calls(p) if e["callee"].endswith(("write_fmt", "write_str", "Formatter::write_fmt", "Display::fmt", "Formatter::pad"))]
        if not wr:
            raise Shape("<Origin as Display>::fmt (Web): no write call found")
        used = set()

        def walk(t, d=0):
            if d > 12 or not isinstance(t, (tuple, list)):
                return
            if isinstance(t, tuple) and t and t[0] == "ret" and isinstance(t[1], int) and t[1] < len(p.events):
                e = p.events[t[1]]
                m = re.search(r"Url::(\w+)$", e["callee"])
                if m:
                    used.add(m.group(1))
                for a in e.get("args", []):
                    walk(a, d + 1)
                for _, v in e.get("pointees", {}).values():
                    walk(v, d + 1)
                for v in getattr(p, "heap", {}).get(t[1], ()):
                    walk(v, d + 1)
                return
            for x in t:
                if isinstance(x, (tuple, list)):
                    walk(x, d + 1)
        for e in wr:
            walk(e["args"])
            for _, v in e.get("pointees", {}).values():
                walk(v)
        whole = used & {"as_str", "origin", "as_ref", "to_string"}
        parts_ok = bool(used & {"scheme"}) and bool(used & {"host_str", "host", "domain"}) and bool(used & {"port", "port_or_known_default"})
        if not whole and not parts_ok:
            sc = [{"op": "client_ceremony", "origin": "https://future.1password.com:8443"}, {"op": "client_ceremony", "origin": "http://localhost:3000", "rp_id": "localhost"}]
            for pid, which in (("C02", "register"), ("C03", "authenticate")):
                F.append(Finding(pid, "client.origin-rendering-drops-part", "<Origin as Display>::fmt (Web) writes a string that depends only on Url::{%s}: scheme, host and port "
                                 "are not all covered" % ", ".join(sorted(used)), sc, _rp_view_bad(which), p))
    if n == 0:
        raise Shape("<Origin as Display>::fmt has no Web path")
    return F, n


def check_secrecy_extensions(fns, ctx):
    """the extension processing that the ceremonies treat as declassifying: its own outputs depend on the stored PRF
    secrets only through hmac_sha256 (modularly: calculate_hmac_secret <- make_prf / get_prf <- make_extensions / get_extensions)"""
    from .executor import Executor
    F = []
    n = 0
    ext_src = ctx.src["passkey-authenticator/src/authenticator/extensions.rs"]
    cred_idx = field_index_any(ext_src, "MakeExtensionOutputs", "credential")

    def rooted(u, param):
        name = None
        if u[0] in ("in", "ref") and isinstance(u[1], str):
            name = u[1]
        elif u[0] == "proj" and isinstance(u[1], tuple) and u[1] and u[1][0] == "in" and isinstance(u[1][1], str):
            name = u[1][1] + u[2]
        if name is not None and re.match(r"^%s($|[.^@\[])" % re.escape(param), name):
            return name[len(param):]
        return None

    def run(fn_suffix, classify, declass, what, pattern, select=None):
        nonlocal n
        cands = [f for nme, f in fns.items() if (nme.endswith(fn_suffix) or nme == fn_suffix.strip(":")) and "{closure" not in nme]
        if len(cands) != 1:
            raise Shape("cannot identify %s in the MIR (%d)" % (fn_suffix, len(cands)))
        for p in Executor(cands[0], follow_yields=False).run():
            if p.end and p.end[0] == "unsupported":
                raise Shape("unsupported MIR in %s: %s" % (fn_suffix, p.end[1][:160]))
            if not p.end or p.end[0] != "return":
                continue
            n += 1
            ret = p.end[1]
            tw = Taint(p, classify, declass, _fields_of(ctx), fns)
            targets = select(ret) if select else [ret]
            for t in targets:
                leaks = tw.walk(t)
                if leaks:
                    F.append(_leak_scan_finding("extensions.%s-depends-on-secret" % fn_suffix.strip(":"), "%s: %s" % (what, leaks[0][:260]), p, pattern))
                    break

    secret_param = lambda param: (lambda u: "secret" if rooted(u, param) is not None else None)
    run("::calculate_hmac_secret", secret_param("_1"), ("hmac_sha256",),
        "calculate_hmac_secret's result depends on the stored secrets outside hmac_sha256", r"prf-secret")
    run("::make_prf", secret_param("_2"), ("calculate_hmac_secret", "hmac_sha256"),
        "make_prf's result depends on the stored secrets outside calculate_hmac_secret", r"prf-secret")
    run("::get_prf", secret_param("_3"), ("calculate_hmac_secret", "hmac_sha256"),
        "get_prf's result depends on the stored secrets outside calculate_hmac_secret", r"prf-secret")

    def cls_get(u):
        rest = rooted(u, "_2")
        if rest is None:
            return None
        if rest.startswith("^"):
            rest = rest[1:]
        return _passkey_field_class(rest, ctx)
    run("::get_extensions", cls_get, ("::get_prf",), "get_extensions' result depends on the credential's secrets outside get_prf", r"prf-secret|private-scalar")

    def cls_make(u):
        if u[0] == "ret" and str(u[2]).endswith(("make_passkey_extensions", "make_hmac_secret")):
            return "secret"
        return None

    def only_outputs(ret):
        # Ok(MakeExtensionOutputs { signed, unsigned, credential }): the credential part is the secret's home
        t = ret
        while isinstance(t, tuple) and t and t[0] == "ctor" and t[2]:
            t = t[2][0]
        if isinstance(t, tuple) and t and t[0] == "struct":
            return [v for k, v in t[2] if k != "credential"]
        if isinstance(t, tuple) and t and t[0] == "errof":
            return []
        return [ret]
    run("::make_extensions", cls_make, ("::make_prf",), "make_extensions' signed / unsigned outputs depend on the new secrets outside make_prf", r"prf-secret", only_outputs)
    if n == 0:
        raise Shape("no returning path in the extension functions")
    return F, n


def check_validated_is_returned(fns):
    """C01: the name that is validated is the name that is returned.  On every Ok path of assert_android_rp_id the value
    returned is what decode_host and the suffix provider were asked about; on every Ok path of assert_web_rp_id it is what
    assert_valid_rp_id was given; inside assert_valid_rp_id both are asked about the function's own argument."""
    from .executor import Executor
    F = []
    n = 0
    android_sc = {"op": "android_rp", "cases": [["example.com", "com"], ["www.example.co.uk", "co.uk"], ["www.example.co.uk", "uk"], ["a.b.example.com", "example.com"],
                                                  ["example.com", None], ["login.shop.test.ck", "test.ck"]]}
    android_bad = lambda o: any(c["accepted"] and c["rp_is_public_suffix"] for c in o["result"]["cases"])
    web_sc = {"op": "rp_id_valid", "names": ["com", "co.uk", "uk", "test.ck"]}
    for fname, callee_suffixes in (("assert_android_rp_id", ("effective_tld_plus_one", "decode_host")), ("assert_web_rp_id", ("assert_valid_rp_id",)),
                                   ("assert_valid_rp_id", ("effective_tld_plus_one", "decode_host"))):
        cands = [f for nme, f in fns.items() if nme.endswith("::" + fname)]
        if len(cands) != 1:
            raise Shape("cannot identify %s in the MIR (%d)" % (fname, len(cands)))
        for p in Executor(cands[0], follow_yields=False).run():
            if p.end and p.end[0] == "unsupported":
                raise Shape("unsupported MIR in %s: %s" % (fname, p.end[1][:160]))
            if not p.end or p.end[0] != "return":
                continue
            n += 1
            ret = p.end[1]
            if fname == "assert_valid_rp_id":
                want = [("in", "_2")]
            else:
                if not (ret[0] == "ctor" and ret[1] == "Ok" and ret[2]):
                    continue
                want = [chase(ret[2][0])]
            for i, e in enumerate(p.events):
                if e["kind"] != "call" or not e["callee"].endswith(callee_suffixes):
                    continue
                a = chase(e["args"][-1] if e["callee"].endswith("decode_host") else e["args"][1])
                if a not in want:
                    role = "%s.validates-other-name" % fname
                    if fname == "assert_android_rp_id":
                        F.append(Finding("C01", role, "%s is asked about %s, but the name returned as accepted is %s" % (e["callee"].split("::")[-1], tstr(a)[:60], tstr(want[0])[:60]),
                                         android_sc, android_bad, p))
                    else:
                        F.append(Finding("C01", role, "%s: %s is asked about %s instead of %s" % (fname, e["callee"].split("::")[-1], tstr(a)[:60], tstr(want[0])[:60]),
                                         web_sc, lambda o: bool(o["result"].get("accepted")), p))
    if n == 0:
        raise Shape("no returning path in the RP ID validators")
    return F, n


def check_store_writes(fns, kind):
    """shipped stores (C07/C08): update_credential and save_credential put the credential they are given into the store on
    every path that answers Ok - an unconditional HashMap::insert keyed by the credential's own id (MemoryStore) or
    Option::replace / insert (Option<Passkey>)"""
    from .executor import Executor
    F = []
    n = 0
    ty = "HashMap<Vec<u8>, Passkey>" if kind == "memory" else "Option<Passkey>"
    for m in ("update_credential", "save_credential"):
        outer = [f for nme, f in fns.items() if "credential_store::<impl" in nme and nme.endswith("::" + m) and re.match(r"fn [^(]*\(_1: &mut " + re.escape(ty), f.sig)]
        if len(outer) != 1:
            raise Shape("cannot identify <%s as CredentialStore>::%s (%d)" % (ty, m, len(outer)))
        blk = fns.get(outer[0].name + "::{closure#0}")
        if blk is None:
            raise Shape("no async block for <%s>::%s" % (ty, m))
        sc = {"op": "store_write", "store_kind": kind, "method": m}
        for p in Executor(blk).run():
            if p.end and p.end[0] == "unsupported":
                raise Shape("unsupported MIR in <%s>::%s: %s" % (ty, m, p.end[1][:160]))
            if not (p.end and p.end[0] == "return" and p.end[1][0] == "ctor" and p.end[1][1] == "Ready"):
                continue
            res = result_of(p)
            if res is None or res[0] != "Ok":
                continue
            n += 1
            ev = [(i, e) for i, e in enumerate(p.events) if e["kind"] == "call"]
            if kind == "memory":
                w = [e for _, e in ev if e["callee"].endswith("HashMap::insert")]
            else:
                w = [e for _, e in ev if e["callee"].endswith(("Option::replace", "Option::insert"))]
            cred = ("proj", ("in", "_1.0"), "^.1")
            ok = False
            for e in w:
                val = chase(e["args"][-1])
                if val == cred or (val[0] == "proj" and val[1] == ("in", "_1.0")):
                    ok = True
                    if kind == "memory":
                        key = e["args"][1]
                        if not derives_from(key, ("in", "_1.0"), p) and "_1.0" not in tstr(key) + tstr(list(p.events[key[1]].get("pointees", {}).values()) if key[0] == "ret" and isinstance(key[1], int) else ""):
                            ok = False
            removers = [e["callee"].split("::")[-1] for _, e in ev if e["callee"].endswith(("::retain", "::remove", "::clear", "::drain", "::remove_entry", "::extract_if", "::take"))]
            if removers:
                for _pid in (("C07", "C02") if m == "save_credential" else ("C08",)):
                    F.append(Finding(_pid, "store.%s.%s-removes-credentials" % (kind, m),
                                     "<%s as CredentialStore>::%s also removes entries from the store (%s): other credentials can disappear" % (ty, m, removers), sc,
                                     lambda o: o["result"].get("others_kept") is not True, p))
            if not ok:
                F.append(Finding("C08" if m == "update_credential" else "C07", "store.%s.%s-not-stored" % (kind, m),
                                 "<%s as CredentialStore>::%s answers Ok on a path that does not unconditionally put the given credential into the store (calls: %s)" %
                                 (ty, m, [e["callee"].split("::")[-1] for _, e in ev][:8]), sc,
                                 lambda o: o["result"].get("stored_after") is not True, p))
    if n == 0:
        raise Shape("no Ok path in the %s store's write methods" % kind)
    return F, n


def check_authdata_setters(fns, src):
    """C12: each AuthenticatorData setter sets the AT / ED bit exactly when it attaches the corresponding section, and never
    the other one: on every returning path, the section field is written to Some(..) <=> the bit is or-ed into `flags`"""
    from .executor import Executor
    idx = {f: field_index(src, "AuthenticatorData", f) for f in ("flags", "attested_credential_data", "extensions")}
    sect = {".%d" % idx["attested_credential_data"]: "AT", ".%d" % idx["extensions"]: "ED"}
    F = []
    n = 0
    seen_sections = set()
    sc = {"op": "authdata_setters"}
    bad = lambda o: any(c["at"] != c["want_at"] or c["ed"] != c["want_ed"] or not c["decodes"] or not c["reencodes_same"] for c in o["result"]["cases"])
    for m in ("set_attested_credential_data", "set_make_credential_extensions", "set_assertion_extensions"):
        cands = [f for nme, f in fns.items() if nme.endswith("::" + m) and "attestation_fmt" in nme]
        if len(cands) != 1:
            raise Shape("cannot identify AuthenticatorData::%s (%d)" % (m, len(cands)))
        for p in Executor(cands[0], follow_yields=False).run():
            if p.end and p.end[0] == "unsupported":
                raise Shape("unsupported MIR in %s: %s" % (m, p.end[1][:160]))
            if not p.end or p.end[0] != "return":
                continue
            ret = p.end[1]
            while isinstance(ret, tuple) and ret and ret[0] == "ctor" and ret[1] == "Ok" and ret[2]:
                ret = ret[2][0]
            if isinstance(ret, tuple) and ret and ret[0] == "ctor" and ret[1] == "Err":
                continue
            n += 1
            bits = set()
            # a trailing self.set_flags(CONST)
            t = ret
            while isinstance(t, tuple) and t and t[0] == "ret" and str(t[2]).endswith("::set_flags"):
                e = p.events[t[1]]
                for b in ("AT", "ED"):
                    if tstr(e["args"][1]).endswith("Flags::%s)" % b):
                        bits.add(b)
                t = chase(e["args"][0])
            written = set()
            if isinstance(t, tuple) and t and t[0] == "with":
                for suf, v in t[2]:
                    if suf in sect and isinstance(v, tuple) and v and v[0] == "ctor" and v[1] == "Some":
                        written.add(sect[suf])
            for e in p.events:
                if e["kind"] == "call" and e["callee"].endswith(("BitOrAssign::bitor_assign", "Flags::insert", "Flags::set")):
                    pl, _ = _pointee(e, 0)
                    if pl is not None and pl.endswith(".%d" % idx["flags"]):
                        for b in ("AT", "ED"):
                            if tstr(e["args"][1]).endswith("Flags::%s)" % b):
                                bits.add(b)
            seen_sections.update(written)
            if bits != written:
                F.append(Finding("C12", "authdata.%s.section-bit-mismatch" % m, "AuthenticatorData::%s attaches section(s) %s but sets bit(s) %s" % (m, sorted(written), sorted(bits)), sc, bad, p))
    # set_flags only ever adds bits: the flags field is or-ed into, never assigned (an assignment could clear a section bit set earlier)
    cands = [f for nme, f in fns.items() if nme.endswith("::set_flags") and "attestation_fmt" in nme]
    if len(cands) != 1:
        raise Shape("cannot identify AuthenticatorData::set_flags (%d)" % len(cands))
    for p in Executor(cands[0], follow_yields=False).run():
        if p.end and p.end[0] == "unsupported":
            raise Shape("unsupported MIR in set_flags: %s" % p.end[1][:160])
        if not p.end or p.end[0] != "return":
            continue
        n += 1
        t = chase(p.end[1])
        assigned = isinstance(t, tuple) and t and t[0] == "with" and any(suf == ".%d" % idx["flags"] or suf.startswith(".%d." % idx["flags"]) for suf, _ in t[2])
        ored = [e for e in p.events if e["kind"] == "call" and e["callee"].endswith(("BitOrAssign::bitor_assign", "Flags::insert")) and (_pointee(e, 0)[0] or "").endswith(".%d" % idx["flags"])]
        if assigned or not ored:
            F.append(Finding("C12", "authdata.set_flags.overwrites-flags", "AuthenticatorData::set_flags assigns the flags field instead of or-ing into it: section bits set earlier can be lost",
                             sc, bad, p))
    if n == 0:
        raise Shape("no returning path in the AuthenticatorData setters")
    if seen_sections != {"AT", "ED"}:
        raise Shape("the setters' paths attach only %s: the section writes were not recognised" % sorted(seen_sections))
    return F, n


def _typenum(text):
    """UInt<UInt<UTerm, B1>, B0> ... -> integer"""
    bits = re.findall(r"B([01])>", text)
    if not bits:
        return None
    v = 0
    for b in bits:
        v = v * 2 + int(b)
    return v


def check_fixed_size_slices(fns, solver, names=("public_key_der_from_cose_key", "private_key_from_cose_key")):
    """C15: `GenericArray::from_slice` panics unless the slice has exactly the array's length.  On every path that reaches
    such a call, z3 is asked whether the branch conditions taken so far allow another length for that vector."""
    from .executor import Executor
    from .smt import bv_value
    F = []
    n = 0
    nq = 0
    roles = set()
    for name in names:
        if name not in fns:
            raise Shape("cannot identify %s in the MIR" % name)
        ps = Executor(fns[name], follow_yields=False, max_visits=4, max_paths=60000).run()
        for p in ps:
            if p.end and p.end[0] == "unsupported":
                raise Shape("unsupported MIR in %s: %s" % (name, p.end[1][:160]))
            n += 1
            calls_ = [(i, e) for i, e in enumerate(p.events) if e["kind"] == "call" and e["callee"].endswith("GenericArray::from_slice")]
            if not calls_:
                continue
            # lengths: `v.len()` results stand for the length of v
            lens = {}
            for i, e in enumerate(p.events):
                if e["kind"] == "call" and re.search(r"(Vec|slice|\[T\]|str)::len$|::len$", e["callee"]) and e["args"]:
                    _, pv = _pointee(e, 0)
                    lens[i] = chase(pv) if pv is not None else chase(e["args"][0])

            def subst(t):
                if isinstance(t, tuple) and t and t[0] == "ret" and isinstance(t[1], int) and t[1] in lens:
                    return ("lenof", lens[t[1]])
                if isinstance(t, tuple):
                    return tuple(subst(x) for x in t)
                return t
            for i, e in calls_:
                want_len = _typenum(e["full"])
                if want_len is None:
                    raise Shape("cannot read the array length of %s" % e["full"][:80])
                a = chase(e["args"][0])
                vec = a
                if a[0] == "ret" and str(a[2]).endswith(("as_slice", "Deref::deref", "as_ref", "borrow")):
                    ae = p.events[a[1]]
                    _, pv = _pointee(ae, 0)
                    vec = chase(pv) if pv is not None else chase(ae["args"][0])
                decls = []
                conds = []
                for k, op, v in p.conds:
                    t = p.cond_term.get(k)
                    if t is None or t[0] != "op" or t[1] not in ("Lt", "Le", "Gt", "Ge", "Eq", "Ne"):
                        continue
                    t2 = subst(t)
                    try:
                        x, y = _bv_smt(t2[2], decls), _bv_smt(t2[3], decls)
                    except Shape:
                        continue
                    rel = {"Lt": "(bvult %s %s)", "Le": "(bvule %s %s)", "Gt": "(bvugt %s %s)", "Ge": "(bvuge %s %s)", "Eq": "(= %s %s)", "Ne": "(distinct %s %s)"}[t[1]] % (x, y)
                    if op == "==":
                        conds.append(rel if v == 1 else "(not %s)" % rel)
                L = _len_smt(vec, decls)
                verdict, model = solver.check(decls, conds + ["(distinct %s (_ bv%d 64))" % (L, want_len), "(bvult %s (_ bv1024 64))" % L], want_model=True)
                nq += 1
                if verdict == "sat":
                    role = "%s.unchecked-slice-length" % name
                    if role in roles:
                        continue
                    roles.add(role)
                    lv = bv_value(model.get(L, "")) if model else None
                    F.append(Finding("C15", role, "%s reaches GenericArray::<u8, %d>::from_slice with a slice whose length is not constrained to %d (e.g. %s): it panics" %
                                     (name, want_len, want_len, lv), {"op": "cose_converter"},
                                     lambda o: any(c["outcome"] == "panic" for c in o["result"]["cases"]), p))
                elif verdict != "unsat":
                    raise Shape("solver answered %s on the slice-length query" % verdict)
    return F, n, nq


# ---- C13: which members of the integer-keyed messages are required, which take a default ---------------

CTAP_REQUIRED = {
    "get_assertion::Request": {"rp_id", "client_data_hash"},
    "make_credential::Request": {"client_data_hash", "rp", "user", "pub_key_cred_params"},
    "get_info::Response": {"versions", "aaguid"},
    "HmacGetSecretInput": {"key_agreement", "salt_enc", "salt_auth"},
}


def check_member_requiredness(fns):
    """every serde_workaround!-generated visit_map: on the path that finds no key at all, a member the CTAP specification
    requires is resolved through `ok_or_else(missing_field)`, every other member through `unwrap_or_default`"""
    from .executor import Executor
    F = []
    n = 0
    vms = [f for nme, f in fns.items() if nme.endswith(">::visit_map") and "serde_workaround.rs" in nme]
    if not vms:
        raise Shape("no serde_workaround visit_map in the MIR")
    sc = {"op": "cbor_minimal"}

    def bad(o):
        for m in o["result"]["messages"]:
            if not m["minimal_decodes"] or m["missing_required_accepted"]:
                return True
            d = m["defaults"] or {}
            if "up" in d and (d["up"] is not True or d["rk"] or d["uv"]):
                return True
            if any(v for k, v in d.items() if k not in ("up", "rk", "uv")):
                return True
        return False
    seen = set()
    for f in vms:
        m = re.search(r"-> Result<([\w:]+),", f.sig)
        ty = m.group(1) if m else "?"
        key = next((k for k in CTAP_REQUIRED if ty.endswith(k)), None)
        if key is None:
            raise Shape("visit_map for a message type without a requiredness table: %s" % ty)
        seen.add(key)
        ps = Executor(f, follow_yields=False, max_visits=2, max_paths=200000).run()
        oks = [p for p in ps if p.end and p.end[0] == "return" and p.end[1][0] == "ctor" and p.end[1][1] == "Ok" and p.end[1][2] and p.end[1][2][0][0] == "struct"]
        if not oks:
            raise Shape("no Ok path with a struct literal in the visit_map of %s" % ty)
        for p in oks:
            n += 1
            for field, v in p.end[1][2][0][2]:
                t = chase(v)
                while isinstance(t, tuple) and t and t[0] == "proj":
                    t = chase(t[1])
                kind = None
                if t[0] == "ret" and str(t[2]).endswith(("unwrap_or_default", "unwrap_or", "unwrap_or_else")):
                    kind = "default"
                elif t[0] == "ret" and str(t[2]).endswith(("ok_or_else", "ok_or")):
                    kind = "required"
                elif t[0] == "branch":
                    kind = "required"
                if kind is None:
                    raise Shape("cannot tell how member %s of %s is resolved: %s" % (field, ty, tstr(t)[:80]))
                want = "required" if field in CTAP_REQUIRED[key] else "default"
                if kind != want:
                    role = "visit_map.%s.%s.%s-but-%s" % (key, field, kind, want)
                    if role not in [x.role for x in F]:
                        F.append(Finding("C13", role, "member `%s` of %s is treated as %s; the CTAP specification makes it %s" %
                                         (field, key, "required" if kind == "required" else "optional with a default", "required" if want == "required" else "optional"), sc, bad, p))
    return F, n


# ---- C14: the lenient base64 wrappers ---------------------------------------------------------------------

def check_base64_wrappers(fns):
    """try_from_base64 / try_from_base64url strip trailing padding and then decode with an encoding that does not expect
    padding (BASE64_NOPAD, or a specification whose `padding` is None); base64 / base64url encode without padding"""
    from .executor import Executor
    F = []
    n = 0
    sc = {"op": "base64_lenient"}
    bad = lambda o: bool(o["result"]["mismatches"])
    for name, kind in (("try_from_base64", "dec"), ("try_from_base64url", "dec"), ("base64", "enc"), ("base64url", "enc")):
        cands = [f for nme, f in fns.items() if nme in (name, "encoding::" + name, "utils::encoding::" + name) or nme.endswith("::encoding::" + name)]
        if len(cands) != 1:
            raise Shape("cannot identify encoding::%s (%d)" % (name, len(cands)))
        for p in Executor(cands[0], follow_yields=False).run():
            if p.end and p.end[0] == "unsupported":
                raise Shape("unsupported MIR in encoding::%s: %s" % (name, p.end[1][:160]))
            if not p.end or p.end[0] != "return":
                continue
            n += 1
            ev = [e for e in p.events if e["kind"] == "call"]
            text = " ".join(tstr(e["args"]) + tstr(list(e.get("pointees", {}).values())) for e in ev)
            if kind == "dec":
                dec = [e for e in ev if e["callee"].endswith("Encoding::decode")]
                if not dec:
                    continue
                trims = [e for e in ev if e["callee"].endswith(("trim_end_matches", "trim_matches"))]
                src = tstr(dec[0]["args"]) + tstr(list(dec[0].get("pointees", {}).values()))
                spec_enc = [e for e in ev if e["callee"].endswith("Specification::encoding")]
                nopad = "NOPAD" in src
                if not nopad and spec_enc and derives_from(dec[0]["args"][0], spec_enc[0]["ret"], p) or (spec_enc and any(derives_from(v, spec_enc[0]["ret"], p) for _, v in dec[0].get("pointees", {}).values())):
                    _, sv = _pointee(spec_enc[0], 0)
                    pad = _struct_field(sv, "padding") if sv is not None else None
                    nopad = pad == ("ctor", "None", ())
                if not nopad and ("BASE64" in src):
                    F.append(Finding("C14", "encoding.%s.padded-decoder" % name, "encoding::%s strips the padding but decodes with a padded encoding (%s)" % (name, src[:80]), sc, bad, p))
                if not trims or not any(derives_from(a, trims[0]["ret"], p) for a in dec[0]["args"]):
                    F.append(Finding("C14", "encoding.%s.padding-not-stripped" % name, "encoding::%s does not decode the input with its trailing padding stripped" % name, sc, bad, p))
            else:
                enc = [e for e in ev if e["callee"].endswith("Encoding::encode")]
                src = tstr(enc[0]["args"]) + tstr(list(enc[0].get("pointees", {}).values())) if enc else ""
                want = "BASE64URL_NOPAD" if name == "base64url" else "BASE64_NOPAD"
                if not enc or want not in src:
                    F.append(Finding("C14", "encoding.%s.wrong-alphabet-or-padding" % name, "encoding::%s does not encode with %s (%s)" % (name, want, src[:80]), sc, bad, p))
    if n == 0:
        raise Shape("no returning path in the base64 wrappers")
    return F, n


def check_member_order(sources):
    """C13: the members of every serde_workaround! struct are declared in ascending key order (the generated serializer
    writes them in declaration order, and the map must come out with ascending integer keys).  `sources`: {path: text}"""
    F = []
    n = 0
    for path, text in sorted(sources.items()):
        for m in re.finditer(r"serde_workaround!\s*\{(.*?)\n\}", text, re.S):
            body = m.group(1)
            sm = re.search(r"pub struct (\w+)", body)
            if not sm:
                continue
            keys = [int(x, 0) for x in re.findall(r"#\[serde\(\s*rename\s*=\s*(0x[0-9a-fA-F]+|\d+)", body)]
            if not keys:
                continue
            n += 1
            if keys != sorted(keys) or len(set(keys)) != len(keys):
                F.append(Finding("C13", "member-order.%s.%s" % (os.path.basename(path).replace(".rs", ""), sm.group(1)),
                                 "%s::%s declares its members with keys %s: not strictly ascending, so the serialised map is not in ascending key order" %
                                 (os.path.basename(path), sm.group(1), keys), {"op": "cbor_keys"},
                                 lambda o: any(not x["ascending"] for x in o["result"]["messages"]), None))
    if n == 0:
        raise Shape("no serde_workaround! struct found in the CTAP2 sources")
    return F, n
