"""Property checks over the paths enumerated by the MIR executor (engine E2).

Each check returns Findings.  A finding carries a *scenario* for the native replay runner and a
predicate over the runner's output; it becomes a VIOLATION only if the predicate holds on the real
code.  A check that meets a MIR shape it does not understand raises Shape -> inconclusive."""
import re, json
from .executor import tstr, strip_via

MUTATING = ("CredentialStore::save_credential", "CredentialStore::update_credential")
STORE_OR_USER = ("CredentialStore::", "Authenticator::check_user", "UserValidationMethod::")
ERR_CODES = {"PinAuthInvalid": 0x33, "UnsupportedOption": 0x2B, "InvalidOption": 0x2C, "NoCredentials": 0x2E,
             "CredentialExcluded": 0x19, "OperationDenied": 0x27, "UnsupportedAlgorithm": 0x26}


class Shape(Exception):
    pass


class Finding:
    def __init__(self, prop, role, text, scenario=None, predicate=None, path=None):
        self.prop, self.role, self.text = prop, role, text
        self.scenario, self.predicate, self.path = scenario, predicate, path


# ---- helpers over a path -----------------------------------------------------------------

def calls(p, name):
    return [(i, e) for i, e in enumerate(p.events) if e["kind"] == "call" and e["callee"].endswith(name)]


def env_calls(p):
    return [(i, e) for i, e in enumerate(p.events) if e["kind"] == "call" and not e.get("pure")]


def cond_value(p, key):
    for k, op, v in p.conds:
        if k == key and op == "==":
            return v
    return None


def await_discr(p, ret):
    return cond_value(p, tstr(("discr", ("await", ret))))


def ret_discr(p, ret):
    return cond_value(p, tstr(("discr", ret)))


def result_of(p):
    """-> ('Ok', term) | ('Err', term) | None"""
    if not p.end or p.end[0] != "return":
        return None
    r = p.end[1]
    if r[0] == "ctor" and r[1] == "Ready" and r[2] and r[2][0][0] == "ctor" and r[2][0][1] in ("Ok", "Err"):
        inner = r[2][0]
        return inner[1], (inner[2][0] if inner[2] else None)
    return None


def contains(t, sub):
    if t == sub:
        return True
    if isinstance(t, tuple):
        return any(contains(x, sub) for x in t)
    return False


def derives_from(t, origin, p, depth=0):
    """t contains `origin`, possibly through the arguments of the calls whose results appear in t"""
    if contains(t, origin):
        return True
    if depth > 6 or not isinstance(t, tuple):
        return False
    if t and t[0] == "ret" and isinstance(t[1], int) and t[1] < len(p.events):
        ev = p.events[t[1]]
        return any(derives_from(a, origin, p, depth + 1) for a in ev.get("args", [])) or \
            any(derives_from(v, origin, p, depth + 1) for _, v in ev.get("pointees", {}).values())
    return any(derives_from(x, origin, p, depth + 1) for x in t if isinstance(x, tuple))


def chase(t):
    while isinstance(t, tuple) and t and t[0] in ("via", "clone", "cast"):
        t = t[2] if t[0] == "via" else t[1]
    return t


def const_arg(t):
    t = chase(t)
    return isinstance(t, tuple) and t and t[0] == "const"


def no_yield(p):
    return not any(e["kind"] == "yield" for e in p.events)


def mutating(p):
    return [(i, e) for i, e in env_calls(p) if e["callee"] in MUTATING]


def field_index(src, struct, field):
    """index of `field` in `pub struct <struct> {` of the source text (declaration order)"""
    m = re.search(r"pub struct %s\s*\{(.*?)\n\s*\}" % re.escape(struct), src, re.S)
    if not m:
        raise Shape("struct %s not found in source" % struct)
    names = re.findall(r"^\s*(?:pub(?:\([a-z]+\))? )?([a-z_0-9]+):\s", m.group(1), re.M)
    if field not in names:
        raise Shape("field %s not in struct %s (%s)" % (field, struct, names))
    return names.index(field)


def input_field(ctx, *idx):
    """term of the coroutine's captured `input` projected by field indices: (proj (in _1.0) ^.1.<i>.<j>)"""
    return ctx.in_field(*idx)


def describe(p):
    return {"calls": [e["callee"] for _, e in env_calls(p)],
            "yields": [e["state"] for e in p.events if e["kind"] == "yield"],
            "conds": [[k[:90], op, v] for k, op, v in p.conds],
            "result": tstr(p.end[1])[:160] if p.end and len(p.end) > 1 else str(p.end)}


# ---- scenario construction -----------------------------------------------------------------

class Ctx:
    """what the checks need to know about the source tree of this run"""

    def __init__(self, sources):
        self.src = sources
        ga = sources["passkey-types/src/ctap2/get_assertion.rs"]
        mc = sources["passkey-types/src/ctap2/make_credential.rs"]
        pk = sources["passkey-types/src/passkey.rs"]
        self.ga = {f: field_index(ga, "Request", f) for f in ("rp_id", "allow_list", "options", "pin_auth", "extensions", "client_data_hash")}
        self.mc = {f: field_index(mc, "Request", f) for f in ("rp", "user", "pub_key_cred_params", "exclude_list", "options", "pin_auth", "extensions")}
        self.opt = {f: field_index(mc, "Options", f) for f in ("rk", "up", "uv")}
        self.pk = {f: field_index(pk, "Passkey", f) for f in ("key", "credential_id", "rp_id", "user_handle", "counter", "extensions")}
        self.rp_id_idx = field_index(mc, "PublicKeyCredentialRpEntity", "id")
        self.input_in = {}      # fn key -> suffix of the `in` term of the request (e.g. '^.1')
        self.input_place = {}   # fn key -> place holding the request while the coroutine runs

    def set_fn(self, key, fn):
        """where the request lives in this coroutine (from the MIR's `debug input =>` lines)"""
        d = fn.debug.get("input") or fn.debug.get("request")
        if not d:
            raise Shape("no `debug input` in %s" % fn.name[:80])
        first, last = d[0], d[-1]
        m = re.match(r"^_\d+(\^.*)$", first)
        if not m:
            raise Shape("unexpected place of the captured request: %s" % first)
        self.input_in[key] = m.group(1)
        self.input_place[key] = last
        self.cur = key

    def in_field(self, *idx):
        return ("proj", ("in", "_1.0"), self.input_in[self.cur] + "".join(".%d" % i for i in idx))

    def is_input_ref(self, t, *idx):
        """t is a reference to the request's field path idx (in its suspended-state location)"""
        return t[0] == "ref" and t[1] == self.input_place[self.cur] + "".join(".%d" % i for i in idx)


def ga_scenario(p, ctx, counter=None, strict=False):
    ctx.cur = "ga"
    """request + fault schedule of a get_assertion path; None if the path needs a callee outcome the
    replay doubles cannot force (internal helper failing)"""
    sc = {"op": "get_assertion", "request": {"up": True, "uv": False, "rk": False, "pin_auth": False, "allow_list": None},
          "store": {"find": {"ok": 1}, "held": [{"counter": None}], "pending": {}},
          "user": {"verification": True, "presence_enabled": True, "outcome": {"ok": [True, True]}, "pending": 0}}
    for k, op, v in p.conds:
        if op != "==":
            continue
        if "isvariant is_some" in k and (ctx.input_place["ga"] + ".%d))" % ctx.ga["pin_auth"]) in k:
            sc["request"]["pin_auth"] = bool(v)
        elif k == tstr(input_field(ctx, ctx.ga["options"], ctx.opt["rk"])):
            sc["request"]["rk"] = bool(v)
        elif k.startswith("(discr (await (ret") and "Authenticator::check_user" in k:
            if v == 1:
                sc["user"]["outcome"] = {"err": 0x27}
        elif k.startswith("(discr (ret") and "Result::and_then" in k:
            if v == 1:
                sc["store"]["find"] = {"err": 0x2E}
        elif k.startswith("(discr (proj (ret") and k.endswith("@Ok.0.%d))" % ctx.pk["counter"]):
            sc["store"]["held"][0]["counter"] = (7 if counter is None else counter) if v == 1 else None
        elif k.startswith("(discr (await (ret") and "update_credential" in k:
            if v == 1:
                sc["store"]["update"] = {"err": 0x28}
        elif k.startswith("(discr (pollres"):
            pass
        elif k.startswith("(discr (ret") and any(x in k for x in ("Option::ok_or", "get_extensions", "set_assertion_extensions", "private_key_from_cose_key")):
            if v == 1 and strict:
                return None
        elif k.startswith("(discr (await (ret") and "find_credentials" in k:
            if v == 1:
                sc["store"]["find"] = {"err": 0x2E}
        elif strict:
            return None
    for e in p.events:
        if e["kind"] == "yield":
            if e["state"] == 3:
                sc["store"]["pending"]["find"] = 1
            elif e["state"] == 4:
                sc["user"]["pending"] = 1
            elif e["state"] == 5:
                sc["store"]["pending"]["update"] = 1
    return sc


def predicted_log(p):
    m = {"CredentialStore::find_credentials": "find", "Authenticator::check_user": "check_user",
         "CredentialStore::update_credential": "update", "CredentialStore::save_credential": "save",
         "CredentialStore::get_info": "get_info"}
    return [m[e["callee"]] for _, e in env_calls(p) if e["callee"] in m]


# ---- get_assertion ---------------------------------------------------------------------------

def _strip_via(t):
    while isinstance(t, tuple) and t and t[0] == "via":
        t = t[2]
    return t


def _pointee(e, k):
    """(place, value at call time) of reference argument k of call event e, or (None, None)"""
    return e.get("pointees", {}).get(k, (None, None))


def _struct_field(t, name):
    if isinstance(t, tuple) and t and t[0] == "struct":
        for k, v in t[2]:
            if k == name:
                return v
    return None


def assertion_binding_checks(p, ctx, payload, find, sign):
    """C03, data flow of a successful get_assertion path (crypto itself is an environment call):
    the signature returned is the one signature made on this path; it is made with the key of the
    credential that came out of the lookup and that is named in the response; the signed message is the
    serialisation of exactly the authenticator data that is returned, extended by exactly the request's
    client data hash; that authenticator data is built for the request's rp_id and carries no attested
    credential data."""
    F = []
    ev = env_calls(p)
    sc = ga_scenario(p, ctx)
    if sc:
        # the same path with the other consent outcomes and with extension output, so that a difference in flags or
        # extensions between what is signed and what is returned shows
        vs = [sc]
        for outcome, uv in (([True, False], False), ([True, True], True)):
            v = json.loads(json.dumps(sc))
            v["user"]["outcome"] = {"ok": outcome}
            v["request"]["uv"] = uv
            vs.append(v)
            w = json.loads(json.dumps(v))
            w["request"]["prf_eval"] = True
            w["store"]["held"][0]["hmac"] = "both"
            w["config"] = {"hmac_secret": "without_uv"}
            vs.append(w)
        sc = vs
    bind = lambda o: o["result"]["ok"]["binding"] if isinstance(o["result"], dict) and "ok" in o["result"] else {}
    not_verifying = lambda o: bind(o).get("verifies") is not True
    resp = payload
    while isinstance(resp, tuple) and resp and resp[0] != "struct":
        # Ok payload: (struct Response ...)
        nxt = [x for x in resp[1:] if isinstance(x, tuple)]
        if not nxt:
            break
        resp = nxt[0]
    if not (isinstance(resp, tuple) and resp and resp[0] == "struct" and "Response" in resp[1]):
        raise Shape("get_assertion's Ok value is not a Response literal: %s" % tstr(payload)[:120])
    r_auth = _struct_field(resp, "auth_data")
    r_sig = _struct_field(resp, "signature")
    r_cred = _struct_field(resp, "credential")
    if r_auth is None or r_sig is None or r_cred is None:
        raise Shape("Response literal without auth_data / signature / credential")
    if len(sign) != 1:
        F.append(Finding("C03", "ga.signatures-per-assertion", "a successful path makes %d signatures" % len(sign), sc, not_verifying, p))
        return F
    si, se = sign[0]
    # -- authenticator data: for the request's rp_id, no attested credential data
    new = calls(p, "AuthenticatorData::new")
    if not new:
        raise Shape("no AuthenticatorData::new call on a successful get_assertion path")
    for _, ne in new:
        a0 = _strip_via(ne["args"][0])
        _, a0v = _pointee(ne, 0)
        from_lookup = bool(find) and a0v is not None and derives_from(a0v, ("await", find[0][1]["ret"]), p) and tstr(chase(a0v)).endswith(".%d)" % ctx.pk["rp_id"])
        if not ctx.is_input_ref(a0, ctx.ga["rp_id"]) and not from_lookup:
            F.append(Finding("C03", "ga.authdata-rp-id", "the authenticator data is built for %s, not for the request's rp_id" % tstr(a0)[:80], sc,
                             lambda o: bind(o).get("rp_hash_ok") is not True, p))
    if calls(p, "set_attested_credential_data") or calls(p, "AuthenticatorData::set_attested_credential_data"):
        F.append(Finding("C03", "ga.attested-data-in-assertion", "an assertion's authenticator data is given attested credential data", sc,
                         lambda o: bind(o).get("attested") is not False, p))
    # the returned authenticator data descends from such a constructor call
    if not any(derives_from(r_auth, ne["ret"], p) for _, ne in new):
        F.append(Finding("C03", "ga.returned-authdata-source", "the returned authenticator data is not the one built for this request (%s)" % tstr(r_auth)[:80], sc, not_verifying, p))
    # -- the signed message
    tv = [(i, e) for i, e in ev if e["callee"].endswith("AuthenticatorData::to_vec") and i < si]
    msg_place, msg_val = _pointee(se, 1)
    if msg_place is None:
        raise Shape("cannot see what the sign call's message argument points to: %s" % tstr(se["args"][1])[:80])
    src = [(i, e) for i, e in tv if e["ret"] == msg_val]
    if not src:
        F.append(Finding("C03", "ga.signed-message-source", "the signed buffer does not start as the serialised authenticator data (%s)" % tstr(msg_val)[:80], sc, not_verifying, p))
    else:
        ti, te = src[0]
        _, ser = _pointee(te, 0)
        if ser is None:
            ser = te["args"][0]
        if ser != r_auth:
            F.append(Finding("C03", "ga.signed-authdata-differs", "the authenticator data that is signed (%s) is not the authenticator data that is returned (%s)" %
                             (tstr(ser)[:60], tstr(r_auth)[:60]), sc, not_verifying, p))
        touch = [(i, e) for i, e in ev if ti < i < si and any(pl == msg_place for pl, _ in e.get("pointees", {}).values())
                 and not e["callee"].endswith(("Deref::deref", "DerefMut::deref_mut"))]
        ext = [(i, e) for i, e in touch if e["callee"].endswith("Extend::extend") or e["callee"].endswith("::extend_from_slice")]
        other = [e["callee"] for i, e in touch if (i, e) not in ext]
        if len(ext) != 1 or other:
            F.append(Finding("C03", "ga.signed-message-shape", "between serialisation and signing the buffer is touched by %s (expected: extended once, by the client data hash)" %
                             [e["callee"] for _, e in touch], sc, not_verifying, p))
        else:
            h = _strip_via(ext[0][1]["args"][1])
            hp, hv = _pointee(ext[0][1], 1)
            ok_h = h == ctx.in_field(ctx.ga["client_data_hash"]) or ctx.is_input_ref(h, ctx.ga["client_data_hash"]) or \
                (hv is not None and hv == ctx.in_field(ctx.ga["client_data_hash"]))
            if not ok_h:
                F.append(Finding("C03", "ga.signed-hash-source", "the signed buffer is extended by %s, not by the request's client data hash" % tstr(h)[:80], sc, not_verifying, p))
    # -- the key
    kp, kv = _pointee(se, 0)
    pk = calls(p, "private_key_from_cose_key")
    if kv is None or len(pk) != 1 or not derives_from(kv, pk[0][1]["ret"], p):
        F.append(Finding("C03", "ga.signing-key-source", "the signing key is not the one converted from a stored COSE key (%s)" % (tstr(kv)[:80] if kv else "?"), sc, not_verifying, p))
    elif find:
        origin = ("await", find[0][1]["ret"])
        cp, cv = _pointee(pk[0][1], 0)
        if cv is None or not derives_from(cv, origin, p):
            F.append(Finding("C03", "ga.signing-key-source", "the signing key does not come from the looked-up credential (%s)" % (tstr(cv)[:80] if cv else "?"), sc, not_verifying, p))
        else:
            # the credential named in the response is the one whose key signs
            want_key_suffix = ".%d" % ctx.pk["key"]
            t = chase(cv)
            base = None
            if t[0] == "proj" and t[2].endswith(want_key_suffix):
                base = ("proj", t[1], t[2][:-len(want_key_suffix)]) if t[2][:-len(want_key_suffix)] else t[1]
            if base is None:
                raise Shape("the COSE key given to the converter is not a credential's key field: %s" % tstr(t)[:100])
            if not contains(r_cred, base):
                F.append(Finding("C03", "ga.returned-credential-differs", "the credential named in the response (%s) is not the credential whose key signs (%s)" %
                                 (tstr(r_cred)[:60], tstr(base)[:60]), sc, lambda o: not_verifying(o) or bind(o).get("credential_held_for_rp") is not True, p))
    # -- the signature that is returned
    if not derives_from(r_sig, se["ret"], p):
        F.append(Finding("C03", "ga.returned-signature-source", "the returned signature bytes do not come from the signature made on this path (%s)" % tstr(r_sig)[:80], sc, not_verifying, p))
    return F


def check_get_assertion(paths, ctx, want):
    """want: set of property ids to evaluate.  -> (findings, stats)"""
    F = []
    ctx.cur = "ga"
    stats = {"paths": len(paths), "checked": 0}
    for p in paths:
        if p.end and p.end[0] == "unsupported":
            raise Shape("unsupported MIR in get_assertion: " + p.end[1][:200])
        res = result_of(p)
        if res is None:
            if p.end and p.end[0] == "panic" and "resumed after" in p.end[1]:
                continue
            if p.end and p.end[0] == "panic":
                continue
            raise Shape("get_assertion path with unexpected end: %r" % (p.end,))
        stats["checked"] += 1
        ev = env_calls(p)
        find = calls(p, "CredentialStore::find_credentials")
        cu = calls(p, "Authenticator::check_user")
        upd = calls(p, "CredentialStore::update_credential")
        sign = [(i, e) for i, e in ev if e["callee"].endswith("::sign") or e["callee"].endswith("::try_sign")]
        ext = calls(p, "get_extensions")
        muts = mutating(p)
        kind, payload = res
        cu_ok = [(i, e) for i, e in cu if await_discr(p, e["ret"]) == 0]

        if "C07" in want:
            bad = [e["callee"] for _, e in muts if e["callee"] != "CredentialStore::update_credential"]
            if bad or len(muts) > 1:
                F.append(Finding("C07", "ga.mutations", "get_assertion path with store mutations %s (at most one update_credential expected)" % [e["callee"] for _, e in muts], path=p))
            for i, e in upd:
                d = await_discr(p, e["ret"])
                if kind == "Ok" and d != 0:
                    sc = with_store_errors(ga_scenario(p, ctx), "update")
                    F.append(Finding("C07", "ga.ok-without-accepted-update", "an assertion is returned on a path where the store's answer to update_credential is not checked",
                                     sc, lambda o: isinstance(o["result"], dict) and "ok" in o["result"] and any(c["call"] == "update" for c in o["log"]), p))
                if d == 1:
                    want_err = ("errof", ("residual", ("await", e["ret"])), "same")
                    if kind != "Err" or payload != want_err:
                        sc = with_store_errors(ga_scenario(p, ctx), "update")
                        F.append(Finding("C07", "ga.update-error-not-propagated", "update_credential's error is not what get_assertion returns (%s)" % tstr(payload)[:80],
                                         sc, lambda o, sc=None: o["result"] != {"err": o["scenario"]["store"]["update"]["err"]}, p))
                later = [j for j, x in ext + sign if j < i]
                if later:
                    F.append(Finding("C07", "ga.update-after-signing", "update_credential is issued after extension processing / signing", ga_scenario(p, ctx),
                                     lambda o: True, p))
            # lookup errors surface only after consent
            if kind == "Err" and find and not cu and payload is not None and derives_from(payload, ("await", find[0][1]["ret"]), p):
                sc = ga_scenario(p, ctx)
                F.append(Finding("C07", "ga.lookup-error-before-consent", "a lookup error is returned before the consent step", sc,
                                 lambda o: not any(c["call"] == "check_user" for c in o["log"]) and isinstance(o["result"], dict) and "err" in o["result"], p))

        if "C04" in want:
            needs_consent = bool(upd or sign or kind == "Ok")
            if needs_consent:
                first_sensitive = min([i for i, _ in upd + sign] + [len(p.events)])
                if not [1 for i, _ in cu_ok if i < first_sensitive]:
                    sc = ga_scenario(p, ctx)
                    if sc:
                        sc["user"]["outcome"] = {"err": 0x27}
                    F.append(Finding("C04", "ga.use-without-consent", "credential used (update/sign/Ok) on a path without a successful consent step before it", sc,
                                     lambda o: "ok" in json.dumps(o["result"]) or any(c["call"] == "update" for c in o["log"]), p))
            consent_failed = [(i, e) for i, e in cu if await_discr(p, e["ret"]) == 1]
            before_consent_exit = not cu
            if consent_failed or before_consent_exit:
                if muts:
                    F.append(Finding("C04", "ga.mutation-without-consent", "store mutated although consent was not obtained", ga_scenario(p, ctx),
                                     lambda o: any(c["call"] in ("update", "save") for c in o["log"]), p))
                # same outcome whether or not a matching credential exists: the path condition must not
                # depend on the lookup result
                dep = [k for k, op, v in p.conds if ("Result::and_then" in k or ("find_credentials" in k and "(await" in k))]
                if dep and find:
                    # two requests that differ only in whether a matching credential exists, consent denied in both
                    base = ga_scenario(p, ctx)
                    if base:
                        base["user"]["outcome"] = {"err": 0x27}
                        a = json.loads(json.dumps(base)); a["store"]["find"] = {"ok": 1}
                        b = json.loads(json.dumps(base)); b["store"]["find"] = {"err": 0x2E}
                        pair = {"pair": [a, b]}
                    else:
                        pair = None
                    F.append(Finding("C04", "ga.existence-disclosed-before-consent", "outcome without consent depends on the lookup result: %s" % dep[0][:80], pair,
                                     lambda outs: outs[0]["result"] != outs[1]["result"], p))
            if consent_failed:
                i, e = consent_failed[0]
                if kind != "Err" or not contains(payload, ("await", e["ret"])):
                    F.append(Finding("C04", "ga.consent-error-not-returned", "consent failed but the result is %s" % tstr(payload)[:80], ga_scenario(p, ctx),
                                     lambda o: o["result"] != {"err": 0x27}, p))
            # flags reported = flags returned by the consent step
            sf = calls(p, "AuthenticatorData::set_flags")
            for i, e in sf:
                if not cu_ok:
                    raise Shape("set_flags without consent event")
                want_flags = ("proj", ("await", cu_ok[0][1]["ret"]), "@Ok.0")
                if chase(e["args"][1]) != want_flags:
                    F.append(Finding("C04", "ga.flags-not-from-consent", "flags given to the authenticator data are %s, not the consent step's result" % tstr(e["args"][1])[:80],
                                     None, None, p))
            # credential shown = credential that signs = a credential from the lookup
            if cu and find:
                origin = ("await", find[0][1]["ret"])
                shown = cu[0][1]["args"][2]
                shown_t = chase(shown)
                if shown_t[0] == "ref":
                    # a reference to the coroutine field holding the lookup result
                    holder = [e for _, e in env_calls(p) if e["kind"] == "call"]
                    ok_shown = True
                else:
                    ok_shown = derives_from(shown, origin, p) or (shown_t[0] == "ctor" and shown_t[1] == "None")
                if not ok_shown:
                    F.append(Finding("C04", "ga.consent-for-other-credential", "the credential passed to the consent step does not come from the lookup result", None, None, p))
                pk = calls(p, "private_key_from_cose_key")
                for i, e in pk:
                    a0 = e["args"][0]
                    if not derives_from(a0, origin, p) and chase(a0)[0] != "ref":
                        F.append(Finding("C04", "ga.signs-with-other-credential", "the signing key does not come from the looked-up credential", None, None, p))

        if "C03" in want and kind == "Ok":
            F += assertion_binding_checks(p, ctx, payload, find, sign)

        if "C05" in want and find:
            i, e = find[0]
            rp = chase(e["args"][2])
            want_place = "@variant#"  # coroutine field of `input`
            if not ctx.is_input_ref(rp, ctx.ga["rp_id"]):
                F.append(Finding("C05", "ga.lookup-rp-id", "find_credentials does not receive the request's rp_id (%s)" % tstr(rp)[:80], None, None, p))
            ids = e["args"][1]
            if not (ids[0] == "ret" and ids[2] == "Option::filter"):
                F.append(Finding("C05", "ga.allow-list-not-filtered", "the allow list is not passed through the emptiness filter (%s)" % tstr(ids)[:80], None, None, p))
            else:
                fe = p.events[ids[1]]
                src = chase(fe["args"][0])
                if not ctx.is_input_ref(src, ctx.ga["allow_list"]):
                    F.append(Finding("C05", "ga.allow-list-source", "the id list given to the store is not the request's allow list", None, None, p))

        if "C05" in want and find:
            sel = calls(p, "Result::and_then")
            picked_ok = False
            if sel:
                clo = chase(sel[0][1]["args"][1]) if len(sel[0][1]["args"]) > 1 else None
                if clo is not None and clo[0] == "closure" and getattr(ctx, "fns", None):
                    f = _closure_fn(ctx.fns, clo)
                    if f is not None:
                        from .executor import Executor
                        names = set()
                        for q in Executor(f, follow_yields=False).run():
                            names |= {e2["callee"] for e2 in q.events if e2["kind"] == "call"}
                        picked_ok = any(n.endswith("Iterator::next") for n in names) and any(n.endswith("into_iter") for n in names) \
                            and not any(n.endswith(x) for n in names for x in ("::pop", "::last", "::max_by_key", "::rev", "::next_back", "::swap_remove"))
            if not picked_ok:
                sc = ga_scenario(p, ctx)
                if sc:
                    sc["store"]["find"] = {"ok": 2}
                    sc["store"]["held"] = [{"counter": None}, {"counter": None}]
                F.append(Finding("C05", "ga.first-credential", "the credential used is not obtained as the first element of the store's result", sc,
                                 lambda o: isinstance(o["result"], dict) and "ok" in o["result"] and o["result"]["ok"]["credential_first_byte"] != 1, p))

        if "C09" in want:
            for i, e in ext:
                uv_arg = chase(e["args"][3])
                ok_uv = False
                if uv_arg[0] == "ret" and uv_arg[2].endswith("contains"):
                    ce = p.events[uv_arg[1]]
                    flags_src = chase(ce["args"][0])
                    # the flags must be the consent step's result (held in a coroutine field) and the bit must be UV
                    from_consent = cu_ok and (derives_from(flags_src, ("await", cu_ok[0][1]["ret"]), p) or flags_src[0] == "ref")
                    ok_uv = bool(from_consent) and "UV" in tstr(ce["args"][1])
                if not ok_uv:
                    sc = ga_scenario(p, ctx)
                    if sc:
                        sc["request"]["uv"] = False
                        sc["request"]["prf_eval"] = True
                        sc["user"]["outcome"] = {"ok": [True, True]}
                        sc["config"] = {"hmac_secret": "uv_only"}
                        sc["store"]["held"][0]["hmac"] = "uv_only"
                    F.append(Finding("C09", "ga.ext-uv", "get_extensions is told %s instead of whether the user was actually verified" % tstr(uv_arg)[:80], sc,
                                     lambda o: o["result"] == {"err": 0x3C}, p))

        if "C08" in want:
            for i, e in upd:
                passed = e["args"][1]
                stats.setdefault("c08_update_terms", []).append(tstr(passed)[:200])

        if "C11" in want and kind == "Ok":
            mp = calls(p, "Option::map")
            if not mp:
                raise Shape("no Option::map for the response's user")
            src = chase(mp[-1][1]["args"][0])
            # must be the credential's user_handle (clone of ...@variant#5.<cred>.<user_handle>)
            if not re.search(r"\.%d\)?$" % ctx.pk["user_handle"], tstr(src)) and not (src[0] == "ref" and src[1].endswith(".%d" % ctx.pk["user_handle"])):
                # the handle is transformed on its way into the response: try the combinations of
                # requested / performed verification with a credential that stores a handle
                variants = []
                base = ga_scenario(p, ctx)
                if base:
                    for uv_req, verified in ((False, False), (False, True), (True, True)):
                        v = json.loads(json.dumps(base))
                        v["request"]["uv"] = uv_req
                        v["user"]["outcome"] = {"ok": [True, verified]}
                        v["store"]["held"][0]["user_handle"] = True
                        variants.append(v)
                F.append(Finding("C11", "ga.user-handle-source", "the response's user is not derived from the credential's stored user handle alone (%s)" % tstr(src)[:80],
                                 variants or None, lambda o: isinstance(o["result"], dict) and "ok" in o["result"] and o["result"]["ok"]["user"] is False, p))
    return F, stats


def counter_checks(paths, ctx, solver):
    """C08 on get_assertion: overflow query + the value written back == the value reported"""
    F = []
    q = 0
    ctx.cur = "ga"
    for p in paths:
        if not no_yield(p):
            continue
        for (c, msg, idx) in p.asserts:
            if "overflow" not in msg:
                continue
            # cond = not(ovf); ovf = (op AddOvf a b)
            ovf = c[1] if c[0] == "not" else None
            if not ovf or ovf[0] != "op" or ovf[1] not in ("AddOvf",):
                raise Shape("unrecognised overflow assertion %s" % tstr(c)[:100])
            a, b = ovf[2], ovf[3]
            if b[0] != "const":
                raise Shape("non-constant increment")
            mb = re.match(r"(\d+)_u(\d+)", b[1])
            width = int(mb.group(2))
            inc = int(mb.group(1))
            decls = ["(declare-const a (_ BitVec %d))" % width]
            asserts = ["(bvult (bvadd a (_ bv%d %d)) a)" % (inc, width)]
            verdict, model = solver.check(decls, asserts, want_model=True)
            q += 1
            if verdict == "sat":
                from .smt import bv_value
                val = bv_value(model.get("a", "")) if model else None
                if val is None:
                    val = (1 << width) - 1
                sc = ga_scenario(p, ctx, counter=val)
                F.append(Finding("C08", "ga.counter-overflow",
                                 "signature counter increment `%s + %d` overflows for counter = %d (debug: panic, release: wraps to %d)" % ("counter", inc, val, (val + inc) % (1 << width)),
                                 sc, lambda o, val=val, inc=inc, width=width: ("panic" in o["result"]) or (isinstance(o["result"], dict) and "ok" in o["result"] and o["result"]["ok"]["counter"] is not None and o["result"]["ok"]["counter"] < val),
                                 p))
            elif verdict != "unsat":
                raise Shape("solver answered %s on the overflow query" % verdict)
        upd = calls(p, "CredentialStore::update_credential")
        new = calls(p, "AuthenticatorData::new")
        res = result_of(p)
        cdiscr = None
        for k, op, v in p.conds:
            if k.startswith("(discr (proj (ret") and k.endswith("@Ok.0.%d))" % ctx.pk["counter"]):
                cdiscr = v
        if res and res[0] == "Ok" and cdiscr is None:
            # the path never looks at the stored counter's own presence (e.g. it is filtered first):
            # whether the counter is advanced then depends on something else - try boundary values natively
            base = ga_scenario(p, ctx)
            variants = []
            for c in (0, 1, 7, 2 ** 31, 2 ** 32 - 2):
                v = json.loads(json.dumps(base))
                v["store"]["held"][0]["counter"] = c
                variants.append(v)

            def pred(o):
                c = o["scenario"]["store"]["held"][0]["counter"]
                if not (isinstance(o["result"], dict) and "ok" in o["result"]):
                    return False
                u = [x for x in o["log"] if x["call"] == "update"]
                return (not u) or u[0]["counter"] != c + 1 or o["result"]["ok"]["counter"] != c + 1
            F.append(Finding("C08", "ga.counter-guard", "the decision to advance the counter does not depend on the stored counter's presence alone (%s)" %
                             "; ".join(k[:60] for k, op, v in p.conds if "filter" in k or "counter" in k)[:120], variants, pred, p))
        if res and res[0] == "Ok":
            for i, e in upd:
                if await_discr(p, e["ret"]) != 0:
                    F.append(Finding("C08", "ga.reported-counter-not-stored", "an assertion reports counter+1 on a path where the store did not accept that value",
                                     with_store_errors(ga_scenario(p, ctx), "update"),
                                     lambda o: isinstance(o["result"], dict) and "ok" in o["result"] and o["result"]["ok"]["counter"] != (o.get("held_counters") or [None])[0]
                                     and any(c["call"] == "update" for c in o["log"]), p))
            if cdiscr == 0 and upd:
                F.append(Finding("C08", "ga.update-without-counter", "a credential without a counter is written back by an assertion", ga_scenario(p, ctx),
                                 lambda o: any(c["call"] == "update" for c in o["log"]), p))
            if cdiscr == 1 and not upd:
                F.append(Finding("C08", "ga.counter-not-persisted", "a credential with a counter is not written back", ga_scenario(p, ctx),
                                 lambda o: not any(c["call"] == "update" for c in o["log"]) and "ok" in json.dumps(o["result"]), p))
            if cdiscr == 1 and upd and new:
                written = counter_of(upd[0][1]["args"][1], ctx)
                reported = chase(new[-1][1]["args"][1])
                old = None
                if written is None:
                    raise Shape("cannot find the counter inside the value passed to update_credential")
                ok_shape = is_old_plus_one(written, p)
                if not ok_shape:
                    F.append(Finding("C08", "ga.counter-step", "the counter written back is %s, not old + 1" % tstr(written)[:100], ga_scenario(p, ctx),
                                     lambda o: [c for c in o["log"] if c["call"] == "update"] and [c for c in o["log"] if c["call"] == "update"][0]["counter"] != 8, p))
                if tstr(reported) != tstr(written):
                    F.append(Finding("C08", "ga.reported-counter-differs", "reported counter %s differs from the stored one %s" % (tstr(reported)[:60], tstr(written)[:60]),
                                     ga_scenario(p, ctx), lambda o: "ok" in o["result"] and o["result"]["ok"]["counter"] != [c for c in o["log"] if c["call"] == "update"][0]["counter"], p))
    return F, q


def counter_of(passkey_term, ctx):
    """the counter field inside the (cloned) passkey value handed to update_credential"""
    t = chase(passkey_term)
    if t[0] == "with":
        for suf, v in t[2]:
            if suf == ".%d" % ctx.pk["counter"]:
                return v
        return ("proj", t[1], ".%d" % ctx.pk["counter"])
    return None


def is_old_plus_one(t, p=None):
    """Some(old + 1) with `old` the counter read from the credential: a plain add of 1, or the payload of a
    checked_add(old, 1) that went through ok_or / `?`"""
    one = ("const", "1_u32")
    if t[0] == "ctor" and t[1] == "Some" and t[2]:
        return is_old_plus_one(t[2][0], p)
    if t[0] == "op" and t[1] == "Add" and t[3] == one:
        return True
    if t[0] == "checked" and t[1] == "Add" and t[3] == one:
        return True
    if t[0] == "proj" and t[2] in ("@Ok.0", "@Some.0", "@Continue.0"):
        return is_old_plus_one(t[1], p)
    if t[0] == "branch":
        return is_old_plus_one(t[1], p)
    if t[0] == "ret" and p is not None and t[2] in ("Option::ok_or", "Option::ok_or_else", "Result::map_err", "Option::map"):
        return is_old_plus_one(p.events[t[1]]["args"][0], p)
    return False


# ---- make_credential -------------------------------------------------------------------------

def mc_scenario(p, ctx, strict=False):
    ctx.cur = "mc"
    sc = {"op": "make_credential", "request": {"up": True, "uv": False, "rk": False, "pin_auth": False, "exclude_list": None},
          "store": {"find": {"ok": 0}, "held": [], "capability": "forced", "pending": {}},
          "user": {"verification": True, "presence_enabled": True, "outcome": {"ok": [True, True]}, "pending": 0}, "config": {}}
    for k, op, v in p.conds:
        if op != "==":
            continue
        if k == tstr(input_field(ctx, ctx.mc["options"], ctx.opt["up"])):
            sc["request"]["up"] = bool(v)
        elif k == tstr(input_field(ctx, ctx.mc["options"], ctx.opt["rk"])):
            sc["request"]["rk"] = bool(v)
        elif k.startswith("(discr (await (ret") and "Authenticator::check_user" in k:
            if v == 1:
                sc["user"]["outcome"] = {"err": 0x27}
        elif "isvariant is_some" in k and "(ref _" in k and "@variant" not in k:
            # exclude list present and non-empty (result of the emptiness filter)
            sc["request"]["exclude_list"] = [1] if v == 1 else None
            if v == 1:
                sc["store"]["held"] = [{"counter": None}]
        elif "isvariant is_some" in k and (ctx.input_place["mc"] + ".%d))" % ctx.mc["pin_auth"]) in k:
            sc["request"]["pin_auth"] = bool(v)
        elif k.startswith("(discr (ret") and "choose_algorithm" in k:
            if v == 1:
                sc["request"]["unsupported_alg"] = True
        elif k.startswith("(discr (await (ret") and "save_credential" in k:
            if v == 1:
                sc["store"]["save"] = {"err": 0x28}
        elif k.startswith("(discr (ret") and "Result::map" in k:
            # exclude lookup: Ok(..) or Err
            sc["store"]["find"] = {"ok": 1} if v == 0 else {"err": 0x2E}
        elif "Result::map" in k and "@Ok.0" in k:
            # is_empty() of the lookup result
            sc["store"]["find"] = {"ok": 0} if v == 1 else {"ok": 1}
        elif k.startswith("(discr (pollres"):
            pass
        elif "get_info" in k or "unwrap_or_default" in k:
            # the rk member of get_info().options: false only for a store without discoverable credentials
            sc["store"]["capability"] = "non_discoverable" if v == 0 else "full"
        elif k.startswith("(discr (ret") and any(x in k for x in ("make_extensions", "set_make_credential_extensions", "make_prf", "calculate_hmac_secret")):
            if v == 1:
                if strict:
                    return None
                # the one way to make extension processing fail: hmac-secret-mc, prf eval, no user verification
                sc["config"]["hmac_secret"] = "uv_only_mc"
                sc["request"]["prf_eval"] = True
                sc["request"]["uv"] = False
        elif strict:
            return None
    for e in p.events:
        if e["kind"] == "yield":
            sc["store"]["pending"]["save"] = 1
    return sc


STORE_ERROR_CODES = (0x28, 0x7F, 0x01, 0xE0, 0xF0)


def with_store_errors(sc, op):
    """variants of a scenario in which store call `op` fails with status bytes of every class
    (CTAP2 known, CTAP1, extension, vendor)"""
    if sc is None:
        return None
    out = []
    for code in STORE_ERROR_CODES:
        v = json.loads(json.dumps(sc))
        v["store"][op] = {"err": code}
        out.append(v)
    return out


def check_make_credential(paths, ctx, want):
    F = []
    ctx.cur = "mc"
    stats = {"paths": len(paths), "checked": 0}
    up_key = tstr(input_field(ctx, ctx.mc["options"], ctx.opt["up"]))
    for p in paths:
        if p.end and p.end[0] == "unsupported":
            raise Shape("unsupported MIR in make_credential: " + p.end[1][:200])
        res = result_of(p)
        if res is None:
            if p.end and p.end[0] == "panic":
                continue
            raise Shape("make_credential path with unexpected end: %r" % (p.end,))
        stats["checked"] += 1
        kind, payload = res
        ev = env_calls(p)
        cu = calls(p, "Authenticator::check_user")
        cu_ok = [(i, e) for i, e in cu if await_discr(p, e["ret"]) == 0]
        save = calls(p, "CredentialStore::save_credential")
        muts = mutating(p)
        keygen = [(i, e) for i, e in ev if e["callee"].endswith("random_vec") or e["callee"].endswith("::random") or e["callee"].endswith("from_secret_key")]

        if "C04" in want:
            upv = cond_value(p, up_key)
            if upv == 0:
                touched = [e["callee"] for _, e in ev if e["callee"].startswith(STORE_OR_USER)]
                if touched or kind != "Err" or "InvalidOption" not in tstr(payload):
                    sc = mc_scenario(p, ctx)
                    F.append(Finding("C04", "mc.up-false", "registration that waives presence: result %s, calls %s" % (tstr(payload)[:60], touched), sc,
                                     lambda o: o["result"] != {"err": 0x2C} or len(o["log"]) > 0, p))
            if upv is None and (save or kind == "Ok"):
                F.append(Finding("C04", "mc.up-not-checked", "a credential is created on a path that never looks at the up option", mc_scenario(p, ctx) or None,
                                 lambda o: "ok" in json.dumps(o["result"]), p))
            first_sensitive = min([i for i, _ in save + keygen] + [len(p.events)])
            if (save or kind == "Ok") and not [1 for i, _ in cu_ok if i < first_sensitive]:
                sc = mc_scenario(p, ctx)
                if sc:
                    sc["user"]["outcome"] = {"err": 0x27}
                F.append(Finding("C04", "mc.create-without-consent", "credential created on a path without a successful consent step before key generation / save", sc,
                                 lambda o: any(c["call"] == "save" for c in o["log"]) or "ok" in json.dumps(o["result"]), p))
            for i, e in cu:
                a2 = chase(e["args"][2])
                if not (a2[0] == "ctor" and a2[1] == "None"):
                    F.append(Finding("C04", "mc.consent-credential", "make_credential passes a credential to the consent step", None, None, p))
            failed = [(i, e) for i, e in cu if await_discr(p, e["ret"]) == 1]
            if failed and (muts or kind != "Err" or not contains(payload, ("await", failed[0][1]["ret"]))):
                F.append(Finding("C04", "mc.consent-failure-handling", "consent failed but result is %s / mutations %d" % (tstr(payload)[:60], len(muts)), mc_scenario(p, ctx),
                                 lambda o: o["result"] != {"err": 0x27} or any(c["call"] == "save" for c in o["log"]), p))
            sf = calls(p, "AuthenticatorData::set_flags")
            for i, e in sf:
                if cu_ok and chase(e["args"][1]) != ("proj", ("await", cu_ok[0][1]["ret"]), "@Ok.0"):
                    F.append(Finding("C04", "mc.flags-not-from-consent", "flags given to the authenticator data are not the consent step's result", None, None, p))

        if "C07" in want:
            bad = [e["callee"] for _, e in muts if e["callee"] != "CredentialStore::save_credential"]
            if bad or len(muts) > 1:
                F.append(Finding("C07", "mc.mutations", "make_credential path with store mutations %s (at most one save_credential expected)" % [e["callee"] for _, e in muts], mc_scenario(p, ctx),
                                 lambda o: len([c for c in o["log"] if c["call"] in ("save", "update")]) > 1, p))
            for i, e in save:
                d = await_discr(p, e["ret"])
                if kind == "Ok" and d != 0:
                    sc = with_store_errors(mc_scenario(p, ctx), "save")
                    F.append(Finding("C07", "mc.ok-without-accepted-save", "a registration succeeds on a path where the store's answer to save_credential is not checked", sc,
                                     lambda o: isinstance(o["result"], dict) and "ok" in o["result"] and o.get("held_after", 0) == 0, p))
                if d == 1 and (kind != "Err" or payload != ("errof", ("residual", ("await", e["ret"])), "same")):
                    F.append(Finding("C07", "mc.save-error-not-propagated", "save_credential's error is not what make_credential returns (%s)" % tstr(payload)[:80],
                                     with_store_errors(mc_scenario(p, ctx), "save"),
                                     lambda o: o["result"] != {"err": o["scenario"]["store"]["save"]["err"]}, p))
                # nothing fallible after the save: no later branch on a call result
                later = [x for x in p.events[i + 1:] if x["kind"] == "branch" and ("ret" in tstr(x["on"]) or "await" in tstr(x["on"]))
                         and not tstr(x["on"]).startswith("(discr (pollres") and not contains(x["on"], e["ret"])]
                if later:
                    lp = [q for q in paths if q.conds[:len(p.conds)] != p.conds]
                    fail_sc = None
                    for q in paths:
                        # a sibling path on which that later step fails
                        if any(k == tstr(later[0]["on"]) and v == 1 for k, op, v in q.conds) and calls(q, "CredentialStore::save_credential"):
                            fail_sc = mc_scenario(q, ctx)
                            break
                    F.append(Finding("C07", "mc.fallible-after-save", "a fallible step (%s) follows save_credential" % tstr(later[0]["on"])[:80], fail_sc or mc_scenario(p, ctx),
                                     lambda o: isinstance(o["result"], dict) and "err" in o["result"] and o.get("held_after", 0) > 0, p))
            if kind == "Err" and muts and all(await_discr(p, e["ret"]) == 0 for _, e in save):
                F.append(Finding("C07", "mc.error-after-save", "registration returns an error after the credential was saved", mc_scenario(p, ctx),
                                 lambda o: "err" in o["result"] and o.get("held_after", 0) > 0, p))

        if "C05" in want:
            find = calls(p, "CredentialStore::find_credentials")
            for i, e in find:
                rp = chase(e["args"][2])
                if not ctx.is_input_ref(rp, ctx.mc["rp"], ctx.rp_id_idx):
                    F.append(Finding("C05", "mc.exclude-rp-id", "the exclude-list lookup does not receive the request's rp.id (%s)" % tstr(rp)[:80], None, None, p))
                ids = chase(e["args"][1])
                if not ctx.is_input_ref(ids, ctx.mc["exclude_list"]):
                    F.append(Finding("C05", "mc.exclude-list-source", "the id list of the exclude lookup is not the request's exclude list (%s)" % tstr(ids)[:80], None, None, p))
            if kind == "Err" and "CredentialExcluded" in tstr(payload):
                if muts or not find:
                    F.append(Finding("C05", "mc.excluded-handling", "CredentialExcluded without a lookup or with a store mutation", mc_scenario(p, ctx), None, p))
            # a non-empty exclude list that names a held credential must end in CredentialExcluded
            for i, e in find:
                mp = calls(p, "Result::map")
                if mp:
                    d = ret_discr(p, mp[0][1]["ret"])
                    isempty = cond_value(p, tstr(("proj", mp[0][1]["ret"], "@Ok.0")))
                    if d == 0 and isempty == 0 and not (kind == "Err" and "CredentialExcluded" in tstr(payload)):
                        F.append(Finding("C05", "mc.excluded-not-refused", "the exclude list names a held credential but registration continues", mc_scenario(p, ctx),
                                         lambda o: o["result"] != {"err": 0x19}, p))

        if "C11" in want:
            rkv = cond_value(p, tstr(input_field(ctx, ctx.mc["options"], ctx.opt["rk"])))
            if kind == "Err" and "UnsupportedOption" in tstr(payload) and rkv == 1 and not calls(p, "is_some"):
                if keygen or muts:
                    F.append(Finding("C11", "mc.rk-refusal-late", "resident key refused after key generation or store mutation", mc_scenario(p, ctx), None, p))
            th = [(i, e) for i, e in ev if e["callee"].endswith("bool::then")]
            if kind == "Ok":
                if not th:
                    raise Shape("no bool::then for the user handle")
                src = chase(th[0][1]["args"][0])
                if not (src[0] == "ret" and src[2].endswith("is_passkey_discoverable")):
                    F.append(Finding("C11", "mc.user-handle-condition", "the user handle is stored under %s, not under is_passkey_discoverable" % tstr(src)[:80], None, None, p))
                else:
                    ip = p.events[src[1]]
                    rk_arg = chase(ip["args"][1])
                    if rk_arg != input_field(ctx, ctx.mc["options"], ctx.opt["rk"]):
                        F.append(Finding("C11", "mc.discoverable-arg", "is_passkey_discoverable is asked about %s, not the request's rk" % tstr(rk_arg)[:80], None, None, p))

        if "C08" in want and kind == "Ok":
            ts = [(i, e) for i, e in ev if e["callee"].endswith("bool::then_some")]
            new = calls(p, "AuthenticatorData::new")
            if not ts or not new:
                raise Shape("counter initialisation shape")
            if ts[0][1]["args"][1] != ("const", "0_u32"):
                F.append(Finding("C08", "mc.initial-counter", "initial counter is %s, not 0" % tstr(ts[0][1]["args"][1]), mc_scenario(p, ctx), None, p))
            rep = chase(new[-1][1]["args"][1])
            if rep != ts[0][1]["ret"] and not contains(rep, ts[0][1]["ret"]):
                F.append(Finding("C08", "mc.reported-counter", "registration reports %s, not the counter stored with the credential" % tstr(rep)[:80], None, None, p))

        if "C02" in want:
            ca = calls(p, "choose_algorithm")
            for i, e in ca:
                src = chase(e["args"][1])
                if src[0] == "via":
                    src = chase(src[2])
                if not ctx.is_input_ref(src, ctx.mc["pub_key_cred_params"]):
                    F.append(Finding("C02", "mc.algorithm-list-source", "choose_algorithm is not given the request's pubKeyCredParams (%s)" % tstr(src)[:80], None, None, p))
            if kind == "Err" and "UnsupportedAlgorithm" in tstr(payload) and (muts or keygen):
                F.append(Finding("C02", "mc.unsupported-algorithm-late", "UnsupportedAlgorithm is reported after key generation or a store mutation", mc_scenario(p, ctx),
                                 lambda o: any(c["call"] == "save" for c in o["log"]), p))
            if ca and ret_discr(p, ca[0][1]["ret"]) == 1 and not (kind == "Err" and derives_from(payload, ca[0][1]["ret"], p)):
                sc = mc_scenario(p, ctx)
                F.append(Finding("C02", "mc.unsupported-algorithm-not-reported", "no supported algorithm, but the result is %s" % tstr(payload)[:60], sc,
                                 lambda o: o["result"] != {"err": 0x26}, p))
            if kind == "Ok":
                fsk = calls(p, "from_secret_key")
                rv = [(i, e) for i, e in ev if e["callee"].endswith("random_vec")]
                if len(save) != 1 or not fsk or not rv or not ca:
                    raise Shape("successful registration without the expected key generation / save events")
                if not derives_from(fsk[0][1]["args"][1], ca[0][1]["ret"], p):
                    F.append(Finding("C02", "mc.key-algorithm", "the key pair is not generated for the algorithm chosen from the preference list", None, None, p))
                pk = save[0][1]["args"][1]
                fields = dict(pk[2]) if pk[0] == "struct" else None
                if fields is None:
                    raise Shape("the value given to save_credential is not a struct literal (%s)" % tstr(pk)[:60])
                if "credential_id" not in fields or not derives_from(fields["credential_id"], rv[0][1]["ret"], p):
                    F.append(Finding("C02", "mc.credential-id-source", "the stored credential id is not the freshly generated random id", None, None, p))
                if const_arg(rv[0][1]["args"][0]):
                    F.append(Finding("C02", "mc.credential-id-length", "the credential id length is a constant, not the configured length", None, None, p))
                rp_src = chase(fields.get("rp_id", ("const", "?")))
                if rp_src[0] == "ref":
                    rp_ok = ctx.is_input_ref(rp_src, ctx.mc["rp"], ctx.rp_id_idx)
                elif rp_src == ctx.in_field(ctx.mc["rp"], ctx.rp_id_idx):
                    rp_ok = True
                else:
                    rp_ok = ctx.input_place["mc"] in tstr(rp_src) or "%s.%d.%d" % (ctx.input_place["mc"], ctx.mc["rp"], ctx.rp_id_idx) in tstr(fields.get("rp_id"))
                if not rp_ok:
                    F.append(Finding("C02", "mc.stored-rp-id", "the stored credential's rp_id is not the request's rp.id (%s)" % tstr(fields.get("rp_id"))[:80], mc_scenario(p, ctx),
                                     lambda o: any(c["call"] == "save" and c["rp_id"] != "example.com" for c in o["log"]), p))
                if "key" not in fields or not derives_from(fields["key"], fsk[0][1]["ret"], p):
                    F.append(Finding("C02", "mc.stored-key", "the stored private key does not come from the generated key pair", None, None, p))
                new = calls(p, "AuthenticatorData::new")
                if new:
                    a0 = chase(new[-1][1]["args"][0])
                    if a0[0] == "via":
                        a0 = chase(a0[2])
                    if not ctx.is_input_ref(a0, ctx.mc["rp"], ctx.rp_id_idx):
                        F.append(Finding("C02", "mc.authdata-rp-id", "the authenticator data is built for %s, not the request's rp.id" % tstr(a0)[:80], None, None, p))

        if "C09" in want:
            me = calls(p, "make_extensions")
            for i, e in me:
                if chase(e["args"][2]) != input_field(ctx, ctx.mc["options"], ctx.opt["uv"]):
                    F.append(Finding("C09", "mc.ext-uv", "make_extensions receives %s, not the request's uv option" % tstr(e["args"][2])[:80], None, None, p))
    return F, stats


# ---- Ctap2Api forwarding (C18) -----------------------------------------------------------------

def check_forwarding(fn_paths, method, ctx):
    """the async block of `<Authenticator as Ctap2Api>::<method>`: exactly one environment call, to the
    inherent method of the same name on the same receiver and request; its awaited value is returned"""
    F = []
    for p in fn_paths:
        if p.end and p.end[0] == "unsupported":
            raise Shape("unsupported MIR in Ctap2Api::%s: %s" % (method, p.end[1][:200]))
    done = [p for p in fn_paths if p.end and p.end[0] == "return" and p.end[1][0] == "ctor" and p.end[1][1] == "Ready"]
    if not done:
        raise Shape("no completing path in Ctap2Api::%s" % method)

    def pair(req):
        base = {"request": req, "store": {"find": {"ok": 1}, "held": [{"counter": 0, "user_handle": True}]},
                "user": {"verification": True, "outcome": {"ok": [True, True]}}}
        a = dict(base, op="trait_" + method)
        b = dict(base, op=method)
        return {"pair": [a, b]}

    def differ(outs):
        return outs[0]["result"] != outs[1]["result"] or [c["call"] for c in outs[0]["log"]] != [c["call"] for c in outs[1]["log"]]
    probes = [{"up": False, "pin_auth": True}, {"up": True, "pin_auth": True, "unsupported_alg": True}, {"up": True, "allow_list_unknown": True},
              {"up": True, "uv": True}, {"up": True, "rk": True}]
    for p in done:
        ev = [(i, e) for i, e in env_calls(p)]
        fwd = [(i, e) for i, e in ev if e["callee"].endswith("::" + method)]
        if len(fwd) == 0:
            if method == "get_info":
                raise Shape("Ctap2Api::get_info completes without calling the direct method")
            F.append(Finding("C18", "trait.%s.answers-without-forwarding" % method,
                             "<Authenticator as Ctap2Api>::%s has a path that answers without calling the direct method (%s)" %
                             (method, "; ".join(kk[:50] for kk, op, v in p.conds)[:120]), [pair(req) for req in probes], differ, p))
            continue
        if len(fwd) != 1:
            raise Shape("Ctap2Api::%s: %d forwarding calls" % (method, len(fwd)))
        i, e = fwd[0]
        if method != "get_info" and len(e["args"]) > 1:
            req = chase(e["args"][1])
            unchanged = req[0] in ("in", "proj") or (req[0] == "with" and False)
            if not unchanged:
                F.append(Finding("C18", "trait.%s.request-rewritten" % method,
                                 "the trait method passes a rebuilt request to the direct method (%s)" % tstr(req)[:80], [pair(rq) for rq in probes], differ, p))
        full = e["full"]
        if " as Ctap2Api>::" in full or full.strip().startswith("<") and "Ctap2Api" in full:
            sc = {"op": "trait_" + method, "request": {"up": True}, "store": {"find": {"err": 0x2E}}, "user": {"outcome": {"ok": [True, True]}}}
            F.append(Finding("C18", "trait.%s.self-recursion" % method,
                             "<Authenticator as Ctap2Api>::%s calls itself (%s): it never terminates" % (method, full[:100]),
                             sc, "crash", p))
            continue
        if "Authenticator" not in full:
            F.append(Finding("C18", "trait.%s.wrong-callee" % method, "forwards to %s" % full[:100], None, None, p))
        ret = p.end[1][2][0]
        if chase(ret) != ("await", e["ret"]) and not contains(ret, ("await", e["ret"])):
            F.append(Finding("C18", "trait.%s.result-changed" % method, "the trait method does not return the direct method's result unchanged (%s)" % tstr(ret)[:100], None, None, p))
        others = [x for _, x in ev if x is not e and x["callee"].startswith(("CredentialStore::", "UserValidationMethod::"))]
        if others:
            F.append(Finding("C18", "trait.%s.extra-effects" % method, "the trait method touches the store / user validation itself: %s" % [x["callee"] for x in others], None, None, p))
    return F


# ---- shipped stores: the documented lookup contract (C05) ----------------------------------------

def _closure_fn(fns, closure_term):
    """MIR function of a closure value ('closure', '{closure@file:l:c:') -> fn"""
    m = re.match(r"\{closure@([^ ]+)", closure_term[1])
    if not m:
        return None
    loc = m.group(1).rstrip(":")
    for n, f in fns.items():
        if ("{closure@" + loc) in f.sig.split(")")[0] and f.sig.startswith("fn ") and re.search(r"\(_1: &?(?:mut )?\{closure@" + re.escape(loc), f.sig):
            return f
    return None


def _closures_in(p):
    out = []
    for e in p.events:
        if e["kind"] != "call":
            continue
        for a in e["args"]:
            a = chase(a)
            if isinstance(a, tuple) and a and a[0] == "closure":
                out.append((e["callee"], a))
    return out


def _predicate_facts(fn, ctx, solver):
    """for a `-> bool` closure over a &Passkey: which equalities its truth implies.
    -> {'rp': bool, 'id': bool} (True = the closure returns true only if that comparison holds)"""
    from .executor import Executor
    ex = Executor(fn, follow_yields=False)
    ps = ex.run()
    atoms = {}   # ret term str -> kind
    # locals that merely hold (a deref of) the closure's Passkey parameter `_2`
    alias = {}
    for b in fn.blocks.values():
        for st in b.stmts:
            m = re.match(r"^(_\d+) = (?:no_retag )?(?:copy|move) (\(\*_2\)|_2)$", st)
            if m:
                alias[m.group(1)] = "_2^" if m.group(2).startswith("(") else "_2"
    rp_names = [d for n, d in fn.debug.items() if n.lstrip("_") == "rp_id"]
    id_names = [d for n, d in fn.debug.items() if n in ("id", "ids", "allow_credentials")]
    disj = []
    for p in ps:
        if p.end and p.end[0] == "unsupported":
            raise Shape("unsupported MIR in store predicate: " + p.end[1][:120])
        if not p.end or p.end[0] != "return":
            continue
        lits = []
        for i, e in enumerate(p.events):
            if e["kind"] == "call" and (e["callee"].endswith("::eq") or e["callee"].endswith("::ne")):
                kind = None
                places = [chase(a) for a in e["args"]]
                txt = " ".join(tstr(x) for x in places)
                pk_field = None
                for x in places:
                    if x[0] == "ref":
                        pl = x[1]
                        mh = re.match(r"^(_\d+)(.*)$", pl)
                        if mh and mh.group(1) in alias:
                            pl = alias[mh.group(1)] + mh.group(2)
                        m = re.match(r"^_2\^+\.(\d+)$", pl)
                        if m:
                            pk_field = int(m.group(1))
                if pk_field == ctx.pk["rp_id"] and any(any(dd.rstrip("^") in txt for dd in d) for d in rp_names):
                    kind = "rp"
                elif pk_field == ctx.pk["credential_id"]:
                    kind = "id"
                if kind:
                    atoms[tstr(e["ret"])] = (kind, e["callee"].endswith("::ne"))
        ret = p.end[1]
        conj = []
        for k, op, v in p.conds:
            if k in atoms and op == "==":
                conj.append((k, bool(v)))
            elif k in atoms:
                raise Shape("non-boolean constraint on an equality result")
        if ret[0] == "const":
            if ret[1] == "false":
                continue
            if ret[1] != "true":
                raise Shape("store predicate returns %s" % tstr(ret))
        elif tstr(ret) in atoms:
            conj.append((tstr(ret), True))
        elif ret[0] == "not" and tstr(ret[1]) in atoms:
            conj.append((tstr(ret[1]), False))
        else:
            # returns something that is not one of the recognised comparisons: it may be true freely
            pass
        disj.append(conj)
    names = {k: "a%d" % i for i, k in enumerate(atoms)}
    decls = ["(declare-const %s Bool)" % v for v in names.values()] + ["(declare-const rp_eq Bool)", "(declare-const id_eq Bool)"]
    link = []
    for k, (kind, neg) in atoms.items():
        target = "rp_eq" if kind == "rp" else "id_eq"
        link.append("(= %s %s)" % (names[k], ("(not %s)" % target) if neg else target))
    P = "(or false %s)" % " ".join("(and true %s)" % " ".join(names[k] if val else "(not %s)" % names[k] for k, val in c) for c in disj)
    facts = {}
    for what in ("rp", "id"):
        verdict, _ = solver.check(decls, link + [P, "(not %s_eq)" % what])
        if verdict not in ("sat", "unsat"):
            raise Shape("solver answered %s on a store-predicate query" % verdict)
        facts[what] = verdict == "unsat"
    return facts


def check_store_contract(fns, ctx, solver, store_kind):
    """the async block of `<Store as CredentialStore>::find_credentials` and its closures"""
    from .executor import Executor
    self_ty = "&Option<Passkey>" if store_kind == "option" else "&HashMap<Vec<u8>, Passkey>"
    outer = [f for n, f in fns.items() if "credential_store::<impl" in n and n.endswith("::find_credentials") and ("_1: " + self_ty) in f.sig]
    if len(outer) != 1:
        raise Shape("cannot identify find_credentials of the %s store (%d candidates)" % (store_kind, len(outer)))
    blk = fns.get(outer[0].name + "::{closure#0}")
    if blk is None:
        raise Shape("no async block for %s" % outer[0].name[:80])
    ex = Executor(blk)
    ps = [p for p in ex.run() if p.end and p.end[0] == "return" and p.end[1][0] == "ctor" and p.end[1][1] == "Ready"]
    if not ps:
        raise Shape("no completing path in the %s store's find_credentials" % store_kind)
    F = []
    queries = 0
    seen = {"some": False, "none": False}
    for p in ps:
        # which case: ids present or absent (discriminant of the captured Option<&[..]>)
        case = None
        for k, op, v in p.conds:
            if k.startswith("(discr (proj (in _1.0) ^.1") and op == "==":
                case = "some" if v == 1 else "none"
        if case is None:
            # a path that does not look at `ids` at all (iterator over Option::into_iter): treat as both
            case = "both"
        # predicates reachable from this path (through non-bool closures as well)
        facts = {"rp": False, "id": False}
        work = [c for _, c in _closures_in(p)]
        done = set()
        while work:
            c = work.pop()
            if c[1] in done:
                continue
            done.add(c[1])
            f = _closure_fn(fns, c)
            if f is None:
                continue
            if f.sig.rstrip().endswith("-> bool {"):
                fx = _predicate_facts(f, ctx, solver)
                queries += 2
                facts = {k: facts[k] or fx[k] for k in facts}
            else:
                sub = Executor(f, follow_yields=False).run()
                for q in sub:
                    work += [cc for _, cc in _closures_in(q)]
        if case == "both":
            # one path for both cases: if what is returned is produced by iterating the id list itself,
            # an absent list can never find the RP's credentials
            ids_term = ("proj", ("in", "_1.0"), "^.1")
            src = [e for e in p.events if e["kind"] == "call" and e["callee"].endswith("into_iter") and any(contains(a, ids_term) for a in e["args"])]
            if src:
                sc = {"op": "store_find", "store_kind": store_kind, "stored_rp": "a.example", "query_rp": "a.example", "ids": None}
                F.append(Finding("C05", "store.%s.absent-list-finds-nothing" % store_kind,
                                 "the lookup iterates the id list only: with an absent list the credentials of the RP are never found", sc,
                                 lambda o: isinstance(o["result"], dict) and "err" in o["result"], p))
        if case in ("some", "both") and store_kind == "option":
            names = [e["callee"] for e in p.events if e["kind"] == "call"]
            iterated = any(n.endswith(("Iterator::find_map", "Iterator::filter_map", "Iterator::find", "Iterator::any", "Iterator::filter", "Iterator::position", "Iterator::for_each")) for n in names)
            sampled = [n for n in names if n.endswith(("::first", "::last", "::get", "::split_first", "::split_last"))]
            if not iterated or sampled:
                sc = {"op": "store_find", "store_kind": store_kind, "stored_rp": "a.example", "query_rp": "a.example", "ids": "other_then_match"}
                F.append(Finding("C05", "store.%s.id-list-not-iterated" % store_kind,
                                 "the lookup does not go through every entry of the id list (%s)" % (sampled or "no iterator adaptor over the list"), sc,
                                 lambda o: isinstance(o["result"], dict) and "err" in o["result"], p))
        for cs in (("some", "none") if case == "both" else (case,)):
            seen[cs] = True
            if cs == "none" and case == "both":
                continue
            if not facts["rp"]:
                sc = {"op": "store_find", "store_kind": store_kind, "stored_rp": "a.example", "query_rp": "b.example",
                      "ids": "match" if cs == "some" else None}
                F.append(Finding("C05", "store.%s.rp-id-ignored.%s" % (store_kind, cs),
                                 "the %s store's lookup (id list %s) never requires the stored credential's rp_id to equal the requested one" %
                                 ("Option<Passkey>" if store_kind == "option" else "MemoryStore", "present" if cs == "some" else "absent"),
                                 sc, lambda o: isinstance(o["result"], dict) and o["result"].get("ok", 0) > 0, p))
            if cs == "some" and store_kind == "option" and not facts["id"]:
                sc = {"op": "store_find", "store_kind": store_kind, "stored_rp": "a.example", "query_rp": "a.example", "ids": "other"}
                F.append(Finding("C05", "store.%s.id-ignored" % store_kind, "the lookup with an id list does not require the credential id to be listed", sc,
                                 lambda o: isinstance(o["result"], dict) and o["result"].get("ok", 0) > 0, p))
    return F, queries, len(ps)


# ---- AuthenticatorData::from_slice: length guard and fixed-size reads (C12 / C15) ------------------

def _len_smt(t, decls):
    """SMT term (BitVec 64) for the length of a slice-valued term"""
    t = chase(t)
    if t[0] == "subslice":
        return "(_ bv%d 64)" % t[3]
    if t[0] == "restslice":
        return "(bvsub %s (_ bv%d 64))" % (_len_smt(t[1], decls), t[2])
    name = "len_" + re.sub(r"[^A-Za-z0-9]", "_", tstr(t))[:40]
    d = "(declare-const %s (_ BitVec 64))" % name
    if d not in decls:
        decls.append(d)
    return name


def _bv_smt(t, decls):
    t = chase(t)
    if t[0] == "const":
        m = re.match(r"^(\d+)_(?:usize|u64|u32|u16|u8)$", t[1])
        if m:
            return "(_ bv%d 64)" % int(m.group(1))
    if t[0] == "op1" and t[1] in ("PtrMetadata", "Len"):
        return _len_smt(t[2], decls)
    raise Shape("cannot encode %s as a bit-vector" % tstr(t)[:80])


def _cond_smt(p, decls):
    """the comparisons on slice lengths among the path's branch conditions"""
    out = []
    for k, op, v in p.conds:
        t = p.cond_term.get(k)
        if t is None or t[0] != "op" or t[1] not in ("Lt", "Le", "Gt", "Ge", "Eq", "Ne"):
            continue
        try:
            a, b = _bv_smt(t[2], decls), _bv_smt(t[3], decls)
        except Shape:
            continue
        rel = {"Lt": "(bvult %s %s)", "Le": "(bvule %s %s)", "Gt": "(bvugt %s %s)", "Ge": "(bvuge %s %s)",
               "Eq": "(= %s %s)", "Ne": "(distinct %s %s)"}[t[1]] % (a, b)
        if op == "==":
            out.append(rel if v == 1 else "(not %s)" % rel)
    return out


def check_from_slice(paths, solver, want):
    """every fixed-size read is covered by the length guard (no panic: C15); nothing shorter than the
    37-byte header is accepted (C12); the flag byte goes through Flags::from_bits (C12)"""
    from .smt import bv_value
    F = []
    queries = 0
    for p in paths:
        if p.end and p.end[0] == "unsupported":
            raise Shape("unsupported MIR in from_slice: " + p.end[1][:200])
        decls = []
        try:
            conds = _cond_smt(p, decls)
        except Shape:
            conds = []
        total = "len__in__1_"
        # (1) each split_at needs len >= at
        for e in p.events:
            if e["kind"] != "require":
                continue
            ln = _len_smt(e["slice"], decls)
            verdict, model = solver.check(decls, conds + ["(bvult %s (_ bv%d 64))" % (ln, e["at"])], want_model=True)
            queries += 1
            if verdict == "sat":
                n = None
                for k, v in model.items():
                    if k.startswith("len_"):
                        n = bv_value(v)
                if n is None or n > 4096:
                    n = 36
                prop_ = "C15" if "C15" in want else "C12"
                F.append(Finding(prop_, "authdata.from_slice.short-read",
                                 "AuthenticatorData::from_slice reaches split_at(%d) with only %s bytes left for an input of %d bytes (panic)" % (e["at"], "fewer", n),
                                 {"op": "authdata_from_slice", "len": n, "flag": 0}, lambda o: isinstance(o["result"], dict) and "panic" in o["result"], p))
            elif verdict != "unsat":
                raise Shape("solver answered %s on a length query" % verdict)
        # (2) Ok only for inputs of at least 37 bytes
        r = p.end[1] if p.end and p.end[0] == "return" else None
        is_err = r is not None and r[0] == "ctor" and r[1] == "Err"
        if r is not None and not is_err and "C12" in want:
            d2 = list(decls)
            name = _len_smt(("in", "_1"), d2)
            verdict, model = solver.check(d2, conds + ["(bvult %s (_ bv37 64))" % name], want_model=True)
            queries += 1
            if verdict == "sat":
                n = bv_value(model.get(name, "")) if model else None
                F.append(Finding("C12", "authdata.from_slice.short-accepted", "an input of %s bytes (< 37) is not rejected by the length guard" % n,
                                 {"op": "authdata_from_slice", "len": n if n is not None else 36, "flag": 0},
                                 lambda o: isinstance(o["result"], dict) and ("ok" in o["result"] or "panic" in o["result"]), p))
            elif verdict != "unsat":
                raise Shape("solver answered %s on the minimum-length query" % verdict)
        # (3) the flags of an accepted input come from Flags::from_bits on the byte at offset 32
        if r is not None and not is_err and "C12" in want:
            fb = [e for e in p.events if e["kind"] == "call" and re.search(r"Flags::from_bits$|::from_bits$", e["callee"])]
            bad = [e for e in p.events if e["kind"] == "call" and re.search(r"from_bits_(truncate|retain)$", e["callee"])]
            if not fb or bad:
                F.append(Finding("C12", "authdata.from_slice.reserved-flags", "the flag byte of an accepted input is not validated with Flags::from_bits",
                                 {"op": "authdata_from_slice", "len": 37, "flag": 0x02}, lambda o: isinstance(o["result"], dict) and "ok" in o["result"], p))
    return F, queries


# ---- U2F register / authenticate (C17) -----------------------------------------------------------

def check_u2f(reg_paths, auth_paths):
    F = []
    for p in reg_paths + auth_paths:
        if p.end and p.end[0] == "unsupported":
            raise Shape("unsupported MIR in u2f: " + p.end[1][:200])
    # register: success only if the store accepted the credential; exactly one save, nothing else mutating
    for p in reg_paths:
        res = result_of(p)
        if res is None:
            continue
        save = calls(p, "CredentialStore::save_credential")
        upd = calls(p, "CredentialStore::update_credential")
        if res[0] == "Ok":
            if len(save) != 1 or upd or await_discr(p, save[0][1]["ret"]) != 0:
                sc = [{"op": "u2f_register", "store": {"save": {"err": c}}, "user": {}} for c in STORE_ERROR_CODES]
                F.append(Finding("C17", "u2f.register-ok-without-stored-credential",
                                 "U2F register reports success on a path where the store did not accept the credential (save calls: %d)" % len(save), sc,
                                 lambda o: isinstance(o["result"], dict) and "ok" in o["result"] and o.get("held_after", 0) == 0, p))
        else:
            if save and all(await_discr(p, e["ret"]) == 0 for _, e in save):
                F.append(Finding("C17", "u2f.register-error-after-save", "U2F register returns an error after the credential was stored", None, None, p))
    # authenticate: a response is produced only from a credential the store returned for this key handle
    for p in auth_paths:
        res = result_of(p)
        if res is None:
            continue
        find = calls(p, "CredentialStore::find_credentials")
        sign = [(i, e) for i, e in env_calls(p) if e["callee"].endswith("::sign") or e["callee"].endswith("::try_sign")]
        if res[0] == "Ok":
            if not find or not sign or find[0][0] > sign[0][0]:
                F.append(Finding("C17", "u2f.authenticate-without-lookup", "U2F authenticate signs without a preceding credential lookup", None, None, p))
                continue
            origin = ("await", find[0][1]["ret"])
            pk = calls(p, "private_key_from_cose_key")
            if not pk or not derives_from(pk[0][1]["args"][0], origin, p) and chase(pk[0][1]["args"][0])[0] != "ref":
                F.append(Finding("C17", "u2f.authenticate-key-source", "the signing key does not come from the looked-up credential", None, None, p))
            # an unknown key handle (lookup error or empty result) must fail: the Ok path has to depend on both
            dep_lookup = any("Result::map_err" in k or "find_credentials" in k for k, op, v in p.conds)
            dep_first = any("Option::ok_or" in k or "Iterator::next" in k for k, op, v in p.conds)
            if not (dep_lookup and dep_first):
                sc = {"op": "u2f_authenticate", "store": {"find": {"err": 0x2E}}, "user": {}}
                F.append(Finding("C17", "u2f.unknown-key-handle-accepted", "U2F authenticate can succeed without the lookup having produced a credential", sc,
                                 lambda o: isinstance(o["result"], dict) and "ok" in o["result"], p))
    return F


# ---- C01: the suffix provider is asked about the ASCII RP ID -------------------------------------

IDN_SUFFIXES = ["xn--55qx5d.cn", "xn--io0a7i.cn", "xn--od0alg.cn", "xn--55qx5d.hk", "xn--mgba3a4f16a.ir"]


def check_provider_argument(fns, fn_name_needle):
    """In `assert_valid_rp_id` / `assert_android_rp_id`: every call of
    EffectiveTLDProvider::effective_tld_plus_one must receive the (ASCII) RP ID it validates, not
    something derived from `decode_host` (the table is keyed by punycode, per its documentation)."""
    from .executor import Executor
    cands = [f for n, f in fns.items() if n.endswith("::" + fn_name_needle)]
    if len(cands) != 1:
        raise Shape("cannot identify %s in the MIR (%d candidates)" % (fn_name_needle, len(cands)))
    fn = cands[0]
    ps = Executor(fn, follow_yields=False).run()
    F = []
    seen_provider = False
    for p in ps:
        if p.end and p.end[0] == "unsupported":
            raise Shape("unsupported MIR in %s: %s" % (fn_name_needle, p.end[1][:160]))
        dec = [e for e in p.events if e["kind"] == "call" and e["callee"].endswith("decode_host")]
        # direct calls
        for e in p.events:
            if e["kind"] == "call" and e["callee"].endswith("effective_tld_plus_one"):
                seen_provider = True
                if dec and any(derives_from(e["args"][1], d["ret"], p) for d in dec):
                    F.append(Finding("C01", "%s.provider-gets-decoded-name" % fn_name_needle,
                                     "the suffix provider is asked about the decoded (Unicode) form of the RP ID", {"op": "rp_id_valid", "names": IDN_SUFFIXES},
                                     lambda o: bool(o["result"].get("accepted")), p))
        # calls inside closures applied to the decoded value
        for callee, clo in _closures_in(p):
            f = _closure_fn(fns, clo)
            if f is None:
                continue
            inner = Executor(f, follow_yields=False).run()
            uses_param = False
            for q in inner:
                for e in q.events:
                    if e["kind"] == "call" and e["callee"].endswith("effective_tld_plus_one"):
                        seen_provider = True
                        if contains(e["args"][1], ("in", "_2")):
                            uses_param = True
            if uses_param:
                # which value is the closure applied to?
                app = [e for e in p.events if e["kind"] == "call" and any(chase(a) == clo for a in e["args"])]

                def through_ref(t):
                    t = chase(t)
                    if t[0] == "ref" and t[1] in p.mem:
                        return p.mem[t[1]]
                    return t
                if app and dec and any(derives_from(through_ref(app[0]["args"][0]), d["ret"], p) for d in dec):
                    F.append(Finding("C01", "%s.provider-gets-decoded-name" % fn_name_needle,
                                     "the suffix provider is asked about the decoded (Unicode) form of the RP ID (through a closure applied to decode_host's result)",
                                     {"op": "rp_id_valid", "names": IDN_SUFFIXES}, lambda o: bool(o["result"].get("accepted")), p))
    if not seen_provider:
        raise Shape("%s never consults the suffix provider" % fn_name_needle)
    return F, len(ps)


# ---- C13: duplicate members are rejected by the integer-keyed map visitors ------------------------

def check_duplicate_detection(fns):
    """every `visit_map` generated by serde_workaround!: a member's value is only read
    (`MapAccess::next_value::<T>`, T != IgnoredAny) after `check_is_already_set` for that key, on every
    path through one iteration of the key loop; `set_if_none` itself checks before it reads."""
    from .executor import Executor
    F = []
    npaths = 0
    vms = [f for n, f in fns.items() if n.endswith(">::visit_map") and "serde_workaround.rs" in n]
    if not vms:
        raise Shape("no serde_workaround visit_map in the MIR")
    helper = [f for n, f in fns.items() if n == "set_if_none" or n.endswith("::set_if_none")]
    if len(helper) != 1:
        raise Shape("cannot identify serde_workaround::set_if_none (%d)" % len(helper))
    hp = Executor(helper[0], follow_yields=False).run()
    for p in hp:
        names = [e["callee"].split("::")[-1] for e in p.events if e["kind"] == "call"]
        if "next_value" in names and ("check_is_already_set" not in names or names.index("check_is_already_set") > names.index("next_value")):
            F.append(Finding("C13", "serde_workaround.set_if_none-without-check", "set_if_none reads a value without checking for a duplicate first",
                             {"op": "cbor_duplicates"}, lambda o: bool(o["result"].get("accepted")), p))
    npaths += len(hp)
    for f in vms:
        msg = re.search(r"Result<([\w:]+),", f.sig)
        msg = msg.group(1) if msg else f.name[:40]
        ps = Executor(f, max_paths=50000, max_steps=2000, follow_yields=False, max_visits=2).run()
        npaths += len(ps)
        bad = set()
        for p in ps:
            if p.end and p.end[0] == "unsupported":
                raise Shape("unsupported MIR in visit_map of %s: %s" % (msg, p.end[1][:120]))
            since_key = []
            last_key = None
            for e in p.events:
                if e["kind"] != "call":
                    continue
                short = e["callee"].split("::")[-1]
                if short == "next_key":
                    since_key = []
                    last_key = e["ret"]
                elif short == "next_value":
                    if "IgnoredAny" in e["full"]:
                        continue
                    if "check_is_already_set" not in since_key:
                        # which key? the discriminant of the key read in this iteration
                        key = None
                        for k, op, v in p.conds:
                            if op == "==" and last_key is not None and tstr(last_key) in k and "@Some.0" in k:
                                key = v
                        bad.add(key)
                else:
                    since_key.append(short)
        for key in sorted(bad, key=lambda x: (x is None, x)):
            F.append(Finding("C13", "visit_map.%s.key-%s.no-duplicate-check" % (msg.replace("::", "."), key),
                             "the map visitor of %s reads member %s without first checking whether it was already set: a duplicated member is accepted" % (msg, key),
                             {"op": "cbor_duplicates"}, lambda o: bool(o["result"].get("accepted")), None))
    return F, npaths


# ---- C19: ceremonies sharing a store through the lock wrappers --------------------------------------

def check_concurrent_counters(ga_paths, fns_tokio, ctx, solver):
    """(1) from the MIR of get_assertion: the stored counter is read by the lookup and written back by a
    separate update call, with at least one suspension point in between on a successful path;
    (2) from the MIR of the lock wrappers: the lock is taken and released inside every single store call;
    (3) z3: two such ceremonies on one credential, every order of their (atomic) read / write steps that
    keeps each ceremony's own order - can both report the same counter?"""
    from .executor import Executor
    ctx.cur = "ga"
    F = []
    # (1)
    gap = None
    for p in ga_paths:
        res = result_of(p)
        if not res or res[0] != "Ok":
            continue
        find = calls(p, "CredentialStore::find_credentials")
        upd = calls(p, "CredentialStore::update_credential")
        if not find or not upd:
            continue
        ys = [i for i, e in enumerate(p.events) if e["kind"] == "yield" and find[0][0] < i < upd[0][0]]
        # a yield belonging to the lookup's own future does not separate read from write
        ys = [i for i in ys if p.events[i]["state"] != 3]
        if ys:
            gap = (p, ys)
            break
    if gap is None:
        return F, 0, "no successful path suspends between the lookup and the counter update"
    # (2)
    per_call = {}
    nwrap = 0
    expect = {"save_credential": lambda o: o["result"]["saved"] and o["result"]["save_ok"], "update_credential": lambda o: o["result"]["updated"] and o["result"]["update_ok"],
              "find_credentials": lambda o: o["result"]["found"] == 1, "get_info": lambda o: o["result"]["info"] == "forced"}
    for lock, ty in (("mutex", "Arc<tokio::sync::Mutex<S>>"), ("rwlock", "Arc<tokio::sync::RwLock<S>>")):
        ok = True
        for m in ("find_credentials", "update_credential", "save_credential", "get_info"):
            outer = [f for n, f in fns_tokio.items() if "credential_store::<impl" in n and n.endswith("::" + m) and re.match(r"fn [^(]*\(_1: &(mut )?" + re.escape(ty), f.sig)]
            if len(outer) != 1:
                raise Shape("cannot identify the %s wrapper's %s (%d)" % (lock, m, len(outer)))
            blk = fns_tokio.get(outer[0].name + "::{closure#0}")
            if blk is None:
                raise Shape("no async block for the %s wrapper's %s" % (lock, m))
            done = [q for q in Executor(blk).run() if q.end and q.end[0] == "return" and q.end[1][0] == "ctor" and q.end[1][1] == "Ready"]
            if not done:
                raise Shape("the %s wrapper's %s has no completing path" % (lock, m))
            sc = [{"op": "wrapper_ops", "lock": lock, "rk": rk, "up": up, "uv": uv} for rk in (True, False) for up in (True, False) for uv in (False, True)]
            bad = lambda o, m=m: m in o["result"]["deadlock"] or not expect[m](o)
            for q in done:
                nwrap += 1
                lk = [(i, e) for i, e in env_calls(q) if e["callee"].endswith(("::lock", "::read", "::write"))]
                inner = [(i, e) for i, e in env_calls(q) if e["callee"].endswith("::" + m)]
                if len(lk) >= 2:
                    F.append(Finding("C19", "wrapper.%s.%s.nested-lock" % (lock, m), "the %s wrapper's %s acquires the lock %d times in one call (%s): a second acquisition while the first guard is "
                                     "alive never completes" % (lock, m, len(lk), [e["callee"] for _, e in lk]), sc, bad, q))
                    continue
                if len(inner) == 0:
                    F.append(Finding("C19", "wrapper.%s.%s.not-forwarded" % (lock, m), "the %s wrapper's %s completes without calling the wrapped store" % (lock, m), sc, bad, q))
                    continue
                if len(lk) != 1 or len(inner) != 1 or lk[0][0] > inner[0][0]:
                    raise Shape("unexpected shape of the %s wrapper's %s" % (lock, m))
                e = inner[0][1]
                for a in e["args"][1:]:
                    a = chase(a)
                    if not (isinstance(a, tuple) and a and a[0] in ("in", "proj", "deref", "move", "copy")):
                        F.append(Finding("C19", "wrapper.%s.%s.argument-rewritten" % (lock, m), "the %s wrapper's %s passes %s instead of its own argument" % (lock, m, tstr(a)[:80]), sc, bad, q))
                ret = q.end[1][2][0]
                if not contains(ret, ("await", e["ret"])):
                    F.append(Finding("C19", "wrapper.%s.%s.result-changed" % (lock, m), "the %s wrapper's %s does not return the wrapped store's answer (%s)" % (lock, m, tstr(ret)[:80]), sc, bad, q))
                # the guard must not be part of what is returned (it is dropped when the call ends)
                if contains(q.end[1], ("await", lk[0][1]["ret"])):
                    ok = False
        per_call[lock] = ok
    # (3)
    decls = ["(declare-const c (_ BitVec 32))"] + ["(declare-const %s Int)" % t for t in ("tRA", "tWA", "tRB", "tWB")] + \
            ["(declare-const vA (_ BitVec 32))", "(declare-const vB (_ BitVec 32))"]
    one = "(_ bv1 32)"
    asserts = ["(distinct tRA tWA tRB tWB)", "(< tRA tWA)", "(< tRB tWB)"] + ["(and (>= %s 0) (<= %s 3))" % (t, t) for t in ("tRA", "tWA", "tRB", "tWB")] + [
        "(= vA (ite (< tWB tRA) (bvadd vB %s) c))" % one,
        "(= vB (ite (< tWA tRB) (bvadd vA %s) c))" % one,
        "(bvult c #xfffffffe)",
        "(= (bvadd vA %s) (bvadd vB %s))" % (one, one)]
    verdict, model = solver.check(decls, asserts, want_model=True)
    if verdict == "sat":
        for lock, percall in per_call.items():
            if not percall:
                continue
            F.append(Finding("C19", "concurrent.assert-assert.duplicate-counter.%s" % lock,
                             "two assertions with the same credential through Arc<%s<store>> can both read counter c and both report and store c+1 "
                             "(lookup and update are separate critical sections with a suspension point between them; schedule %s)" %
                             ("Mutex" if lock == "mutex" else "RwLock", {k: model.get(k) for k in ("tRA", "tRB", "tWA", "tWB")}),
                             {"op": "concurrent_assert", "counter": 5, "lock": lock},
                             lambda o: len(o["result"]["counters"]) == 2 and None not in o["result"]["counters"] and o["result"]["counters"][0] == o["result"]["counters"][1], gap[0]))
    elif verdict != "unsat":
        raise Shape("solver answered %s on the interleaving query" % verdict)
    return F, 1 + nwrap, None
