#!/bin/bash
# usage: eval_mutant.sh <out-dir-with-patch.diff> <prop> [<prop> ...]
# applies the patch to /repo, runs the quick checks, reverts. Never commits.
d="$1"; shift
cd /repo || exit 9
if ! git diff --quiet; then echo "/repo has uncommitted changes"; exit 9; fi
git apply "$d/patch.diff" || { echo "patch does not apply"; exit 9; }
for p in "$@"; do
  echo "=== $p on $(basename $(dirname $d))/$(basename $d)"
  (cd /verif && VERIF_TIER=${TIER:-quick} ./check $p --tier ${TIER:-quick} 2>&1 | grep -E "VIOLATION|INCONCLUSIVE|SUMMARY|KNOWN|harness=" | cut -c1-300)
  echo "exit=$?"
done
git -C /repo checkout -- .
git -C /repo status --short | head -3
