#!/usr/bin/env python3
"""Confirms a seeded change in its scratch worktree: (1) with the change the existing suite passes,
(2) with the change the demonstration fails, (3) without it the demonstration passes.
usage: confirm_seeded.py <worktree> <out-dir> -> prints JSON verdict"""
import json, os, re, subprocess, sys, shutil

wt, od = sys.argv[1], sys.argv[2]
meta = json.load(open(os.path.join(od, "meta.json")))
env = dict(os.environ, CARGO_NET_OFFLINE="true")


def sh(cmd, cwd=wt, timeout=1800):
    p = subprocess.run(cmd, shell=True, cwd=cwd, env=env, stdout=subprocess.PIPE, stderr=subprocess.STDOUT, text=True, timeout=timeout)
    return p.returncode, p.stdout

# demo destination: "<crate>/tests/<file>.rs" mentioned in demo_location or demo_command
loc = meta.get("demo_location", "") + " " + meta.get("demo_command", "")
m = re.search(r"([\w-]+/tests/[\w-]+\.rs)", loc)
if not m:
    print(json.dumps({"ok": False, "why": "cannot find demo destination in meta"})); sys.exit(0)
dest = os.path.join(wt, m.group(1))
mt = re.search(r"cargo test[^&|;]*", meta["demo_command"])
demo_cmd = mt.group(0).strip() if mt else meta["demo_command"]
if "--offline" not in demo_cmd:
    demo_cmd += " --offline"
sh("git checkout -- . && git clean -fdq -e target")
res = {}
rc, out = sh("git apply %s" % os.path.join(od, "patch.diff"))
if rc != 0:
    print(json.dumps({"ok": False, "why": "patch does not apply: " + out[-200:]})); sys.exit(0)
rc, out = sh("cargo test --workspace --offline 2>&1 | grep -E 'test result|error' ")
fails = re.findall(r"(\d+) failed", out)
res["suite_with_change"] = "passes" if fails and all(f == "0" for f in fails) and "error" not in out.split("test result")[0] else "FAILS: " + out[-300:]
os.makedirs(os.path.dirname(dest), exist_ok=True)
shutil.copy(os.path.join(od, "demo.rs"), dest)
rc1, out1 = sh(demo_cmd)
res["demo_with_change"] = "fails" if rc1 != 0 else "PASSES"
sh("git checkout -- .")
rc2, out2 = sh(demo_cmd)
res["demo_without_change"] = "passes" if rc2 == 0 else "FAILS: " + out2[-300:]
os.remove(dest)
try:
    os.rmdir(os.path.dirname(dest))
except OSError:
    pass
sh("git checkout -- . && git clean -fdq -e target")
res["ok"] = res["suite_with_change"] == "passes" and res["demo_with_change"] == "fails" and res["demo_without_change"] == "passes"
res["demo_cmd"] = demo_cmd
res["demo_dest"] = m.group(1)
print(json.dumps(res))
