#!/usr/bin/env python3
"""Regenerates /verif/MANIFEST.json from vlib/props.py (claimed properties) and the N/A table below."""
import json, os, sys
HERE = os.path.dirname(os.path.dirname(os.path.abspath(__file__)))
sys.path.insert(0, HERE)
from vlib.props import PROPS  # noqa

NA = {
}
PENDING = "solver-based check not built yet in this revision (planned in DESIGN.md section 4)"

ALL = ["C%02d" % i for i in range(1, 20)]


def main():
    checks = []
    for pid in sorted(PROPS):
        s = PROPS[pid]
        checks.append({
            "property_id": pid,
            "quick_cmd": "./check %s --tier quick" % pid,
            "thorough_cmd": "./check %s --tier thorough" % pid,
            "evidence_file": "/verif/evidence/%s.json" % pid,
            "replay_cmd_template": "./check --replay {path}",
            "engine": s.get("engine", "kani-cbmc"),
            "level_claimed": {
                "category": "other",
                "text": "Bounded symbolic checking of the real code: " + s.get("level_text", s.get("explanation", "")) +
                        " The verdict is the solver's, for every input inside the stated bounds; nothing is claimed outside them.",
                "design_ref": "DESIGN.md section 4, " + pid,
            },
            "level_note": s.get("level_note", "Trusted: rustc/Kani GOTO translation, CBMC 6.11, CaDiCaL; stubs: " +
                                (", ".join(s.get("stubs", [])) or "none") + ". Outside the claim: " +
                                "; ".join(s.get("outside", []))),
            "technique": s.get("technique", "Kani/CBMC bounded model checking of the compiled Rust code (symbolic inputs, SAT verdict)"),
        })
    na = []
    for pid in ALL:
        if pid in PROPS:
            continue
        na.append({"property_id": pid, "reason": NA.get(pid, PENDING)})
    m = {
        "version": 1,
        "setup_cmd": "./setup.sh",
        "hooks": {
            "guard": "kani",
            "enable": "no source hooks are committed in /repo: harness modules under /verif/harness/splice are appended, "
                      "inside #[cfg(kani)], to a scratch copy of /repo's working tree on every run; cfg(kani) is set only by the Kani compiler. Two textual substitutions are applied to the scratch copy (never to /repo) and listed in the evidence: the HashMap import of passkey-transports/src/hid.rs (model under cfg(kani)) and the five string-scanning call sites of public-suffix/src/lib.rs (byte-loop models under cfg(kani), the std calls natively)",
            "baseline_off_cmd": "cd /repo && cargo test --workspace --no-fail-fast --offline",
            "source_commits": [],
            "add_only": True,
        },
        "engines": [
            {"name": "kani-cbmc", "path": "/verif/vlib/kani.py", "serves_properties": sorted(PROPS),
             "kind_free_text": "Kani 0.68 / CBMC 6.11 bounded model checking of the real Rust code; counterexamples replayed natively"},
        ],
        "checks": checks,
        "not_applicable": na,
        "notes": "exit 0 = held within bounds; exit 1 = VIOLATION (replayed natively); exit 2 = inconclusive (never success). "
                 "See DESIGN.md.",
    }
    json.dump(m, open(os.path.join(HERE, "MANIFEST.json"), "w"), indent=1)


if __name__ == "__main__":
    main()
