#!/bin/bash
# usage: run_all.sh <tier> <log>   runs every claimed property's check once
tier="$1"; log="$2"
cd /verif
for p in $(python3 -c "import json;print(' '.join(c['property_id'] for c in json.load(open('MANIFEST.json'))['checks']))"); do
  echo "### $p $(date +%H:%M:%S)" >> $log
  ./check $p --tier $tier 2>&1 | grep -E "VIOLATION|INCONCLUSIVE|SUMMARY|KNOWN|harness=" | cut -c1-300 >> $log
  echo "exit=${PIPESTATUS[0]}" >> $log
done
echo "### DONE $(date +%H:%M:%S)" >> $log
