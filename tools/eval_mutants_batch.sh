#!/bin/bash
# usage: eval_mutants_batch.sh <log> <out-dir>:<prop>[,<prop>] ...   (uses a private clone of /repo)
log="$1"; shift
R=${MUTREPO:-/var/tmp/mutrepo}
# private clone of /repo (never /repo itself); created on first use, brought to /repo's HEAD otherwise
if [ ! -d "$R/.git" ]; then git clone -q /repo "$R"; else (cd "$R" && git checkout -q -- . && git pull -q /repo main); fi
for item in "$@"; do
  d="${item%%:*}"; props="${item##*:}"
  cd $R && git checkout -q -- . && git clean -fdq
  if ! git apply "$d/patch.diff"; then echo "### $d: patch does not apply" >> $log; continue; fi
  for p in ${props//,/ }; do
    echo "### $d $p" >> $log
    (cd /verif && VERIF_REPO=$R ./check $p --tier quick 2>&1 | grep -E "VIOLATION|INCONCLUSIVE|SUMMARY|KNOWN|harness=" | cut -c1-260) >> $log
  done
  cd $R && git checkout -q -- .
done
echo "### DONE" >> $log
