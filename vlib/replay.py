"""Counterexample replay for E1: Kani concrete playback -> ordinary #[test] run natively (no solver)
against the scratch copy of the real code, dev profile and a release-like profile."""
import os, re, subprocess, json, time

from .kani import KANI_ENV

RELEASE_LIKE = {
    "CARGO_PROFILE_DEV_OPT_LEVEL": "3",
    "CARGO_PROFILE_DEV_DEBUG_ASSERTIONS": "false",
    "CARGO_PROFILE_DEV_OVERFLOW_CHECKS": "false",
}

PANIC_RE = re.compile(r"thread '([^']+)' \(\d+\) panicked at ([^\n]+?):\n([^\n]*)")
PANIC_RE2 = re.compile(r"thread '([^']+)' panicked at ([^\n]+?):\n([^\n]*)")


def _env(extra=None):
    env = dict(os.environ)
    env.update(KANI_ENV)
    env.pop("RUSTUP_TOOLCHAIN", None)
    if extra:
        env.update(extra)
    return env


def enclosing_fn(ws_root, loc):
    """loc = 'path:line:col' (path relative to the workspace or absolute) -> 'relpath::fn_name'."""
    m = re.match(r"(.*?):(\d+):(\d+)$", loc.strip())
    if not m:
        return loc
    path, line = m.group(1), int(m.group(2))
    full = path if os.path.isabs(path) else os.path.join(ws_root, path)
    rel = os.path.relpath(full, ws_root) if full.startswith(ws_root) else \
        re.sub(r".*/library/", "std:", path)
    fn = "?"
    try:
        lines = open(full, errors="replace").read().split("\n")
        for i in range(min(line, len(lines)) - 1, -1, -1):
            mm = re.match(r"\s*(?:pub(?:\([^)]*\))?\s+)?(?:const\s+)?(?:async\s+)?(?:unsafe\s+)?fn\s+([A-Za-z0-9_]+)", lines[i])
            if mm:
                fn = mm.group(1)
                break
    except OSError:
        pass
    return "%s::%s" % (rel, fn)


def message_class(msg):
    msg = msg.strip()
    msg = re.sub(r"\d+", "N", msg)
    return msg[:80]


def module_file(crate, harness):
    """harness path 'a::b::verif_proofs::name' -> '<crate>/src/a/b.rs' ('verif_proofs::name' -> lib.rs)"""
    parts = harness.split("::")[:-2]
    if not parts:
        return os.path.join(crate, "src", "lib.rs")
    return os.path.join(crate, "src", *parts) + ".rs"


def insert_tests(ws, relfile, srcs):
    """append test functions inside the spliced module (before its closing brace)"""
    f = os.path.join(ws.ws, relfile)
    s = open(f).read()
    i = s.rstrip().rfind("}")
    s = s[:i] + "\n" + "\n".join(srcs) + "\n}\n"
    open(f, "w").write(s)


def generate_playback_tests(ws, crate, harness, features=(), timeout=900, log_dir=None):
    """Runs the harness with --concrete-playback=print, inserts the printed unit tests at the end of the
    spliced module; returns list of (test_name, test_src, file)."""
    cmd = ["cargo", "kani", "-p", crate, "--exact", "--harness", harness, "-Z", "stubbing",
           "-Z", "concrete-playback", "--concrete-playback=print", "--output-format", "terse"]
    if features:
        cmd += ["--features", ",".join(features)]
    env = _env()
    env["PATH"] = os.path.join(os.path.dirname(os.path.dirname(os.path.abspath(__file__))), "tools", "bin") + ":" + env["PATH"]
    try:
        p = subprocess.run(cmd, cwd=ws.ws, env=env, stdout=subprocess.PIPE,
                           stderr=subprocess.STDOUT, timeout=timeout, text=True, errors="replace")
    except subprocess.TimeoutExpired:
        return [], "timeout generating playback"
    out = p.stdout
    if log_dir:
        open(os.path.join(log_dir, "playback-gen.%s.log" % harness.replace("::", ".")), "w").write(out)
    relfile = module_file(crate, harness)
    tests = []
    seen = set()
    for m in re.finditer(r"```\n(.*?)```", out, re.S):
        src = m.group(1)
        mm = re.search(r"fn (kani_concrete_playback_\w+)\(\)", src)
        if not mm or mm.group(1) in seen:
            continue
        if re.search(r"/// Check for `cover`", src):
            # the witness of a satisfied cover!, not a counterexample
            continue
        seen.add(mm.group(1))
        tests.append((mm.group(1), src, relfile))
    if tests:
        insert_tests(ws, relfile, [t[1] for t in tests])
    return tests, out


def run_playback(ws, crate, name_filter, features=(), release_like=False, timeout=900, log_dir=None, tag=""):
    cmd = ["cargo", "kani", "playback", "-Z", "concrete-playback", "-p", crate]
    if features:
        cmd += ["--features", ",".join(features)]
    cmd += ["--", name_filter, "--test-threads", "4"]
    env = _env(RELEASE_LIKE if release_like else None)
    env["RUST_MIN_STACK"] = str(8 * 1024 * 1024)
    try:
        p = subprocess.run(cmd, cwd=ws.ws, env=env, stdout=subprocess.PIPE, stderr=subprocess.STDOUT,
                           timeout=timeout, text=True, errors="replace")
        out = p.stdout
    except subprocess.TimeoutExpired as e:
        out = (e.stdout or "") if isinstance(e.stdout, str) else ""
        out += "\nPLAYBACK TIMEOUT\n"
    if log_dir:
        open(os.path.join(log_dir, "playback-run.%s%s.log" % (tag, "-rel" if release_like else "")), "w").write(out)
    res = {}
    for m in re.finditer(r"^test (\S+) \.\.\. (ok|FAILED)", out, re.M):
        res[m.group(1).split("::")[-1]] = {"failed": m.group(2) == "FAILED"}
    for rx in (PANIC_RE, PANIC_RE2):
        for m in rx.finditer(out):
            t = m.group(1).split("::")[-1]
            if t in res and "panic_at" not in res[t]:
                res[t]["panic_at"] = m.group(2)
                res[t]["panic_msg"] = m.group(3)
    # a crash of the whole test binary (stack overflow / abort) kills every test in it
    crashed = bool(re.search(r"has overflowed its stack|SIGABRT|SIGSEGV|signal: \d+", out))
    return res, crashed, out


def replay_failing_harness(ws, crate, harness, features=(), log_dir=None, gen_timeout=900):
    """-> list of dicts {test, src, file, dev:{failed,panic_at,..}, rel:{..}, role}"""
    tests, gen_out = generate_playback_tests(ws, crate, harness, features, timeout=gen_timeout, log_dir=log_dir)
    if not tests:
        return [], ("no playback tests generated" if isinstance(gen_out, str) and "timeout" not in gen_out[:40] else "timeout generating the playback test")
    short = harness.split("::")[-1]
    flt = "kani_concrete_playback_" + short + "_"
    dev, dev_crash, _ = run_playback(ws, crate, flt, features, False, log_dir=log_dir, tag=short)
    rel, rel_crash, _ = run_playback(ws, crate, flt, features, True, log_dir=log_dir, tag=short)
    out = []
    for name, src, f in tests:
        d = dev.get(name, {"failed": dev_crash, "crash": dev_crash})
        r = rel.get(name, {"failed": rel_crash, "crash": rel_crash})
        at = d.get("panic_at") or r.get("panic_at")
        msg = d.get("panic_msg") or r.get("panic_msg") or ""
        role = None
        if at:
            role = "%s::%s" % (enclosing_fn(ws.ws, at), message_class(msg))
        elif d.get("crash") or r.get("crash"):
            role = "process-crash"
        # a playback that only trips Kani's own end-of-run bookkeeping ("concrete values left over": a stub that draws
        # kani::any() values is not applied natively) has NOT reproduced the counterexample
        def genuine(x):
            return bool(x.get("failed")) and "concrete_playback.rs" not in (x.get("panic_at") or "")
        out.append({"test": name, "src": src, "file": f, "dev": d, "release_like": r, "role": role,
                    "reproduced": genuine(d) or genuine(r)})
    return out, ""
