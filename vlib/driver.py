import argparse, json, os, re, sys, time, shutil, traceback, collections

from .workspace import Workspace, VERIF, REPO
from . import kani as K
from . import replay as R
from .props import PROPS

EVID_DIR = os.path.join(VERIF, "evidence")
REPLAY_DIR = os.path.join(VERIF, "replays_out")
KF_PATH = os.path.join(VERIF, "known_findings.json")

LEVEL_TEXT = ("bounded symbolic checking of the real code: the SAT/SMT solver's verdict holds for all "
              "inputs within the stated bounds and says nothing outside them")


def load_known():
    try:
        return json.load(open(KF_PATH))["findings"]
    except FileNotFoundError:
        return []


def match_known(known, pid, harness, role):
    """open entries suppress (KNOWN-FINDING); fixed entries never suppress."""
    for k in known:
        if k.get("status") != "open" or k.get("property") != pid:
            continue
        if k.get("harness") and k["harness"] != harness.split("::")[-1]:
            continue
        if k.get("role") and role and re.fullmatch(k["role"], role):
            return k
    return None


class Outcome:
    def __init__(self, pid, tier, seed):
        self.pid, self.tier, self.seed = pid, tier, seed
        self.violations = []      # (harness, role, replay_path, text)
        self.known_hits = []      # (finding, harness, role)
        self.inconclusive = []    # text
        self.harness_results = []
        self.units = []
        self.samples = []
        self.obligations = 0
        self.discharged = 0
        self.evaluations = 0
        self.nontrivial = 0
        self.solver_time = 0.0
        self.extra = {}
        self.not_replayed = []    # failing harnesses left unreplayed after the cap was reached


def write_replay(pid, harness, crate, features, rp):
    os.makedirs(REPLAY_DIR, exist_ok=True)
    path = os.path.join(REPLAY_DIR, "%s-%s-%s.json" % (pid, harness.split("::")[-1], rp["test"][-8:]))
    json.dump({"engine": "kani-playback", "property": pid, "harness": harness, "crate": crate,
               "features": list(features), "test": rp["test"], "file": rp["file"], "src": rp["src"],
               "role": rp["role"], "dev": rp["dev"], "release_like": rp["release_like"]},
              open(path, "w"), indent=1)
    return path


REPLAY_CAP = int(os.environ.get("VERIF_REPLAY_CAP", "2"))


def run_e1(pid, spec, tier, ws, out, log_dir, known):
    hs = [h for h in spec.get("harnesses", []) if tier == "thorough" or h.tier == "quick"]
    groups = collections.OrderedDict()
    for h in hs:
        groups.setdefault((h.crate, h.features), []).append(h)
    jobs = int(os.environ.get("VERIF_JOBS", "12"))
    for (crate, features), lst in groups.items():
        tmo = max(h.timeout[0 if tier == "quick" else 1] for h in lst)
        results, meta = K.run_kani(ws, crate, [h.path for h in lst], jobs=jobs, harness_timeout=tmo,
                                   features=features, log_dir=log_dir,
                                   tag="%s-%s" % (pid, crate))
        out.units.append(meta)
        if meta.get("build_failed"):
            out.inconclusive.append("build of %s with spliced harnesses failed: %s" %
                                    (crate, "; ".join(e.split("\n")[0] for e in meta.get("build_errors", []))))
        # failing harnesses are replayed cheapest first; once REPLAY_CAP violations of this property are confirmed the
        # remaining failing harnesses are listed but not replayed (each replay re-runs CBMC to print the test)
        order = sorted(lst, key=lambda h: (results[h.path].status == "fail" and not h.twin, results[h.path].time_s or 0))
        for h in order:
            r = results[h.path]
            out.evaluations += 1
            out.harness_results.append((h, r))
            out.obligations += r.checks_total + len(r.covers)
            out.solver_time += r.time_s or 0
            if h.twin:
                # reachability witness: the final assert!(false) must be refuted
                reached = any(f["description"].startswith("assertion failed: false") for f in r.failed)
                if r.status == "fail" and reached:
                    out.discharged += r.checks_total + len(r.covers)
                else:
                    out.inconclusive.append("twin %s did not reach its final assert!(false) (%s %s): "
                                            "the paired harness may be vacuous" % (h.name, r.status, r.reason))
                continue
            if r.status == "pass":
                unsat = [c for c in r.covers if c["status"] != "SATISFIED"]
                if unsat:
                    out.inconclusive.append("harness %s: cover witness not satisfied (%s) - vacuous region" %
                                            (h.name, unsat[0]["description"] or unsat[0]["location"]))
                    out.discharged += r.checks_total + len(r.covers) - len(unsat)
                else:
                    out.discharged += r.checks_total + len(r.covers)
                    out.nontrivial += 1
                continue
            if r.status == "inconclusive":
                out.inconclusive.append("harness %s: %s" % (h.name, r.reason))
                continue
            # r.status == "fail"
            out.discharged += r.checks_total - r.checks_failed - r.undetermined + r.covers_satisfied
            if r.unwinding_failed:
                out.inconclusive.append("harness %s: unwinding assertion failed - bound too small for this tree" % h.name)
                if all(f.get("unwinding") for f in r.failed):
                    continue
            # real failing checks: replay natively
            if len(out.violations) >= REPLAY_CAP:
                out.not_replayed.append("%s (%s)" % (h.name, "; ".join(f["description"][:50] for f in r.failed[:2])))
                continue
            rps, why = R.replay_failing_harness(ws, crate, h.path, features, log_dir=log_dir,
                                                gen_timeout=max(2700, 3 * h.timeout[0 if tier == "quick" else 1]))
            reproduced = [rp for rp in rps if rp["reproduced"]]
            if not reproduced:
                out.inconclusive.append(
                    "harness %s: %d failing check(s) [%s] but no counterexample reproduced natively (%s) - "
                    "stub or encoding suspected; not reported as a violation" %
                    (h.name, r.checks_failed, "; ".join(f["description"][:60] for f in r.failed[:3]), why))
                continue
            seen_roles = set()
            for rp in reproduced:
                role = rp["role"] or "unknown"
                if role in seen_roles:
                    continue
                seen_roles.add(role)
                kf = match_known(known, pid, h.path, role)
                path = write_replay(pid, h.path, crate, features, rp)
                if kf:
                    out.known_hits.append((kf, h.name, role, path))
                else:
                    out.violations.append((h.name, role, path,
                                           (rp["dev"].get("panic_msg") or rp["release_like"].get("panic_msg") or "")))


def emit_evidence(pid, spec, out, wall, ws):
    global EVID_DIR
    if os.environ.get("VERIF_REPO", "/repo").rstrip("/") != "/repo":
        # a development run against a private clone (seeded changes): never touches the evidence of /repo
        EVID_DIR = os.path.join(VERIF, "logs_last", "evidence-of-private-clone")
    os.makedirs(EVID_DIR, exist_ok=True)
    samples = []
    for h, r in out.harness_results:
        s = {"harness": h.name, "crate": h.crate, "bounds": h.bounds, "twin": h.twin,
             "result": r.status, "checks": r.checks_total, "failed": r.checks_failed,
             "covers_satisfied": "%d/%d" % (r.covers_satisfied, len(r.covers)),
             "solver_time_s": r.time_s}
        if r.covers:
            c = r.covers[0]
            s["witness"] = "%s @ %s" % (c["status"], c["location"])
        if r.failed and not h.twin:
            s["failing"] = [f["description"][:100] + " @ " + f["function"][:80] for f in r.failed[:4]]
        samples.append(s)
    samples += out.samples
    cov = {
        "explanation": spec.get("explanation", "") + " | " + LEVEL_TEXT +
                       " | bounds: " + "; ".join("%s: %s" % (h.name, h.bounds) for h, _ in out.harness_results if not h.twin)[:3000],
        "obligations": out.obligations,
        "discharged": out.discharged,
        "evaluations": out.evaluations,
        "distinct_nontrivial": out.nontrivial,
        "rule": "one evaluation = one harness instance (a solver run over all inputs inside its bound); an instance is "
                "non-trivial iff the solver reached a verdict, every kani::cover! witness in it is SATISFIED and it is "
                "not a twin; twins (final assert!(false) must be refuted) are counted in evaluations only",
        "samples": samples,
        "functions_encoded": spec.get("functions", []),
        "stubs": spec.get("stubs", []),
        "bounds": {h.name: h.bounds for h, _ in out.harness_results},
        "outside_the_claim": spec.get("outside", []),
        "solver_time_s": round(out.solver_time, 2),
        "checker_cmd": "; ".join(u.get("cmd", "")[:400] for u in out.units)[:2000],
        "trusted_base": ["rustc -> MIR -> Kani 0.68 GOTO translation", "CBMC 6.11.0", "CaDiCaL",
                         "the stubs listed under 'stubs'"] + spec.get("trusted", []),
        "source_digest": getattr(ws, "digest", None),
        "splices": ws.splices, "substitutions": ws.substitutions,
        "known_findings_hit": [{"what": k["what"], "harness": hn, "role": role} for k, hn, role, _ in out.known_hits],
        "inconclusive": out.inconclusive,
        "exhaustive": False,
    }
    cov.update(out.extra)
    ev = {
        "property_id": pid, "tier": out.tier, "seed": out.seed, "level": "other",
        "coverage": cov,
        "assumptions": spec.get("assumptions", []) + ["stubs: " + ", ".join(spec.get("stubs", []) or ["none"])],
        "wall_s": round(wall, 1),
        "violations": len(out.violations),
    }
    json.dump(ev, open(os.path.join(EVID_DIR, "%s.json" % pid), "w"), indent=1)


def check_property(pid, tier, keep=False, reuse=None):
    spec = PROPS[pid]
    seed = int(os.environ.get("VERIF_SEED", "0") or 0)
    out = Outcome(pid, tier, seed)
    t0 = time.time()
    known = load_known()
    ws = Workspace(pid.lower(), keep=keep, reuse=reuse)
    log_dir = os.path.join(ws.root, "logs")
    try:
        ws.populate()
        os.makedirs(log_dir, exist_ok=True)
        missing = ws.splice_all()
        for m in missing:
            out.inconclusive.append("splice target missing in /repo: %s" % m)
        for hook in spec.get("prepare", []):
            msg = hook(ws)
            if msg:
                out.inconclusive.append(msg)
        if spec.get("harnesses"):
            run_e1(pid, spec, tier, ws, out, log_dir, known)
        for eng in spec.get("engines", []):
            eng(pid, spec, tier, ws, out, log_dir, known)
    except Exception as e:  # machinery failure is never a pass
        traceback.print_exc()
        out.inconclusive.append("machinery error: %r" % (e,))
    finally:
        wall = time.time() - t0
        try:
            emit_evidence(pid, spec, out, wall, ws)
        except Exception as e:
            traceback.print_exc()
            out.inconclusive.append("evidence error: %r" % (e,))
        if out.inconclusive or out.violations:
            # keep the logs of a run that needs attention
            dst = os.path.join(VERIF, "logs_last", pid)
            shutil.rmtree(dst, ignore_errors=True)
            try:
                shutil.copytree(log_dir, dst)
            except Exception:
                pass
        ws.cleanup()
    for kf, hn, role, path in out.known_hits:
        print("KNOWN-FINDING: property=%s %s [harness=%s role=%s replay=%s]" % (pid, kf["what"], hn, role, path))
    for hn, role, path, msg in out.violations:
        print("VIOLATION property=%s replay=%s" % (pid, path))
        print("  harness=%s role=%s %s" % (hn, role, msg[:200]))
    if out.not_replayed:
        print("  also failing, not replayed (%d violation(s) of %s already confirmed): %s" % (len(out.violations), pid, ", ".join(out.not_replayed)[:600]))
    for t in out.inconclusive:
        print("INCONCLUSIVE property=%s %s" % (pid, t))
    n_h = len([1 for h, _ in out.harness_results if not h.twin])
    print("SUMMARY property=%s tier=%s harnesses=%d nontrivial=%d obligations=%d discharged=%d solver_s=%.1f wall_s=%.0f "
          "violations=%d known=%d inconclusive=%d" %
          (pid, tier, n_h, out.nontrivial, out.obligations, out.discharged, out.solver_time, wall,
           len(out.violations), len(out.known_hits), len(out.inconclusive)))
    if out.violations:
        return 1
    if out.inconclusive:
        return 2
    return 0


def do_replay(path):
    rp = json.load(open(path))
    if rp.get("engine") == "kani-playback":
        ws = Workspace("replay")
        try:
            ws.populate()
            ws.splice_all()
            for hook in PROPS.get(rp["property"], {}).get("prepare", []):
                hook(ws)
            R.insert_tests(ws, rp["file"], [rp["src"]])
            ok = False
            for rel in (False, True):
                res, crashed, outp = R.run_playback(ws, rp["crate"], rp["test"], rp.get("features", ()), rel)
                t = res.get(rp["test"], {})
                artefact = "concrete_playback.rs" in (t.get("panic_at") or "")
                hit = (t.get("failed") and not artefact) or crashed
                print("replay %s profile=%s -> %s %s" % (rp["test"], "release-like" if rel else "dev",
                                                        "FAILED (reproduced)" if hit else ("passed (only Kani's left-over-values bookkeeping fired)" if artefact else "passed"),
                                                        t.get("panic_at", "")))
                if t.get("panic_msg") and not artefact:
                    print("   " + t["panic_msg"])
                ok = ok or hit
            if ok:
                print("VIOLATION property=%s replay=%s" % (rp["property"], path))
                return 1
            return 0
        finally:
            ws.cleanup()
    else:
        from . import mirsym_engine
        return mirsym_engine.do_replay(rp, path)


def main(argv):
    ap = argparse.ArgumentParser()
    ap.add_argument("prop", nargs="?")
    ap.add_argument("--tier", default=os.environ.get("VERIF_TIER", "quick"), choices=["quick", "thorough"])
    ap.add_argument("--keep", action="store_true")
    ap.add_argument("--ws")
    ap.add_argument("--replay")
    ap.add_argument("--list", action="store_true")
    a = ap.parse_args(argv)
    if a.list:
        for p in sorted(PROPS):
            print(p, PROPS[p]["title"])
        return 0
    if a.replay:
        return do_replay(a.replay)
    if not a.prop or a.prop not in PROPS:
        print("unknown property; use --list")
        return 2
    return check_property(a.prop, a.tier, keep=a.keep, reuse=a.ws)
