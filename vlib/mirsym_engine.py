"""E2 driver: nightly MIR dump of the scratch copy -> path executor -> property checks (SMT queries for
feasibility / arithmetic) -> native replay of every counterexample and trace validation against the
real code."""
import json, os, re, shutil, subprocess, time, sys

from .workspace import VERIF

sys.path.insert(0, VERIF)
from mirsym.mirparse import parse_mir            # noqa: E402
from mirsym.executor import Executor, tstr       # noqa: E402
from mirsym import checks as C                   # noqa: E402
from mirsym.smt import Solver                    # noqa: E402

REPLAY_DIR = os.path.join(VERIF, "replays_out")

_ctx_cache = {}


class E2:
    def __init__(self, ws, log_dir):
        self.ws = ws
        self.log_dir = log_dir
        self.mir_time = 0.0
        self.exec_time = 0.0
        self.fns = None
        self.crate_fns = {}
        self.paths = {}
        self.solver = None
        self.replay_bin = None
        self.replay_build_err = None
        self.validated = 0
        self.validation_mismatches = []
        self.samples = []
        self.functions = []

    # ---- MIR --------------------------------------------------------------------------------
    def mir_of(self, crate, features=None, crate_name=None):
        """parsed MIR of one workspace crate of the scratch copy (nightly -Zunpretty=mir), cached per run"""
        if crate in self.crate_fns:
            return self.crate_fns[crate]
        key = crate
        crate = crate_name or crate
        t0 = time.time()
        env = dict(os.environ)
        env["CARGO_NET_OFFLINE"] = "true"
        env.pop("RUSTUP_TOOLCHAIN", None)
        out = os.path.join(self.ws.root, "%s.mir" % key.replace("+", "_"))
        lib = os.path.join(self.ws.ws, crate, "src", "lib.rs")
        os.utime(lib, None)
        cmd = ["cargo", "+nightly", "rustc", "--offline", "-p", crate, "--lib"]
        if features:
            cmd += ["--features", ",".join(features)]
        cmd += ["--target-dir", os.path.join(self.ws.root, "mir-target"), "--",
                "-Zunpretty=mir", "-C", "debug-assertions=off", "-C", "overflow-checks=on"]
        with open(out, "w") as fo, open(os.path.join(self.log_dir, "mir-dump-%s.log" % crate), "w") as fe:
            rc = subprocess.run(cmd, cwd=self.ws.ws, env=env, stdout=fo, stderr=fe, timeout=1200).returncode
        text = open(out).read()
        if rc != 0 or "fn " not in text:
            raise C.Shape("MIR dump of %s failed (rc=%s); see mir-dump-%s.log" % (crate, rc, crate))
        self.crate_fns[key] = parse_mir(text)
        self.mir_time += time.time() - t0
        self.mir_cmd = " ".join(cmd)
        return self.crate_fns[key]

    def dump_mir(self):
        if self.fns is not None:
            return
        self.fns = self.mir_of("passkey-authenticator")
        srcs = {}
        for rel in ("passkey-types/src/ctap2/get_assertion.rs", "passkey-types/src/ctap2/make_credential.rs",
                    "passkey-types/src/passkey.rs", "passkey-authenticator/src/lib.rs", "passkey-authenticator/src/authenticator/extensions.rs") + C.CLIENT_SOURCES:
            srcs[rel] = open(os.path.join(self.ws.ws, rel)).read()
        self.ctx = C.Ctx(srcs)
        self.ctx.fns = self.fns

    def find_fn(self, *needles, closure=True):
        cands = [n for n in self.fns if all(x in n for x in needles)]
        if closure:
            cands = [n for n in cands if n.endswith("{closure#0}") and n.count("{closure#") == 1]
        if len(cands) != 1:
            raise C.Shape("expected exactly one MIR function matching %s, found %d" % (needles, len(cands)))
        return cands[0]

    def run_paths(self, key, *needles):
        if key in self.paths:
            return self.paths[key]
        self.dump_mir()
        name = self.find_fn(*needles)
        t0 = time.time()
        ex = Executor(self.fns[name])
        ps = ex.run()
        self.exec_time += time.time() - t0
        self.paths[key] = ps
        self.functions.append(name)
        self.ctx.set_fn(key, self.fns[name])
        return ps

    def get_solver(self):
        if self.solver is None:
            self.solver = Solver()
        return self.solver

    # ---- feasibility of every enumerated path (solver) ------------------------------------------
    def feasible(self, ps):
        s = self.get_solver()
        keep = []
        for p in ps:
            names = {}
            decls, asserts = [], []
            for k, op, v in p.conds:
                if k not in names:
                    names[k] = "k%d" % len(names)
                    decls.append("(declare-const %s Int)" % names[k])
                if op == "==":
                    asserts.append("(= %s %d)" % (names[k], v))
                else:
                    asserts.append("(not (or %s))" % " ".join("(= %s %d)" % (names[k], x) for x in v) if v else "true")
            verdict, _ = s.check(decls, asserts)
            if verdict == "sat":
                keep.append(p)
            elif verdict != "unsat":
                raise C.Shape("solver answered %s on a path-feasibility query" % verdict)
        return keep

    # ---- native replay ---------------------------------------------------------------------------
    def build_replay(self):
        if self.replay_bin or self.replay_build_err:
            return
        d = os.path.join(self.ws.root, "e2")
        shutil.rmtree(d, ignore_errors=True)
        shutil.copytree(os.path.join(VERIF, "replay", "e2"), d)
        shutil.copy(os.path.join(self.ws.ws, "Cargo.lock"), os.path.join(d, "Cargo.lock"))
        env = dict(os.environ)
        env["CARGO_NET_OFFLINE"] = "true"
        env.pop("RUSTUP_TOOLCHAIN", None)
        for profile in ("dev", "release"):
            cmd = ["cargo", "build", "--offline"] + (["--release"] if profile == "release" else [])
            with open(os.path.join(self.log_dir, "replay-build-%s.log" % profile), "w") as lf:
                rc = subprocess.run(cmd, cwd=d, env=env, stdout=lf, stderr=subprocess.STDOUT, timeout=1800).returncode
            if rc != 0:
                self.replay_build_err = "replay crate does not build (%s profile) against this tree" % profile
                return
        self.replay_bin = {"dev": os.path.join(d, "target", "debug", "verif-e2-replay"),
                           "release": os.path.join(d, "target", "release", "verif-e2-replay")}

    def run_scenario(self, sc, profile="dev"):
        self.build_replay()
        if not self.replay_bin:
            return None
        try:
            p = subprocess.run([self.replay_bin[profile], json.dumps(sc)], stdout=subprocess.PIPE, stderr=subprocess.STDOUT,
                               timeout=60, text=True, errors="replace",
                               preexec_fn=lambda: __import__("resource").setrlimit(__import__("resource").RLIMIT_STACK, (8 << 20, 8 << 20)))
        except subprocess.TimeoutExpired:
            return {"result": "timeout", "log": [], "crash": True}
        m = re.search(r"^E2REPLAY (.*)$", p.stdout, re.M)
        if m:
            o = json.loads(m.group(1))
            o["crash"] = False
            return o
        return {"result": "crash", "log": [], "crash": True, "rc": p.returncode, "tail": p.stdout[-300:]}

    def validate_traces(self, ps, scenario_fn, limit=40):
        """push scenarios derived from enumerated paths through the real code and compare the sequence
        of store / user-validation calls and the Ok/Err outcome with what the executor predicted"""
        n = 0
        for p in ps:
            if n >= limit:
                break
            res = C.result_of(p)
            if res is None:
                continue
            sc = scenario_fn(p, self.ctx)
            if sc is None:
                continue
            o = self.run_scenario(sc)
            if o is None:
                return
            n += 1
            want_log = C.predicted_log(p)
            got_log = [c["call"] for c in o["log"]]
            # the real check_user only reaches the validation double when the capability check passes,
            # and get_info is also called inside Authenticator::get_info: compare store mutations and lookups
            f = lambda l: [x for x in l if x in ("find", "update", "save")]
            ok_kind = ("ok" in o["result"]) if isinstance(o["result"], dict) else False
            want_ok = res[0] == "Ok"
            if isinstance(o["result"], dict) and "panic" in o["result"]:
                # panics are reported by the property checks, not by validation
                continue
            if f(want_log) != f(got_log) or ok_kind != want_ok:
                self.validation_mismatches.append({"scenario": sc, "predicted": want_log, "observed": got_log,
                                                   "predicted_ok": want_ok, "observed_result": o["result"]})
            else:
                self.validated += 1
                if len(self.samples) < 6:
                    self.samples.append({"path": C.describe(p), "scenario": sc, "observed_log": got_log, "observed_result": o["result"]})


def get_e2(ws, log_dir):
    k = ws.root
    if k not in _ctx_cache:
        _ctx_cache[k] = E2(ws, log_dir)
    return _ctx_cache[k]


def write_replay(pid, f, observed):
    os.makedirs(REPLAY_DIR, exist_ok=True)
    path = os.path.join(REPLAY_DIR, "%s-e2-%s.json" % (pid, re.sub(r"[^A-Za-z0-9_.-]", "_", f.role)))
    json.dump({"engine": "e2-scenario", "property": pid, "role": f.role, "text": f.text, "scenario": f.scenario,
               "observed": observed, "path": C.describe(f.path) if f.path is not None else None}, open(path, "w"), indent=1)
    return path


def judge(e2, f):
    """-> (reproduced: bool|None, observed)   None = no native scenario for this finding.
    f.scenario: one scenario, a list of variants (reproduced if any variant does), or {"pair": [a, b]}
    (the predicate then receives both outputs)."""
    if f.scenario is None:
        return None, None
    pairs = None
    if isinstance(f.scenario, dict) and "pair" in f.scenario:
        pairs = [f.scenario]
    elif isinstance(f.scenario, list) and f.scenario and all(isinstance(x, dict) and "pair" in x for x in f.scenario):
        pairs = f.scenario
    if pairs is not None:
        last = {}
        for pr in pairs:
            obs = {}
            rep = False
            for profile in ("dev", "release"):
                outs = []
                for sc in pr["pair"]:
                    o = e2.run_scenario(sc, profile)
                    if o is None:
                        return None, {"error": e2.replay_build_err}
                    o["scenario"] = sc
                    outs.append(o)
                obs[profile] = {"result": [o["result"] for o in outs], "logs": [o["log"] for o in outs]}
                try:
                    rep = rep or bool(f.predicate(outs))
                except Exception as ex:
                    obs[profile]["predicate_error"] = repr(ex)
            last = obs
            if rep:
                f.scenario = pr
                return True, obs
        return False, last
    variants = f.scenario if isinstance(f.scenario, list) else [f.scenario]
    last = {}
    for sc in variants:
        obs = {}
        rep = False
        for profile in ("dev", "release"):
            o = e2.run_scenario(sc, profile)
            if o is None:
                return None, {"error": e2.replay_build_err}
            o["scenario"] = sc
            obs[profile] = o
            if f.predicate == "crash":
                rep = rep or o.get("crash", False)
            elif f.predicate is not None and not o.get("crash"):
                try:
                    rep = rep or bool(f.predicate(o))
                except Exception as ex:  # predicate does not apply to this output
                    obs[profile]["predicate_error"] = repr(ex)
        last = obs
        if rep:
            f.scenario = sc   # the variant that reproduces is what the replay file records
            return True, obs
    return False, last


def engine(pid, spec, tier, ws, out, log_dir, known):
    from .driver import match_known
    e2 = get_e2(ws, log_dir)
    t0 = time.time()
    findings = []
    try:
        want = {pid}
        todo = spec.get("e2", [])
        if any(t in todo for t in ("get_assertion", "make_credential", "stores", "forwarding", "u2f", "concurrency", "secrecy", "client_register", "client_authenticate", "store_writes")):
            e2.dump_mir()
        npaths = 0
        if "get_assertion" in todo:
            ps = e2.run_paths("ga", "authenticator::get_assertion", "get_assertion::{closure#0}")
            ps = e2.feasible(ps)
            npaths += len(ps)
            f, st = C.check_get_assertion(ps, e2.ctx, want)
            findings += f
            if pid == "C08":
                f2, q = C.counter_checks(ps, e2.ctx, e2.get_solver())
                findings += f2
            if tier == "thorough" or pid in ("C07", "C08", "C04", "C03"):
                e2.validate_traces([p for p in ps], lambda p, c: C.ga_scenario(p, c, strict=True), limit=60 if tier == "thorough" else 25)
        if "make_credential" in todo:
            ps = e2.run_paths("mc", "authenticator::make_credential", "make_credential::{closure#0}")
            ps = e2.feasible(ps)
            npaths += len(ps)
            f, st = C.check_make_credential(ps, e2.ctx, want)
            findings += f
            if tier == "thorough" or pid in ("C07", "C04"):
                e2.validate_traces([p for p in ps if C.no_yield(p)], lambda p, c: C.mc_scenario(p, c, strict=True), limit=40 if tier == "thorough" else 15)
        if "stores" in todo:
            for kind in ("option", "memory"):
                f, q, n = C.check_store_contract(e2.fns, e2.ctx, e2.get_solver(), kind)
                findings += f
                npaths += n
                e2.functions.append("<%s as CredentialStore>::find_credentials::{closure#0} and its closures" % ("Option<Passkey>" if kind == "option" else "MemoryStore"))
        if "store_writes" in todo:
            for kind in ("option", "memory"):
                f, n = C.check_store_writes(e2.fns, kind)
                findings += [x for x in f if x.prop == pid]
                npaths += n
                e2.functions.append("<%s as CredentialStore>::{update_credential, save_credential}::{closure#0}" % ("Option<Passkey>" if kind == "option" else "MemoryStore"))
        if "requiredness" in todo:
            tf = e2.mir_of("passkey-types")
            f, n = C.check_member_requiredness(tf)
            findings += f
            npaths += n
            e2.functions.append("the serde_workaround!-generated visit_map bodies (end-of-map resolution of every member)")
            srcs = {}
            for rel in ("passkey-types/src/ctap2/get_assertion.rs", "passkey-types/src/ctap2/make_credential.rs", "passkey-types/src/ctap2/get_info.rs",
                        "passkey-types/src/ctap2/extensions/hmac_secret.rs"):
                fp = os.path.join(e2.ws.ws, rel)
                if os.path.exists(fp):
                    srcs[rel] = open(fp).read()
            f, n = C.check_member_order(srcs)
            findings += f
            npaths += n
        if "base64" in todo:
            tf = e2.mir_of("passkey-types")
            f, n = C.check_base64_wrappers(tf)
            findings += f
            npaths += n
            e2.functions.append("passkey_types::encoding::{base64, base64url, try_from_base64, try_from_base64url} (MIR)")
        if "fixed_slices" in todo:
            e2.dump_mir()
            f, n, nq = C.check_fixed_size_slices(e2.fns, e2.get_solver())
            findings += f
            npaths += n
            e2.functions.append("public_key_der_from_cose_key, private_key_from_cose_key (MIR, loop bound 4 visits)")
        if "setters" in todo:
            tf = e2.mir_of("passkey-types")
            src = open(os.path.join(e2.ws.ws, "passkey-types/src/ctap2/attestation_fmt.rs")).read()
            f, n = C.check_authdata_setters(tf, src)
            findings += f
            npaths += n
            e2.functions.append("AuthenticatorData::{set_attested_credential_data, set_make_credential_extensions, set_assertion_extensions} (MIR)")
        if "rp_id" in todo:
            cf = e2.mir_of("passkey-client", features=["android-asset-validation"])
            for fnname in ("assert_valid_rp_id", "assert_android_rp_id"):
                f, n = C.check_provider_argument(cf, fnname)
                findings += f
                npaths += n
                e2.functions.append("RpIdVerifier::%s (MIR, with its closures)" % fnname)
            f, n = C.check_validated_is_returned(cf)
            findings += f
            npaths += n
            e2.functions.append("RpIdVerifier::{assert_web_rp_id, assert_android_rp_id, assert_valid_rp_id}: the validated name is the returned name (MIR)")
            e2.get_solver()
        if "dup_keys" in todo:
            tf = e2.mir_of("passkey-types")
            f, n = C.check_duplicate_detection(tf)
            findings += f
            npaths += n
            e2.functions.append("serde_workaround!-generated visit_map of every CTAP2 message + set_if_none (MIR)")
            e2.get_solver()
        if "from_slice" in todo:
            tf = e2.mir_of("passkey-types")
            cands = [n for n in tf if "attestation_fmt::<impl" in n and n.endswith(">::from_slice")]
            if len(cands) != 1:
                raise C.Shape("cannot identify AuthenticatorData::from_slice in the MIR (%d candidates)" % len(cands))
            ex = Executor(tf[cands[0]], follow_yields=False)
            ps = ex.run()
            e2.functions.append(cands[0])
            npaths += len(ps)
            f, q = C.check_from_slice(ps, e2.get_solver(), want)
            findings += f
        if "u2f" in todo:
            allp = []
            for m in ("register", "authenticate"):
                cands = [n for n in e2.fns if n.startswith("u2f::<impl") and n.endswith("::%s::{closure#0}" % m)]
                if len(cands) != 1:
                    raise C.Shape("cannot identify U2fApi::%s in the MIR" % m)
                ps = e2.feasible(Executor(e2.fns[cands[0]]).run())
                e2.functions.append(cands[0])
                npaths += len(ps)
                allp.append(ps)
            findings += C.check_u2f(allp[0], allp[1])
        for kind in ("register", "authenticate"):
            if "client_" + kind in todo:
                cf = e2.mir_of("passkey-client")
                f, n_ok, n_all, name = C.check_client(cf, e2.ctx, kind)
                findings += [x for x in f if x.prop == pid]
                npaths += n_all
                e2.functions.append("passkey-client " + name)
                f, n = C.check_origin_rendering(cf)
                findings += [x for x in f if x.prop == pid]
                npaths += n
        if "secrecy" in todo:
            nn = 0
            ps = e2.feasible(e2.run_paths("ga", "authenticator::get_assertion", "get_assertion::{closure#0}"))
            f, n = C.check_secrecy_get_assertion(ps, e2.ctx); findings += f; nn += n
            ps = e2.feasible(e2.run_paths("mc", "authenticator::make_credential", "make_credential::{closure#0}"))
            e2.ctx.cur = "mc"
            f, n = C.check_secrecy_make_credential(ps, e2.ctx, "mc"); findings += f; nn += n
            for m in ("register", "authenticate"):
                cands = [n_ for n_ in e2.fns if n_.startswith("u2f::<impl") and n_.endswith("::%s::{closure#0}" % m)]
                if len(cands) != 1:
                    raise C.Shape("cannot identify U2fApi::%s in the MIR" % m)
                ps = e2.feasible(Executor(e2.fns[cands[0]]).run())
                e2.functions.append(cands[0])
                if m == "register":
                    f, n = C.check_secrecy_make_credential(ps, e2.ctx, "u2f")
                else:
                    f, n = C.check_secrecy_u2f_authenticate(ps, e2.ctx)
                findings += f; nn += n
            f, n = C.check_secrecy_key_pair(e2.fns, e2.ctx); findings += f; nn += n
            e2.functions.append("CoseKeyPair::from_secret_key (MIR)")
            f, n = C.check_secrecy_extensions(e2.fns, e2.ctx); findings += f; nn += n
            e2.functions.append("calculate_hmac_secret, make_prf, get_prf, get_extensions, make_extensions and their closures (MIR)")
            tf = e2.mir_of("passkey-types")
            f, n = C.check_secrecy_debug(tf, e2.ctx); findings += f; nn += n
            e2.functions.append("<Passkey as Debug>::fmt, <PublicKeyCredentialDescriptor as From<Passkey / &Passkey>>::from (MIR)")
            npaths += nn
            # the native scan runs on every pass as well: the scanner must find a planted secret, and nothing real
            o = e2.run_scenario({"op": "leak_scan"}, "dev")
            if o is None or o.get("crash") or not isinstance(o.get("result"), dict) or o["result"].get("scanner_selftest") is not True:
                out.inconclusive.append("E2 C06: the native leak scan did not run (%s)" % (json.dumps(o)[:200] if o else e2.replay_build_err))
            else:
                out.extra["leak_scan"] = {"renderings": o["result"]["renderings"], "secrets": o["result"]["secrets"], "leaks": o["result"]["leaks"]}
                for l in o["result"]["leaks"]:
                    if not any(x.role.startswith("scan.") and l in x.text for x in findings):
                        findings.append(C.Finding("C06", "scan." + re.sub(r"[^A-Za-z0-9_.=-]+", "-", l), "native scan: " + l, {"op": "leak_scan"},
                                                  lambda o, l=l: l in o["result"]["leaks"], None))
        if "concurrency" in todo:
            ps = e2.feasible(e2.run_paths("ga", "authenticator::get_assertion", "get_assertion::{closure#0}"))
            npaths += len(ps)
            ft = e2.mir_of("passkey-authenticator+tokio", crate_name="passkey-authenticator", features=["tokio"])
            f, q, note = C.check_concurrent_counters(ps, ft, e2.ctx, e2.get_solver())
            findings += f
            e2.functions.append("<Arc<tokio::sync::Mutex<S>> / Arc<tokio::sync::RwLock<S>> as CredentialStore>::{find_credentials, update_credential} (MIR)")
            if note:
                out.extra["e2_note"] = note
            # "every successful registration's credential is present afterwards": a registration is one save_credential call (one atomic
            # step through the wrappers); it must not report success unless that call was made and accepted
            mps = e2.feasible(e2.run_paths("mc", "authenticator::make_credential", "make_credential::{closure#0}"))
            npaths += len(mps)
            f7, _ = C.check_make_credential(mps, e2.ctx, {"C07"})
            for x in f7:
                if x.role in ("mc.ok-without-accepted-save", "mc.ok-without-save", "mc.save-error-not-propagated"):
                    findings.append(C.Finding("C19", "registration." + x.role[3:], "shared store: " + x.text, x.scenario, x.predicate, x.path))
            e2.functions.append("Authenticator::make_credential::{closure#0} (success only after an accepted save_credential)")
        if "forwarding" in todo:
            for method in ("get_info", "make_credential", "get_assertion"):
                name = e2.find_fn("ctap2::<impl", "::%s::{closure#0}" % method)
                ex = Executor(e2.fns[name])
                ps = e2.feasible(ex.run())
                e2.functions.append(name)
                npaths += len(ps)
                findings += C.check_forwarding(ps, method, e2.ctx)
    except C.Shape as ex:
        out.inconclusive.append("E2: MIR shape not understood: %s" % ex)
        findings = []
        npaths = 0
    # ---- verdicts -------------------------------------------------------------------------------
    seen = set()
    for f in findings:
        if f.prop != pid or f.role in seen:
            continue
        seen.add(f.role)
        rep, obs = judge(e2, f)
        if rep is None and f.scenario is None:
            # structural finding (an argument / ordering fact of the MIR) with no native scenario
            out.inconclusive.append("E2 %s: %s - no native scenario to replay; reported as inconclusive, not as a violation" % (f.role, f.text))
            continue
        if not rep:
            out.inconclusive.append("E2 %s: %s - counterexample did not reproduce natively (%s)" %
                                    (f.role, f.text, json.dumps({k: v.get("result") for k, v in (obs or {}).items()})[:200]))
            continue
        path = write_replay(pid, f, obs)
        kf = match_known(known, pid, "e2", f.role)
        if kf:
            out.known_hits.append((kf, "e2", f.role, path))
        else:
            out.violations.append(("e2", f.role, path, f.text))
    if e2.validation_mismatches:
        out.inconclusive.append("E2 trace validation: %d scenario(s) behave differently in the real code than the executor predicted, e.g. %s" %
                                (len(e2.validation_mismatches), json.dumps(e2.validation_mismatches[0])[:400]))
    s = e2.solver
    out.evaluations += npaths
    out.nontrivial += npaths
    q = s.queries if s else 0
    out.obligations += q + len(seen)
    out.discharged += q
    out.solver_time += (s.time if s else 0)
    out.samples += e2.samples[:4]
    out.extra.update({
        "e2_functions_encoded": list(e2.functions),
        "e2_paths_enumerated": npaths,
        "e2_solver_queries": q,
        "e2_solver_time_s": round(s.time, 3) if s else 0,
        "e2_mir_dump_s": round(e2.mir_time, 1),
        "e2_path_execution_s": round(e2.exec_time, 2),
        "traces_validated_against_impl": e2.validated,
        "e2_bounds": "loop-free path enumeration of the coroutine bodies; cleanup/unwind edges cut; each suspension point taken at most "
                     "once per path; callee bodies are environment events with unconstrained results; u32 arithmetic as 32-bit bit-vectors",
        "e2_checker_cmd": getattr(e2, "mir_cmd", ""),
    })


def do_replay(rp, path):
    """./check --replay <e2 replay file>: rebuild the runner against /repo's tree and re-run the scenario"""
    from .workspace import Workspace
    ws = Workspace("replay")
    try:
        ws.populate()
        log_dir = os.path.join(ws.root, "logs")
        os.makedirs(log_dir, exist_ok=True)
        e2 = E2(ws, log_dir)
        rc = 0
        for profile in ("dev", "release"):
            for sc in (rp["scenario"]["pair"] if isinstance(rp["scenario"], dict) and "pair" in rp["scenario"] else [rp["scenario"]]):
                o = e2.run_scenario(sc, profile)
                print("replay profile=%s -> %s" % (profile, json.dumps(o)[:600]))
        print("(compare with the recorded observation in %s)" % path)
        obs = rp.get("observed") or {}
        scs = rp["scenario"]["pair"] if isinstance(rp["scenario"], dict) and "pair" in rp["scenario"] else [rp["scenario"]]
        def res(pr):
            r = [e2.run_scenario(sc, pr)["result"] for sc in scs]
            return r if len(r) > 1 else r[0]
        same = any(json.dumps(res(pr)) == json.dumps(obs.get(pr, {}).get("result")) for pr in ("dev", "release"))
        if same:
            print("VIOLATION property=%s replay=%s" % (rp["property"], path))
            return 1
        return 0
    finally:
        ws.cleanup()
