"""Scratch workspace: a copy of /repo's *current working tree* with the Kani harness modules
spliced in.  Nothing in /repo is touched.  Regenerated on every run."""
import os, re, shutil, subprocess, tempfile, hashlib, json

REPO = os.environ.get("VERIF_REPO", "/repo")
VERIF = os.path.dirname(os.path.dirname(os.path.abspath(__file__)))
SCRATCH_ROOT = os.environ.get("VERIF_SCRATCH", "/var/tmp")

CRATES = ["passkey", "passkey-authenticator", "passkey-client", "passkey-transports",
          "passkey-types", "public-suffix"]


def sh(cmd, **kw):
    return subprocess.run(cmd, shell=isinstance(cmd, str), check=True, **kw)


def tree_digest(root):
    """sha256 over the .rs/.toml/.lock/.dat files of the copied tree (recorded in evidence)."""
    h = hashlib.sha256()
    for d, dirs, files in os.walk(root):
        dirs[:] = sorted(x for x in dirs if x not in ("target", ".git"))
        for f in sorted(files):
            if f.endswith((".rs", ".toml", ".lock", ".dat")):
                p = os.path.join(d, f)
                h.update(os.path.relpath(p, root).encode())
                with open(p, "rb") as fh:
                    h.update(fh.read())
    return h.hexdigest()[:16]


class Workspace:
    def __init__(self, tag, keep=False, reuse=None):
        self.keep = keep or bool(reuse)
        if reuse:
            self.root = reuse
            os.makedirs(self.root, exist_ok=True)
        else:
            self.root = tempfile.mkdtemp(prefix="verif-%s-" % tag, dir=SCRATCH_ROOT)
        self.ws = os.path.join(self.root, "ws")
        self.splices = []
        self.substitutions = []

    # -- copy -------------------------------------------------------------------------------
    def populate(self):
        os.makedirs(self.ws, exist_ok=True)
        sh(["rsync", "-a", "--delete", "--exclude", "/target", "--exclude", ".git",
            "--exclude", "/verif_ext/target", REPO + "/", self.ws + "/"])
        self.digest = tree_digest(self.ws)
        self._strip_lints()
        return self

    def _strip_lints(self):
        # build configuration only: the workspace forbids unused_must_use / denies
        # unused-qualifications, which harness code (and Kani's expansion) would trip.
        for c in CRATES:
            p = os.path.join(self.ws, c, "Cargo.toml")
            if not os.path.exists(p):
                continue
            s = open(p).read()
            s2 = re.sub(r"\n\[lints\]\nworkspace = true\n", "\n", s)
            if s2 != s:
                open(p, "w").write(s2)

    # -- splicing ---------------------------------------------------------------------------
    def splice_all(self):
        """Append every /verif/harness/splice/<crate>/<path> to <crate>/src/<path> in the copy."""
        base = os.path.join(VERIF, "harness", "splice")
        missing = []
        for d, _, files in os.walk(base):
            for f in sorted(files):
                src = os.path.join(d, f)
                rel = os.path.relpath(src, base)
                crate, path = rel.split(os.sep, 1)
                if path.startswith("_new/"):
                    # whole new source file (model types etc.), copied, not appended
                    dst = os.path.join(self.ws, crate, "src", path[len("_new/"):])
                    os.makedirs(os.path.dirname(dst), exist_ok=True)
                    shutil.copy(src, dst)
                    self.splices.append(rel)
                    continue
                dst = os.path.join(self.ws, crate, "src", path)
                if not os.path.exists(dst):
                    missing.append(rel)
                    continue
                with open(dst, "a") as out:
                    out.write("\n// ---- spliced by /verif (cfg(kani) only) ----\n")
                    out.write(open(src).read())
                self.splices.append(rel)
        return missing

    def substitute(self, relpath, old, new, count=1):
        """Textual substitution in the scratch copy; returns False if `old` is not found."""
        p = os.path.join(self.ws, relpath)
        s = open(p).read()
        if old not in s:
            return False
        s = s.replace(old, new, count)
        open(p, "w").write(s)
        self.substitutions.append({"file": relpath, "old": old, "new": new})
        return True

    def add_cfg_kani_check_cfg(self):
        pass

    def cleanup(self):
        if not self.keep:
            shutil.rmtree(self.root, ignore_errors=True)
