"""E1: run Kani/CBMC harnesses in the scratch workspace and parse the per-harness results."""
import os, re, subprocess, time, shutil, signal, json

KANI_ENV = {"CARGO_NET_OFFLINE": "true"}


class HarnessResult:
    def __init__(self, name):
        self.name = name
        self.status = "missing"      # pass | fail | inconclusive | missing
        self.reason = ""
        self.checks_total = 0
        self.checks_failed = 0
        self.failed = []             # [{id, description, location, function}]
        self.covers = []             # [{id, status, description, location}]
        self.undetermined = 0
        self.unwinding_failed = False
        self.verification = None     # SUCCESSFUL | FAILED
        self.time_s = None
        self.unwind = None

    @property
    def covers_satisfied(self):
        return sum(1 for c in self.covers if c["status"] == "SATISFIED")

    def to_json(self):
        return {
            "harness": self.name, "status": self.status, "reason": self.reason,
            "checks": self.checks_total, "failed_checks": self.checks_failed,
            "covers": len(self.covers), "covers_satisfied": self.covers_satisfied,
            "solver_time_s": self.time_s,
            "failed": self.failed[:8],
        }


CHECK_RE = re.compile(
    r"^Check (\d+): (.+)\n\t - Status: (\w+)\n\t - Description: \"(.*)\"\n\t - Location: (.*)$",
    re.M)


def parse_harness_output(name, text):
    r = HarnessResult(name)
    for m in CHECK_RE.finditer(text):
        _, cid, status, desc, loc = m.groups()
        fn = ""
        mm = re.search(r" in function (.*)$", loc)
        if mm:
            fn = mm.group(1)
        entry = {"id": cid, "status": status, "description": desc,
                 "location": re.sub(r"^(\.\./)+", "/", loc.split(" in function ")[0]),
                 "function": fn}
        if ".cover." in cid:
            r.covers.append(entry)
            continue
        r.checks_total += 1
        if status == "FAILURE":
            r.checks_failed += 1
            if "unwinding assertion" in desc or cid.endswith(".unwind") or ".unwind." in cid \
                    or "recursion unwinding assertion" in desc:
                r.unwinding_failed = True
                entry["unwinding"] = True
            r.failed.append(entry)
        elif status == "UNDETERMINED":
            r.undetermined += 1
    m = re.search(r"^VERIFICATION:- (\w+)", text, re.M)
    if m:
        r.verification = m.group(1)
    m = re.search(r"^Verification Time: ([0-9.]+)s", text, re.M)
    if m:
        r.time_s = float(m.group(1))
    if "CBMC failed" in text or "Status: ERROR" in text or re.search(r"out of memory|std::bad_alloc", text, re.I):
        r.status, r.reason = "inconclusive", "solver error / out of memory"
    elif r.verification is None:
        if re.search(r"timed out|timeout", text, re.I):
            r.status, r.reason = "inconclusive", "harness timeout"
        else:
            r.status, r.reason = "inconclusive", "no verdict in output"
    elif r.verification == "SUCCESSFUL":
        r.status = "pass"
    else:
        r.status = "fail"
    return r


def run_kani(ws, crate, harnesses, *, jobs=8, harness_timeout=300, features=None,
             total_timeout=None, log_dir=None, tag="run", mem_gb=14, extra=None):
    """One `cargo kani` invocation for `harnesses` (full paths like verif_proofs::x) of `crate`.
    Returns (dict name->HarnessResult, meta)."""
    out_dir = os.path.join(ws.ws, "result_output_dir")
    shutil.rmtree(out_dir, ignore_errors=True)
    cmd = ["cargo", "kani", "-p", crate, "--exact", "-Z", "stubbing", "-Z", "unstable-options",
           "-j", str(jobs), "--output-format", "terse", "--output-into-files",
           "--harness-timeout", "%ds" % harness_timeout]
    if features:
        cmd += ["--features", ",".join(features)]
    if extra:
        cmd += extra
    for h in harnesses:
        cmd += ["--harness", h]
    env = dict(os.environ)
    env.update(KANI_ENV)
    env.pop("RUSTUP_TOOLCHAIN", None)
    t0 = time.time()
    log_path = os.path.join(log_dir or ws.root, "kani-%s.log" % tag)
    if total_timeout is None:
        # build (~90 s) + the harnesses in ceil(n/jobs) waves
        waves = (len(harnesses) + jobs - 1) // jobs
        total_timeout = 600 + waves * (harness_timeout + 30)
    env["PATH"] = os.path.join(os.path.dirname(os.path.dirname(os.path.abspath(__file__))), "tools", "bin") + ":" + env["PATH"]
    env["VERIF_CBMC_MEM_KB"] = str(mem_gb * 1024 * 1024)
    shell = "exec %s" % (" ".join("'%s'" % c for c in cmd))
    with open(log_path, "w") as lf:
        p = subprocess.Popen(["bash", "-c", shell], cwd=ws.ws, env=env, stdout=lf,
                             stderr=subprocess.STDOUT, start_new_session=True)
        try:
            rc = p.wait(timeout=total_timeout)
            timed_out = False
        except subprocess.TimeoutExpired:
            os.killpg(p.pid, signal.SIGKILL)
            p.wait()
            rc, timed_out = -9, True
    wall = time.time() - t0
    log = open(log_path, errors="replace").read()
    results = {}
    build_failed = bool(re.search(r"^error(\[E\d+\])?:", log, re.M)) and \
        "Checking harness" not in log and not os.path.isdir(out_dir)
    for h in harnesses:
        f = os.path.join(out_dir, h)
        if os.path.exists(f):
            text = open(f, errors="replace").read()
            r = parse_harness_output(h, text)
            if log_dir:
                shutil.copy(f, os.path.join(log_dir, "%s.%s.out" % (tag, h.replace("::", "."))))
        else:
            r = HarnessResult(h)
            if build_failed:
                r.status, r.reason = "inconclusive", "build failed"
            elif timed_out:
                r.status, r.reason = "inconclusive", "overall timeout"
            else:
                r.status, r.reason = "inconclusive", "no output file (harness not found or timed out)"
        results[h] = r
    # harness-level timeouts are reported in the main log
    for m in re.finditer(r"Thread \d+: Checking harness (\S+?)\.\.\.", log):
        pass
    meta = {"cmd": " ".join(cmd), "rc": rc, "wall_s": round(wall, 1), "timed_out": timed_out,
            "build_failed": build_failed, "log": log_path}
    if build_failed:
        errs = re.findall(r"^error.*(?:\n.*){0,6}", log, re.M)[:3]
        meta["build_errors"] = errs
    return results, meta


def concrete_playback(ws, crate, harness, *, features=None, timeout=600, log_dir=None):
    """Re-run one failing harness with concrete playback; returns the generated unit test source
    (text printed by Kani) or None."""
    cmd = ["cargo", "kani", "-p", crate, "--exact", "--harness", harness, "-Z", "stubbing",
           "-Z", "concrete-playback", "--concrete-playback=print", "--output-format", "terse"]
    if features:
        cmd += ["--features", ",".join(features)]
    env = dict(os.environ)
    env.update(KANI_ENV)
    env.pop("RUSTUP_TOOLCHAIN", None)
    try:
        p = subprocess.run(cmd, cwd=ws.ws, env=env, stdout=subprocess.PIPE, stderr=subprocess.STDOUT,
                           timeout=timeout, text=True, errors="replace")
    except subprocess.TimeoutExpired:
        return None, "timeout"
    out = p.stdout
    if log_dir:
        open(os.path.join(log_dir, "playback.%s.log" % harness.replace("::", ".")), "w").write(out)
    tests = re.findall(r"```\n(.*?)```", out, re.S)
    tests = [t for t in tests if "kani_concrete_playback" in t]
    return tests, out
