"""Registry: which harnesses decide which property, at which tier, with which bounds.

H(name, ...) fields
  crate     cargo package the harness is spliced into
  tier      "quick" (run in both tiers) or "thorough" (thorough only)
  twin      True: reachability twin, must FAIL on its final assert!(false)
  bounds    human-readable bound of this instance (goes to the evidence)
  timeout   per-harness CBMC time cap in seconds for (quick, thorough)
  features  cargo features needed
"""


class H:
    def __init__(self, name, crate, tier="quick", twin=False, bounds="", timeout=(300, 3600),
                 features=(), module=None, expect_fail=False):
        self.name = name
        self.crate = crate
        self.tier = tier
        self.twin = twin
        self.bounds = bounds
        self.timeout = timeout
        self.features = tuple(features)
        self.module = module or DEFAULT_MODULE.get(crate, "verif_proofs")

    @property
    def path(self):
        return "%s::%s" % (self.module, self.name)


T = "passkey-types"
A = "passkey-authenticator"
CL = "passkey-client"
TR = "passkey-transports"
PS = "public-suffix"

from . import mirsym_engine as _e2

PROPS = {}
DEFAULT_MODULE = {"passkey-transports": "hid::verif_proofs"}


def subst_hashmap(ws):
    """std HashMap -> association-list model under cfg(kani) in the scratch copy of hid.rs (F4)."""
    ok = ws.substitute("passkey-transports/src/hid.rs", "use std::collections::HashMap;",
                       "#[cfg(not(kani))]\nuse std::collections::HashMap;\n#[cfg(kani)]\nuse crate::verif_model::HashMap;")
    if not ok:
        return "hid.rs no longer imports std::collections::HashMap by the expected line: channel-table harnesses cannot be built"
    return None


def subst_psl_strings(ws):
    """public-suffix/src/lib.rs: the three `rfind('.')` calls and the two empty-label tests -> byte-loop models (cfg(kani)) / the same std calls
    (natively), defined in the spliced verif_str module (F10)."""
    f = "public-suffix/src/lib.rs"
    sites = [("s.rfind('.')", "crate::verif_str::rfind_dot(s)", 1), ("domain.rfind('.')", "crate::verif_str::rfind_dot(domain)", 1),
             ("domain[..i].rfind('.')", "crate::verif_str::rfind_dot(&domain[..i])", 1),
             ("domain.starts_with('.') || domain.ends_with('.') || domain.contains(\"..\")", "crate::verif_str::has_empty_label(domain)", 2)]
    src = open(__import__("os").path.join(ws.ws, f)).read()
    for old, new, cnt in sites:
        # only the code before the spliced module is rewritten
        head = src.split("#[cfg(kani)]")[0]
        if head.count(old) != cnt:
            return "public-suffix/src/lib.rs: expected %d occurrence(s) of `%s`, found %d - the string-scanning call sites changed, the lookup harnesses cannot be built" % (cnt, old, head.count(old))
    for old, new, cnt in sites:
        head, sep, tail = src.partition("#[cfg(kani)]")
        src = head.replace(old, new) + sep + tail
        ws.substitutions.append({"file": f, "old": old, "new": new})
    open(__import__("os").path.join(ws.ws, f), "w").write(src)
    return None


def prop(pid, **kw):
    PROPS[pid] = kw


prop("C13",
     title="CTAP2 integer keys, CBOR round trip, status bytes",
     harnesses=[
         H("c13_status_roundtrip", T, bounds="all 256 status bytes"),
         H("c13_status_roundtrip_twin", T, twin=True, bounds="all 256 status bytes"),
         H("c13_status_known_values", T, bounds="all 256 bytes x both enum tables"),
         H("c13_options_default", T, bounds="no input"),
     ],
     functions=["passkey_types::ctap2::StatusCode::from(u8)", "u8::from(StatusCode)",
                "Ctap2Code::try_from(u8)", "Ctap2Error/U2FError/ExtensionError/VendorError/UnknownSpecError::try_from(u8)",
                "make_credential::Options::default"],
     stubs=[],
     explanation="Kani/CBMC decides, on the compiled real code, the status-byte clauses of C13 for every one of the "
                 "256 byte values (no unwinding needed: loop-free).",
     outside=["byte-level CBOR (ciborium) in both directions", "duplicate/unknown-key handling on decode"],
     )

prop("C15",
     title="Decoders of untrusted input never crash or allocate out of proportion",
     prepare=[subst_hashmap],
     harnesses=[
         H("c15_u2f_request_no_panic", T, bounds="every byte string of length 0..=80, unwind 12"),
         H("c15_u2f_request_no_panic_twin", T, twin=True, bounds="same"),
         H("c15_hid_header_any_len", TR, bounds="one packet, every length 0..=70, all contents"),
         H("c15_hid_one_packet_any_len", TR, bounds="fresh handler, one packet of every length 0..=70, all contents"),
         H("c15_hid_one_packet_any_len_twin", TR, twin=True, bounds="same"),
         H("c15_hid_two_packets_any_len", TR, bounds="two packets, each of every length 0..=70, all contents, any channels"),
         H("c15_hid_three_packets_64", TR, bounds="three 64-byte packets, all contents"),
     ],
     functions=["passkey_types::u2f::Request::try_from(&[u8])", "RegisterRequest::try_from",
                "AuthenticationRequest::try_from", "AuthenticationParameter::from(u8)"],
     stubs=[],
     explanation="arbitrary symbolic buffers are fed to the real decoders; every panic, arithmetic overflow and "
                 "out-of-bounds access is a CBMC property check",
     outside=["CBOR and JSON decoders (ciborium / serde_json)", "inputs longer than the stated bounds"],
     )

import itertools


def _scheds(k):
    base = sum([[i, i] for i in range(k)], [])
    return sorted(set(itertools.permutations(base)))


def _c16_harnesses():
    hs = []
    for n in (0, 1, 56, 57, 58, 114, 115, 116, 117, 175):
        tier = "quick" if n in (0, 1, 56, 57, 58, 114, 115, 116) else "thorough"
        hs.append(H("c16_sender_len_%d" % n, TR, tier=tier, timeout=(400, 3600),
                    bounds="payload length exactly %d; all channel ids, all 9 commands, all payload bytes: bytes written by Message::send == reference wire image" % n))
    for n in (0, 1, 56, 57, 58, 115, 116, 117, 174, 175, 176, 234, 293):
        tier = "quick" if n in (0, 1, 56, 57, 58, 115, 116, 117, 175) else "thorough"
        hs.append(H("c16_handler_len_%d" % n, TR, tier=tier,
                    bounds="payload length exactly %d; channel id and command fixed, all payload bytes: reference wire image -> real ChannelHandler" % n))
    for n in (0, 1, 56, 57, 58, 115, 116):
        hs.append(H("c16_recv_len_%d" % n, TR,
                    bounds="payload length exactly %d; all channel ids, command fixed, all payload bytes; Message::init/extend without the channel table" % n))
    hs += [
        H("c16_handler_twin", TR, twin=True, bounds="payload length 58"),
        H("c16_sender_twin", TR, twin=True, bounds="payload length 58"),
        H("c16_header_parse_all", TR, bounds="all channel ids, all 9 commands, every declared length 0..=65535, all body bytes; all sequence numbers 0..=127"),
        H("c16_command_bytes", TR, bounds="all 9 commands, all 256 raw bytes"),
        H("c16_new_size_validation", TR, bounds="every payload length 0..=70000 (contents irrelevant to Message::new)"),
        H("c16_new_size_validation_twin", TR, twin=True, bounds="same"),
        H("c16_extend_inductive_step", TR, bounds="one extend step from every receiver state with sequence <= 127, 57+59*sequence < payload_len <= 7609; lengths, flags and sequence number (no content reads)"),
        H("c16_extend_step_content_seq0", TR, bounds="extend step at sequence 0, every payload_len 58..=7609, all 59 data bytes, content compared"),
        H("c16_extend_step_content_seq1", TR, bounds="extend step at sequence 1, every payload_len, content compared"),
        H("c16_extend_step_content_seq5", TR, tier="thorough", bounds="extend step at sequence 5, every payload_len, content compared"),
        H("c16_extend_rejects_wrong_seq_or_channel", TR, bounds="same states; every other (channel, seq) pair"),
        H("c16_stray_continuation_seq0", TR, bounds="continuation packet (seq 0, all data bytes) for an idle channel, before and while another channel's message is in progress"),
        H("c16_stray_continuation_seq1", TR, bounds="continuation packet (seq 1, all data bytes) for an idle channel while another channel's message is in progress"),
        H("c16_out_of_order_same_channel", TR, bounds="continuation with the wrong sequence number on the busy channel, all data bytes"),
    ]
    for sc in _scheds(2):
        hs.append(H("c16_interleave2_" + "".join(map(str, sc)), TR,
                    timeout=(400, 3600), bounds="2 channels (fixed distinct ids), 60-byte 2-packet messages with all payload bytes, schedule %s" % (sc,)))
    for sc in _scheds(2):
        hs.append(H("c16_interleave2init_" + "".join(map(str, sc)), TR,
                    timeout=(400, 3600), bounds="as above with channel 1 sending CTAPHID_INIT (command 0x06), schedule %s" % (sc,)))
    for sc in _scheds(3):
        hs.append(H("c16_interleave3_" + "".join(map(str, sc)), TR, tier="thorough",
                    bounds="3 channels, 2-packet messages with all payload bytes, schedule %s" % (sc,)))
    return hs


prop("C16",
     title="CTAPHID fragmentation and reassembly preserve every message, per channel",
     prepare=[subst_hashmap],
     harnesses=_c16_harnesses(),
     functions=["passkey_transports::hid::Message::{new,send,to_packets,init,extend,is_complete}",
                "PacketHeader::{encode,try_from,len}", "InitHeader::{try_from,encode}", "ContHeader::{from,encode}",
                "ChannelHandler::handle_packet", "Command::{encode,try_from}"],
     stubs=["std::collections::HashMap<u32, Message> -> 4-slot association list model (passkey-transports/src/verif_model.rs, cfg(kani) only)"],
     explanation="sender -> 64-byte wire image -> receiver on the real code, one harness per concrete payload length around "
                 "every packet boundary, with all other inputs symbolic; long messages by one inductive extend step; channel "
                 "table with the interleaving as a symbolic schedule",
     outside=["payload lengths other than the listed instances are covered end-to-end only by the inductive step + the size validation",
              "the real std HashMap is trusted to behave as a map", "four concurrently transmitting channels"],
     )

_FLAGS16 = ["%02x" % (a | b | c | d) for a in (0, 1) for b in (0, 4) for c in (0, 8) for d in (0, 0x10)]
prop("C12",
     title="Authenticator data binary encoding follows the WebAuthn layout and round-trips",
     harnesses=[
         H("c12_to_vec_layout", T, bounds="all 2^32 counters and None, all 16 combinations of UP/UV/BE/BS, all rp-id hashes (SHA-256 stubbed to an arbitrary value)"),
         H("c12_to_vec_layout_twin", T, twin=True, bounds="same"),
         H("c12_setters_set_section_flags", T, bounds="all 16 extra flag combinations; empty credential id and default COSE key"),
         H("c12_section_bits_follow_sections", T, bounds="all 64 combinations of the six defined flags given to set_flags, every counter, no section attached"),
     ] + [H("c12_from_slice_flags_%s" % f, T, bounds="37-byte input, flag byte 0x%s, all hashes and counters" % f) for f in sorted(set(_FLAGS16))] + [
         H("c12_from_slice_twin", T, twin=True, bounds="flag byte 0x1d"),
         H("c12_from_slice_at_truncated_0", T, bounds="flag byte 0x41 (AT), 0 bytes after the header"),
         H("c12_from_slice_at_truncated_1", T, bounds="flag byte 0x41, 1 byte after the header, all contents"),
         H("c12_from_slice_at_truncated_16", T, bounds="flag byte 0x41, 16 bytes after the header (aaguid only)"),
         H("c12_from_slice_at_truncated_17", T, bounds="flag byte 0x41, 17 bytes after the header (id length cut)"),
         H("c12_from_slice_ed_missing", T, bounds="flag byte 0x81 (ED), nothing after the header; all header bytes"),
         H("c12_flags_reserved_bits", T, bounds="all 256 flag bytes"),
         H("c12_attested_credential_id_length_guard", T, bounds="every credential id length 0..=70000"),
     ],
     functions=["AuthenticatorData::{new,to_vec,from_slice,set_flags,set_attested_credential_data,set_make_credential_extensions,set_assertion_extensions,rp_id_hash}",
                "AttestedCredentialData::new", "Flags::{from_bits,bits,try_from}"],
     stubs=["passkey_types::crypto::sha256 -> arbitrary 32 bytes (kani::any)"],
     explanation="header layout of to_vec and from_slice for all hashes/counters/flag combinations without sections; the two "
                 "directions are composed through the shared 37-byte layout (to_vec's output bytes are asserted, from_slice is "
                 "run on an array with exactly that layout); reserved bits, short inputs, id-length guard",
     outside=["the attested-credential-data and extension sections (COSE key / CBOR via ciborium+coset on symbolic bytes, F6)",
              "truncation or corruption inside those sections", "from_slice with a symbolic flag byte (made concrete per instance)"],
     )

prop("C17",
     title="U2F registration and authentication messages are well-formed and verifiable",
     harnesses=[
         H("c17_register_response_encode_0_0", T, bounds="all public keys, empty key handle, 4-byte certificate, empty signature"),
         H("c17_register_response_encode_8_8", T, bounds="all public keys, 8-byte key handle, 4-byte certificate, 8-byte signature, all contents"),
         H("c17_register_response_encode_32_72", T, tier="thorough", bounds="32-byte key handle, 72-byte signature, all contents"),
         H("c17_authentication_response_encode_0", T, bounds="all presence flags, all counters, empty signature"),
         H("c17_authentication_response_encode_8", T, bounds="all presence flags, all counters, 8-byte signature, all contents"),
         H("c17_authentication_response_encode_72", T, tier="thorough", bounds="72-byte signature"),
         H("c17_version_encode_and_status_words", T, bounds="no input"),
         H("c17_parse_register_frame", T, bounds="all challenges and applications, with and without Le"),
         H("c17_parse_authenticate_frame", T, bounds="control byte in {3,7,8}, key handle 0..=8 bytes, all contents, with and without Le"),
         H("c17_parse_version_frame", T, bounds="with and without Le; all 256 command bytes"),
         H("c17_parse_twin", T, twin=True, bounds="any 82-byte frame that parses"),
     ],
     functions=["u2f::RegisterResponse::encode", "u2f::PublicKey::encode", "u2f::AuthenticationResponse::encode", "u2f::Version::encode",
                "u2f::Request::try_from", "u2f::Command::from / into u8", "ResponseStatusWords -> u16"],
     stubs=[],
     explanation="byte-exact layout of the three response encoders and the request parser for symbolic field contents",
     outside=["every signature clause (P-256)", "U2fApi::register / authenticate (async + crypto)", "key handles longer than 8 bytes"],
     )

AM = "authenticator::verif_proofs"
prop("C04",
     title="No credential is created or used without user consent; flags are truthful",
     harnesses=[
         H("c04_check_user_truth_table", A, module=AM, bounds="all (rk, up, uv) x verification capability {None, Some(false), Some(true)} x validation outcome {4 presence/verification results, every defined CTAP2 error}"),
         H("c04_check_user_twin", A, module=AM, twin=True, bounds="same"),
     ],
     functions=["Authenticator::check_user (private async fn, driven by a single-poll executor)"],
     stubs=["UserValidationMethod -> harness double with symbolic capability/outcome and a call log", "CredentialStore -> Option<Passkey> (unused by check_user)"],
     explanation="complete truth table of the consent step as symbolic booleans/enums on the real check_user",
     outside=["ordering of the consent step inside make_credential / get_assertion (E2, not built yet)",
              "client-level mapping of userVerification to uv"],
     )

prop("C02",
     title="Registration returns a credential that a standard relying party can verify",
     harnesses=[
         H("c02_choose_algorithm_first_supported", A, module=AM, bounds="preference lists of length 0..=4 over 6 algorithms; supported set [ES256] (shipped), [ES256,EdDSA], [EdDSA,ES256]"),
         H("c02_credential_id_length_clamp", A, module=AM, bounds="all 256 requested lengths"),
         H("c02_credential_id_length_twin", A, module=AM, twin=True, bounds="all 256"),
     ],
     functions=["Authenticator::choose_algorithm", "CredentialIdLength::from(u8)", "usize::from(CredentialIdLength)", "CredentialIdLength::default"],
     stubs=["UserValidationMethod / CredentialStore doubles (unused)"],
     explanation="two anchored kernels of C02 only: algorithm choice = first supported entry of the preference list; credential-id length clamped to 16..=64",
     outside=["everything involving P-256 points, DER/COSE equality, SHA-256 of the RP ID, client data JSON, attestation object bytes, store contents after success (crypto and CBOR out of reach, F5-F7)"],
     level_text="PARTIAL claim: only the algorithm-choice and credential-id-length kernels of C02 are decided; the registration result itself is outside the claim.",
     )

HM = "authenticator::extensions::hmac_secret::verif_proofs"
prop("C09",
     title="PRF results are the specified HMAC, per credential, and gated on verification",
     harnesses=[
         H("c09_calculate_hmac_secret_key_selection", A, module=HM, bounds="all 32-byte secrets and salts, one or two salts, uv on/off, second secret present/absent, both configurations"),
         H("c09_calculate_hmac_secret_twin", A, module=HM, twin=True, bounds="one instance"),
         H("c09_make_hmac_secret_storage", A, module=HM, bounds="configuration {none, UV-only, with non-UV} x on-make-credential flag x request {None, Some(false), Some(true)}"),
         H("c09_make_prf_enabled_and_gating", A, module=HM, bounds="all configurations x stored secrets present/absent x second secret x inputs present/absent x uv; all secrets and salts"),
         H("c09_get_prf_default_inputs", A, module=HM, bounds="all configurations x stored/absent x inputs present/absent x uv; default inputs only (eval), all secrets and salts"),
     ],
     functions=["calculate_hmac_secret", "Authenticator::{make_hmac_secret, make_prf, get_prf}", "select_salts (default-input path)", "HmacSecretSaltOrOutput::{new, first, second}"],
     stubs=["passkey_types::crypto::hmac_sha256 -> tagged function (output names key and message bytes/lengths); the oracle calls the same function, so the statement is 'HMAC keyed with the right secret over the right salt', HMAC itself trusted",
            "passkey_types::rand::random_vec -> vector of the requested length with a symbolic fill byte"],
     explanation="which secret keys the HMAC and over which message, when secrets are stored, what 'enabled' reports - for all configurations and flags",
     outside=["evalByCredential on both sides (std HashMap, F4)", "the identity of HMAC-SHA-256 itself", "client-side make_salt / request validation (planned)", "which uv value the ceremonies pass to the extension code (E2)"],
     )

CS = "credential_store::verif_proofs"
prop("C11",
     title="Discoverability follows request and store capability and is reported truthfully",
     harnesses=[
         H("c11_is_passkey_discoverable_table", A, module=CS, bounds="3 capabilities x rk"),
         H("c11_get_info_rk_option", A, module=CS, bounds="3 store capabilities x verification capability x presence capability"),
         H("c11_shipped_option_store_capability", A, module=CS, bounds="no input"),
     ],
     functions=["DiscoverabilitySupport::is_passkey_discoverable", "Authenticator::get_info", "<Option<Passkey> as CredentialStore>::get_info"],
     stubs=["CredentialStore / UserValidationMethod doubles with symbolic capability"],
     explanation="complete product of capability and request values as symbolic enums",
     outside=["Client::map_rk and credProps (planned in passkey-client harnesses)", "storage of the user handle in make_credential (E2)"],
     )


E2_TRUST = ["nightly rustc MIR pretty-printer (-Zunpretty=mir, overflow-checks on)", "/verif/mirsym parser + path executor (trace-validated against the real code on every run)", "z3 4.8.12"]

prop("C07",
     title="Failed or cancelled ceremonies leave the credential store consistent",
     engine="mirsym",
     engines=[_e2.engine], e2=["get_assertion", "make_credential"],
     functions=["Authenticator::make_credential::{closure#0} (coroutine body, MIR)", "Authenticator::get_assertion::{closure#0} (coroutine body, MIR)"],
     stubs=["every callee (store, user validation, extension processing, crypto, constructors) is an environment event with an unconstrained result"],
     explanation="for every assignment of request flags and of Ok/Err/Pending outcomes of every call in the two ceremony bodies: at most one "
                 "store-mutating call, of the right kind; Ok only after the store accepted it; the store's error is the returned error; nothing "
                 "fallible after save; update before extensions and signing; lookup errors only after consent",
     outside=["behaviour of concrete stores", "panics inside callees", "the U2F register path", "more than one Pending per suspension point"],
     technique="symbolic path execution of rustc MIR with z3 (own encoder), native replay of counterexamples",
     trusted=E2_TRUST,
     )

prop("C08",
     title="Signature counters strictly increase and equal what the store holds",
     engine="mirsym",
     engines=[_e2.engine], e2=["get_assertion", "make_credential"],
     functions=["Authenticator::get_assertion::{closure#0} (MIR)", "Authenticator::make_credential::{closure#0} (MIR)"],
     stubs=["every callee is an environment event"],
     explanation="for all 2^32 counter values (bit-vector query): the increment cannot overflow; the value written with update_credential and the value "
                 "reported in the authenticator data are the same term old+1; without a counter no update_credential call exists on any path; "
                 "registration stores Some(0) iff configured and reports that term",
     outside=["monotonicity over histories is one inductive step (arbitrary stored counter, one assertion)", "the byte encoding of the counter (C12)"],
     technique="symbolic path execution of rustc MIR + z3 bit-vector query on the counter arithmetic, native replay",
     trusted=E2_TRUST,
     )

prop("C18",
     title="The sealed CTAP2 API trait behaves exactly like the direct authenticator methods",
     engine="mirsym",
     engines=[_e2.engine], e2=["forwarding"],
     functions=["<Authenticator as Ctap2Api>::{get_info, make_credential, get_assertion}::{closure#0} (async blocks, MIR)"],
     stubs=["the direct methods are environment events"],
     explanation="each forwarding body makes exactly one call, to the inherent method of the same name (not to itself), with the receiver and request it "
                 "was given, and returns that call's awaited value unchanged; no other store / user-validation effect",
     outside=["the behaviour of the direct methods themselves (C02-C08)"],
     technique="symbolic path execution of rustc MIR (call-target and data-flow check of the three forwarding bodies), native replay of non-termination",
     trusted=E2_TRUST,
     )

CS = "credential_store::verif_proofs"
prop("C05",
     title="Credentials are used only for their own RP and as the allow/exclude lists say",
     engine="mirsym",
     engines=[_e2.engine], e2=["get_assertion", "make_credential", "stores"],
     functions=["Authenticator::get_assertion::{closure#0} (MIR)", "Authenticator::make_credential::{closure#0} (MIR)",
                "<Option<Passkey> as CredentialStore>::find_credentials and its closures (MIR)", "<MemoryStore as CredentialStore>::find_credentials and its closures (MIR)"],
     stubs=["every callee is an environment event"],
     explanation="shipped stores: the filter predicates of the lookups, extracted from the MIR of their closures as boolean functions of the "
                 "comparisons they make, must imply (z3) 'stored rp_id == requested rp_id' (and 'credential id is listed'); authenticator side: the lookup receives the request's rp_id and its allow list through the emptiness filter; the exclude lookup receives "
                 "rp.id and the exclude list; CredentialExcluded exactly when the lookup returned a non-empty Ok, with no store mutation",
     outside=["the shipped stores' own lookups: Option<Passkey>/MemoryStore clone and drop CoseKey (ciborium Value recursion) - CBMC does not finish (measured), "
              "and closures over iterator adaptors are beyond the MIR executor's models", "lock wrappers"],
     technique="symbolic path execution of rustc MIR (argument provenance of the store calls), native replay",
     trusted=E2_TRUST,
     )

for _p, _e in (("C04", ["get_assertion", "make_credential"]), ("C11", ["get_assertion", "make_credential"]), ("C09", ["get_assertion", "make_credential"])):
    PROPS[_p]["engines"] = [_e2.engine]
    PROPS[_p]["e2"] = _e
    PROPS[_p]["trusted"] = E2_TRUST
    PROPS[_p]["functions"] = PROPS[_p]["functions"] + ["E2: Authenticator::{make_credential,get_assertion}::{closure#0} (MIR)"]
    PROPS[_p]["technique"] = "Kani/CBMC bounded model checking (kernels) + symbolic path execution of rustc MIR with z3 (ceremony ordering / data flow)"
PROPS["C04"]["outside"] = ["client-level mapping of userVerification to uv", "more than one Pending per suspension point"]

PRF = "extensions::prf::verif_proofs"
PROPS["C13"]["harnesses"] += [
    H("c13_webauthn_error_from_status", CL, bounds="all 256 status bytes through StatusCode::from and WebauthnError::from"),
    H("c13_webauthn_error_twin", CL, twin=True, bounds="all 256"),
]
PROPS["C13"]["functions"] += ["passkey_client::WebauthnError::from(StatusCode)"]
PROPS["C11"]["harnesses"] += [
    H("c11_map_rk_table", CL, bounds="criteria absent/present x residentKey {absent, discouraged, preferred, required} x requireResidentKey x authenticator options {absent, rk=false, rk=true}"),
    H("c11_cred_props_output", CL, bounds="extensions absent / credProps {absent,false,true} x 3 store capabilities x rk"),
]
PROPS["C11"]["functions"] += ["Client::map_rk", "Client::registration_extension_outputs"]
PROPS["C11"]["outside"] = ["end-to-end agreement through Client::register (whole ceremony)"]
PROPS["C09"]["harnesses"] += [
    H("c09_client_make_salt_len_0", CL, module=PRF, bounds="empty input"),
    H("c09_client_make_salt_len_1", CL, module=PRF, bounds="1-byte input, all values"),
    H("c09_client_make_salt_len_8", CL, module=PRF, bounds="8-byte input, all values"),
    H("c09_client_prehashed_32_none", CL, module=PRF, bounds="one 32-byte pre-hashed value"),
    H("c09_client_prehashed_32_32", CL, module=PRF, bounds="two 32-byte pre-hashed values"),
    H("c09_client_prehashed_31_none", CL, module=PRF, bounds="31-byte first value"),
    H("c09_client_prehashed_33_none", CL, module=PRF, bounds="33-byte first value"),
    H("c09_client_prehashed_32_31", CL, module=PRF, bounds="valid first, 31-byte second value"),
    H("c09_client_prehashed_32_33", CL, module=PRF, bounds="valid first, 33-byte second value"),
    H("c09_client_prehashed_0_none", CL, module=PRF, bounds="empty first value"),
    H("c09_client_hashed_both_values", CL, module=PRF, bounds="3-byte first and optional 2-byte second input, all values"),
    H("c09_client_twin", CL, module=PRF, twin=True, bounds="one instance"),
]
PROPS["C09"]["functions"] += ["passkey_client::extensions::prf::{make_salt, convert_eval_to_ctap}"]
PROPS["C09"]["stubs"] += ["passkey_types::crypto::sha256 -> tagged function (length + first 31 message bytes) in the client harnesses"]
PROPS["C09"]["outside"] = ["evalByCredential on both sides (std HashMap, F4)", "the identity of HMAC-SHA-256 / SHA-256 themselves", "PRF inputs longer than 8 bytes (hashed) - the hash input is built by an iterator chain whose length is concrete per instance",
                           "request validation that involves evalByCredential maps"]

prop("C01",
     title="RP ID is bound to the origin at a label boundary and is a registrable domain",
     harnesses=[
         H("c01_web_free_4_3", CL, features=("android-asset-validation",), bounds="web origin: host <= 4 bytes (non-empty labels) or absent, RP ID <= 3 bytes or absent, alphabet {a,b,c,.}, https/http, localhost flag; custom provider with rules {c, b.c}"),
         H("c01_web_free_5_3", CL, features=("android-asset-validation",), bounds="host <= 5, RP ID <= 3"),
         H("c01_web_free_6_3", CL, features=("android-asset-validation",), timeout=(600, 3600), bounds="host <= 6, RP ID <= 3"),
         H("c01_web_free_6_4", CL, features=("android-asset-validation",), tier="thorough", bounds="host <= 6, RP ID <= 4"),
         H("c01_localhost_lookalike", CL, features=("android-asset-validation",), bounds="hosts '<x>localhost' and '<x>.localhost' for every letter x, insecure localhost enabled, https/http"),
         H("c01_web_twin", CL, features=("android-asset-validation",), twin=True, bounds="host <= 4"),
         H("c01_localhost_gate", CL, features=("android-asset-validation",), bounds="host 'localhost', RP ID absent or 'localhost', https/http, flag"),
         H("c01_is_valid_rp_id", CL, features=("android-asset-validation",), bounds="RP ID <= 5 bytes over {a,b,c,.}, flag"),
     ],
     functions=["RpIdVerifier::{assert_web_rp_id, assert_valid_rp_id, is_valid_rp_id, allows_insecure_localhost}"],
     stubs=["url::Url::domain / url::Url::scheme -> harness-controlled symbolic strings (the Url value is a placeholder whose bytes are never read; "
            "natively, in replays, a really parsed URL is used instead)",
            "passkey_client::decode_host -> identity model for names without an 'xn--' label (str::split/memchr under symbolic lengths does not finish in CBMC)",
            "EffectiveTLDProvider -> harness provider implementing the PSL algorithm over the rule set {c, b.c} (the property's 'custom suffix provider')"],
     explanation="accept <=> host present, RP ID absent or equal to the host or a label-aligned suffix of it, effective id registrable under the provider, https "
                 "(or the localhost exception) - asserted in both directions against an independent oracle for all short names over a 4-letter alphabet",
     outside=["URL parsing itself (ports, userinfo, IP literals beyond 'domain() is None')", "punycode / IDN handling inside decode_host",
              "the shipped suffix list as provider (C10)", "names longer than the stated bounds or outside the alphabet", "Client::register/authenticate passing the result on (whole ceremonies)",
              "Android origins (UnverifiedAssetLink needs nom-parsed fingerprints; planned)"],
     )

for _p in ("C12", "C15"):
    PROPS[_p]["engines"] = [_e2.engine]
    PROPS[_p]["e2"] = ["from_slice"]
    PROPS[_p]["trusted"] = E2_TRUST
    PROPS[_p]["functions"] = PROPS[_p]["functions"] + ["E2: AuthenticatorData::from_slice (MIR): length guard vs fixed-size reads, as 64-bit bit-vector queries"]
    PROPS[_p]["technique"] = "Kani/CBMC bounded model checking + symbolic path execution of rustc MIR with z3 bit-vector queries (from_slice length guard)"
PROPS["C15"]["functions"] += ["passkey_transports::hid::{PacketHeader::try_from, InitHeader::try_from, ContHeader::from, Message::{init,extend}, ChannelHandler::handle_packet}"]
PROPS["C15"]["stubs"] = ["std::collections::HashMap<u32, Message> -> 4-slot association list model (cfg(kani) only)"]
PROPS["C15"]["outside"] = ["CBOR and JSON decoders (ciborium / serde_json)", "inputs longer than the stated bounds", "Bytes / ignore_unknown_opt_vec visitors, COSE key converter, fingerprint parser (planned)",
                           "CTAPHID sequences of more than three packets"]

PROPS["C17"]["engines"] = [_e2.engine]
PROPS["C17"]["e2"] = ["u2f"]
PROPS["C17"]["trusted"] = E2_TRUST
PROPS["C17"]["functions"] += ["E2: <Authenticator as U2fApi>::{register, authenticate}::{closure#0} (MIR)"]
PROPS["C17"]["technique"] = "Kani/CBMC bounded model checking (encodings, frame parser) + symbolic path execution of rustc MIR with z3 (U2F register/authenticate control and data flow)"
PROPS["C17"]["outside"] = ["every signature clause (P-256)", "key handles longer than 8 bytes in the parser harness", "the bytes of the signature targets"]

prop("C10",
     title="Public-suffix lookups agree with the shipped list under the PSL algorithm",
     harnesses=[
         H("c10_table_node_fields_in_bounds", PS, bounds="every node index of the shipped table (symbolic index into NODES)"),
         H("c10_table_children_ranges", PS, bounds="every children index of the shipped table"),
         H("c10_table_text_is_ascii", PS, bounds="every byte offset of TEXT"),
         H("c10_node_label_no_panic", PS, bounds="every node index, real node_label"),
         H("c10_table_twin", PS, twin=True, bounds="every node index"),
         H("c10_syn_two_labels", PS, timeout=(1500, 3600), bounds="synthetic 5-node table (rules c, b.c, *.d, !a.d, *.b.d); every name L.L of two single-letter labels over {a,b,c,d,x}"),
         H("c10_syn_multibyte_label", PS, timeout=(1500, 3600), bounds="same table; the 4-byte names '\u00e9.L' for every letter L of {a,b,c,d,x}"),
         H("c10_syn_three_labels", PS, tier="thorough", timeout=(1500, 5400), bounds="same table; every name L.L.L of three single-letter labels over {a,b,c,d,x}"),
     ],
     prepare=[subst_psl_strings],
     functions=["ListProvider::<T>::{public_suffix, find, node_label}", "<ListProvider<T> as EffectiveTLDProvider>::effective_tld_plus_one",
                "the generated constants TLDList::{NODES, CHILDREN, TEXT, NUM_TLD}"],
     stubs=["str::rfind('.') (3 call sites) and the empty-label test starts_with / ends_with / contains(\"..\") (2 call sites) are rewritten, in the scratch copy only, to byte-loop models "
            "under cfg(kani) (natively: the std calls); everything else of public_suffix / find / node_label / effective_tld_plus_one is the real code, generic over a synthetic Table"],
     explanation="(a) well-formedness of the shipped table as one inductive step of 'no lookup can index out of bounds' (symbolic node / children / text "
                 "index into the real constants, real node_label on every node index); (b) the real lookup algorithm on a synthetic 5-node table containing a normal rule, a longer normal rule, "
                 "a wildcard rule, an exception rule and a wildcard rule nested below a wildcard, against a reference matcher: for every name of 2 (thorough: 3) single-letter labels the "
                 "public suffix has the right number of labels and starts at a label boundary, and the eTLD+1 has exactly one more label or is an error when there is none",
     outside=["rule-by-rule agreement of the 9.8k-rule compiled table with public_suffix_list.dat: a finite comparison of concrete lookups, a solver adds nothing "
              "to it and symbolic strings over the 30 kB TEXT constant are out of reach - NOT decided; a bit flip that keeps the table well-formed is not detected",
              "the lookup algorithm on longer names, multi-byte labels, four or more labels (7-byte names: CBMC > 16 GB), the std string-scanning functions themselves (modelled)",
              "Unicode input, sortedness of sibling labels"],
     level_text="PARTIAL claim: well-formedness of the shipped table, and the lookup algorithm on a synthetic table for names of up to 3 single-letter labels; the table's agreement with the .dat file is not decided.",
     )

SM = "utils::serde::verif_proofs"
BM = "utils::bytes::verif_proofs"
prop("C14",
     title="WebAuthn JSON parses leniently, re-parses when emitted, client data keeps order",
     harnesses=[
         H("c14_string_or_num_u32_integer_presentations", T, module=SM, bounds="all u32 values as u16/u32/u64/i64; all u64 > u32::MAX and all negative i64 rejected"),
         H("c14_string_or_num_integral_floats", T, module=SM, bounds="all integral floats k, 0 < |k| <= 70000, as f64 and f32, into i64 (algorithm ids) and u32 (timeouts)"),
         H("c14_string_or_num_twin", T, module=SM, twin=True, bounds="|k| <= 300"),
     ],
     functions=["StringOrNum::<T>::{visit_u8..visit_u64, visit_i8..visit_i64, visit_f32, visit_f64} for T = u32, i64"],
     stubs=[],
     explanation="equal numbers presented as integers of any width or as integral floats visit to the same value, out-of-range ones are rejected",
     outside=["serde_json parsing itself, unknown members / enumeration strings, numeric strings (str::parse), client-data member order, re-parsing of emitted credentials",
              "base64 / base64url presentations: data-encoding builds its 256-entry tables at run time (Encoding::specification / Specification::encoding); "
              "CBMC does not finish on them even for one-byte inputs (measured, unwind 260, 300 s)"],
     level_text="PARTIAL claim: the number-presentation kernel only.",
     )
PROPS["C15"]["harnesses"] += [
    H("c15_bytes_seq_size_hint_not_trusted", T, module=BM, bounds="Bytes visitor: 3 elements behind every announced length (None or any usize)"),
    H("c15_bytes_seq_twin", T, module=BM, twin=True, bounds="announced length 3"),
    H("c15_opt_vec_size_hint_not_trusted", T, module=SM, bounds="ignore_unknown_opt_vec: 3 elements behind every announced length"),
]
PROPS["C15"]["functions"] += ["<Bytes as Deserialize>::deserialize (visit_seq)", "utils::serde::ignore_unknown_opt_vec"]

PROPS["C01"]["engines"] = [_e2.engine]
PROPS["C01"]["e2"] = ["rp_id"]
PROPS["C01"]["trusted"] = E2_TRUST
PROPS["C01"]["functions"] += ["E2: RpIdVerifier::{assert_valid_rp_id, assert_android_rp_id} and their closures (MIR): provenance of the suffix provider's argument"]
PROPS["C01"]["technique"] = "Kani/CBMC bounded model checking (suffix relation, scheme, localhost, registrable domain) + symbolic path execution of rustc MIR (argument provenance of the suffix lookup)"

PROPS["C13"]["engines"] = [_e2.engine]
PROPS["C13"]["e2"] = ["dup_keys"]
PROPS["C13"]["trusted"] = E2_TRUST
PROPS["C13"]["functions"] += ["E2: the serde_workaround!-generated visit_map of HmacGetSecretInput, get_assertion::{Request,Response}, get_info::Response, make_credential::Request and set_if_none (MIR)"]
PROPS["C13"]["technique"] = "Kani/CBMC bounded model checking (status bytes) + symbolic path execution of rustc MIR (duplicate-member detection of the integer-keyed map visitors)"
PROPS["C13"]["explanation"] += " E2: on every path through one iteration of each generated visit_map, a member's value is read only after check_is_already_set for that key and only on paths whose condition contains that check succeeding (a dropped error is reported)."
PROPS["C13"]["outside"] = ["byte-level CBOR (ciborium) in both directions: integer keys on the wire, ordering, round trips", "unknown-key handling, defaults of absent members",
                           "more than one iteration of the key loop per path (the per-key check is local to an iteration)"]

PROPS["C02"]["engines"] = [_e2.engine]
PROPS["C02"]["e2"] = ["make_credential"]
PROPS["C02"]["trusted"] = E2_TRUST
PROPS["C02"]["functions"] += ["E2: Authenticator::make_credential::{closure#0} (MIR): provenance of the algorithm, key, credential id, rp_id and of the value saved"]
PROPS["C02"]["technique"] = "Kani/CBMC bounded model checking (algorithm choice, id length) + symbolic path execution of rustc MIR (data flow of make_credential)"
PROPS["C02"]["explanation"] += " E2: in make_credential the algorithm comes from the request's list through choose_algorithm (error before any key generation / store call), the key pair is generated for it, and the one credential saved holds that private key, the freshly generated id (of non-constant length) and the request's rp.id, which is also what the authenticator data is built for."
PROPS["C02"]["level_text"] = "PARTIAL claim: the algorithm-choice and credential-id-length kernels (E1) and the data flow of make_credential (E2); the cryptographic and encoding clauses of the registration result are outside the claim."

prop("C19",
     title="Shared-store concurrency never reuses a counter or loses a credential",
     engine="mirsym",
     engines=[_e2.engine], e2=["concurrency"],
     functions=["Authenticator::get_assertion::{closure#0} (MIR)", "<Arc<tokio::sync::Mutex<S>> as CredentialStore>::{find_credentials, update_credential} (MIR)",
                "<Arc<tokio::sync::RwLock<S>> as CredentialStore>::{find_credentials, update_credential} (MIR)"],
     stubs=["every callee is an environment event; each store call through a lock wrapper is one atomic step (checked on the wrappers' MIR: the guard is taken and released inside the call)"],
     explanation="assert/assert on one credential: from the MIR, the counter is read by the lookup and written by a separate update call with a suspension point between them, and the "
                 "lock wrappers lock per call (one acquisition, forwarded once, result unchanged); the counter step is extracted from the MIR; z3 decides over every order of the ceremonies' "
                 "read/write steps (each ceremony's own order kept, all 2^32 start values): (a) two ceremonies one after the other never report the same counter, (b) two overlapping ones, "
                 "(c) three ceremonies: the stored value is the largest reported; satisfying schedules are replayed natively with authenticators sharing Arc<Mutex<store>> / "
                 "Arc<RwLock<store>> and explicit polling",
     outside=["deadlock freedom beyond 'one lock acquisition per wrapper call'", "register/register and assert/register interleavings (lost credentials)", "more than three concurrent ceremonies",
              "real multi-threaded schedulers (the replay uses explicit single-threaded polling)"],
     level_text="PARTIAL claim: the pairwise-distinct-counters clause for two concurrent assertions and the forwarding / single-acquisition shape of the lock wrappers; deadlock freedom in general and interleaved registrations are not decided.",
     technique="symbolic path execution of rustc MIR (read / suspend / write structure, lock scope) + z3 query over all interleavings of two ceremonies' atomic steps, native replay",
     trusted=E2_TRUST,
     )

prop("C03",
     title="Authentication returns a signature that verifies and is bound to the ceremony",
     engine="mirsym",
     engines=[_e2.engine], e2=["get_assertion"],
     functions=["Authenticator::get_assertion::{closure#0} (coroutine body, MIR)"],
     stubs=["every callee is an environment event: ECDSA signing, DER encoding, SHA-256, AuthenticatorData's constructor / setters / to_vec and the COSE-key conversion are NOT examined, "
            "only which values flow into and out of them"],
     explanation="data-flow binding on every successful path of get_assertion (all request flags, all Ok/Err/Pending outcomes of the calls): exactly one signature is made; its key is converted "
                 "from the key field of the credential that came out of the lookup and that credential is the one named in the response; the signed buffer starts as the serialisation of exactly "
                 "the authenticator data value that is returned and is extended exactly once, by the request's client data hash, and touched by nothing else; that authenticator data is built "
                 "for the request's rp_id and never given attested credential data; the returned signature bytes descend from that signature. Violations are replayed natively with real "
                 "P-256 keys: the replay verifies the returned signature as a relying party would",
     outside=["that the ECDSA signature verifies as mathematics (p256 crate), SHA-256, DER, the byte layout of AuthenticatorData::to_vec (decided under C12)",
              "the client layer: client data JSON (type, challenge, origin), effective RP ID (C01), id/rawId agreement in the WebAuthn response",
              "user handle (decided under C11)", "U2F authenticate (C17)"],
     level_text="PARTIAL claim: the authenticator-level binding of signature, key, credential id, authenticator data and client data hash; cryptography and the client layer are not decided.",
     technique="symbolic path execution of rustc MIR with z3 path feasibility (own encoder): provenance of the arguments of the signing call on every path; native replay with real signature verification",
     trusted=E2_TRUST,
     )

prop("C06",
     title="Private keys and PRF secrets never appear in anything handed back to callers",
     engine="mirsym",
     engines=[_e2.engine], e2=["secrecy"],
     functions=["Authenticator::get_assertion::{closure#0}, Authenticator::make_credential::{closure#0}, U2fApi::register / authenticate (coroutine bodies, MIR)",
                "CoseKeyPair::from_secret_key (MIR)", "<Passkey as Debug>::fmt (MIR)", "<PublicKeyCredentialDescriptor as From<Passkey>> / From<&Passkey> (MIR)"],
     stubs=["every callee is an environment event; declassifying calls (what they output is not examined here): ECDSA sign, verifying_key (public-key derivation), "
            "get_extensions (its PRF outputs are decided to be the HMAC under C09)"],
     explanation="information-flow (taint) question on every path, all request flags and all Ok/Err/Pending outcomes of the calls: the Ok and Err values of get_assertion, make_credential, "
                 "U2F register and U2F authenticate depend on the credential's COSE key parameters, on the generated secret key, on the private half of the key pair and on the stored PRF "
                 "secrets only through the declassifying calls (results of calls are followed into their arguments and into what their reference arguments point to); the public half built "
                 "by from_secret_key depends on the secret key only through verifying_key; <Passkey as Debug>::fmt and the Passkey -> descriptor conversions touch no place covering the key "
                 "parameters or the extension secrets. Every run also performs the native scan (real ceremonies at CTAP2, U2F and WebAuthn-client level; 21 renderings: Debug, pretty Debug, CBOR, "
                 "JSON, encoded U2F; searched for each secret in raw, hex, decimal-list, base64 and base64url form at every alignment) as the replay of any finding and as a check of the scanner",
     outside=["the Debug / Serialize implementations of the response types themselves (covered only by the native scan of one ceremony each)", "what the extension processing outputs (C09)",
              "the client layer's own code (it never holds a Passkey)", "side channels, memory after drop (zeroize)", "values handed to the UserValidationMethod and the CredentialStore (by design they receive the Passkey)"],
     level_text="PARTIAL claim: an information-flow argument on the MIR of the ceremonies, the key-pair builder, Passkey's Debug and the descriptor conversions; serialisers of response types are only scanned natively.",
     technique="symbolic path execution of rustc MIR with z3 path feasibility (own encoder): taint propagation through call arguments and pointees on every path; native replay = scan of all renderings",
     trusted=E2_TRUST,
     )

# client layer of C02 / C03: data flow of Client::register / Client::authenticate
PROPS["C02"]["e2"] = ["make_credential", "client_register"]
PROPS["C02"]["functions"] += ["E2: passkey-client Client::register::{closure#0} and its client-data-hash closure (MIR)", "E2: <Origin as Display>::fmt (MIR)"]
PROPS["C02"]["explanation"] += (" Client layer (E2, every successful path of Client::register): the collected client data has type Create, challenge = base64url(request.challenge) and "
                                "origin = Display of the caller's origin (whose Web rendering depends on scheme, host and port); it is serialised once and that string is both what is "
                                "hashed (unless the caller supplies a hash) and what is returned; assert_domain gets the caller's origin and the request's RP ID and its result is the "
                                "RP ID sent to the authenticator; user, exclude list and algorithm list (default list only for an empty one) come from the request; up = true; "
                                "authenticator data, attestation object, DER key and algorithm all descend from the authenticator's auth_data; id = base64url of the bytes returned as "
                                "rawId = the attested credential id. Violations are replayed by a native relying-party check of a real registration (9 request variants).")
PROPS["C02"]["outside"] = ["P-256 / SHA-256 / DER / COSE / CBOR / JSON encoders themselves (environment calls; the native relying-party check exercises them on 9 concrete ceremonies only)",
                           "the contents of the cbor! attestation-object literal (fmt, attStmt)", "extension processing", "store contents after success beyond the credential saved (C07)"]
PROPS["C02"]["level_text"] = ("PARTIAL claim: algorithm-choice and id-length kernels (E1), data flow of make_credential and of Client::register (E2); the encoders and the cryptography "
                              "are environment calls and are not decided.")
PROPS["C02"]["technique"] = "Kani/CBMC bounded model checking (algorithm choice, id length) + symbolic path execution of rustc MIR (data flow of make_credential and Client::register), native replay"
PROPS["C03"]["e2"] = ["get_assertion", "client_authenticate"]
PROPS["C03"]["functions"] += ["passkey-client Client::authenticate::{closure#0} and its client-data-hash closure (MIR)", "<Origin as Display>::fmt (MIR)"]
PROPS["C03"]["explanation"] += (" Client layer (every successful path of Client::authenticate): client data of type Get with base64url(request.challenge) and the caller's origin, serialised "
                                "once, hashed (unless the caller supplies a hash) and returned; assert_domain's result is the RP ID sent; allow list = the request's; up = true; the returned "
                                "authenticator data, signature and user handle are the authenticator's; id = base64url(rawId) and rawId = the id of the credential in the authenticator's answer.")
PROPS["C03"]["outside"] = ["that the ECDSA signature verifies as mathematics (p256 crate), SHA-256, DER, JSON serialisation, the byte layout of AuthenticatorData::to_vec (C12)",
                           "extension processing", "U2F authenticate (C17)"]
PROPS["C03"]["level_text"] = ("PARTIAL claim: the binding of signature, key, credential id, authenticator data and client data hash in get_assertion and what Client::authenticate sends and "
                              "returns, as data flow; cryptography and encoders are environment calls and are not decided.")

# round 4: write contract of the shipped stores (C07: save, C08: update); section bits of the AuthenticatorData setters (C12)
PROPS["C07"]["e2"] = PROPS["C07"]["e2"] + ["store_writes"]
PROPS["C08"]["e2"] = PROPS["C08"]["e2"] + ["store_writes"]
PROPS["C07"]["functions"] += ["<MemoryStore / Option<Passkey> as CredentialStore>::save_credential::{closure#0} (MIR)"]
PROPS["C08"]["functions"] += ["<MemoryStore / Option<Passkey> as CredentialStore>::update_credential::{closure#0} (MIR)"]
PROPS["C07"]["explanation"] += " Shipped stores: save_credential answers Ok only on paths that unconditionally put the given credential into the store."
PROPS["C08"]["explanation"] += (" Shipped stores: update_credential answers Ok only on paths that unconditionally put the given credential into the store (HashMap::insert keyed by "
                                "its own id / Option::replace), so the value reported is the value held.")
PROPS["C12"]["e2"] = PROPS["C12"]["e2"] + ["setters"]
PROPS["C12"]["functions"] += ["E2: AuthenticatorData::{set_attested_credential_data, set_make_credential_extensions, set_assertion_extensions} (MIR)"]
PROPS["C12"]["explanation"] += (" E2 (setters): on every returning path of the three section setters the section field is written to Some(..) exactly when the matching bit (AT / ED) "
                                "is or-ed into the flags, and never the other bit; replayed natively with real sections (encode, inspect bits, decode, re-encode).")

# round 4: the COSE public-key converter (named in C15's statement)
PROPS["C15"]["e2"] = PROPS["C15"]["e2"] + ["fixed_slices"]
PROPS["C15"]["functions"] += ["E2: passkey_authenticator::public_key_der_from_cose_key / private_key_from_cose_key (MIR)"]
PROPS["C15"]["explanation"] += (" E2 (COSE converter): on every path of public_key_der_from_cose_key that reaches GenericArray::from_slice (which panics on a length mismatch; locals "
                                "assigned inside closures are treated as arbitrary after the call that runs the closure; at most 4 visits of the parameter loop) z3 is asked whether the "
                                "branch conditions allow a vector length other than the array length (32).")

# round 4 (batch B): which members are required / defaulted (C13); the lenient base64 wrappers (C14)
PROPS["C13"]["e2"] = PROPS["C13"]["e2"] + ["requiredness"]
PROPS["C13"]["explanation"] += (" E2 (requiredness): in each generated visit_map, on the paths through the end of the map, exactly the members the CTAP specification requires "
                                "(table in mirsym/checks.py: makeCredential 1-4, getAssertion 1-2, getInfo 1 and 3, hmac-secret input 1-3) are resolved through "
                                "ok_or_else(missing_field), all others through unwrap_or_default; replayed natively by decoding maps that hold only the required members (defaults up=true, "
                                "rk=uv=false) and maps with one required member removed.")
PROPS["C14"]["engines"] = [_e2.engine]
PROPS["C14"]["e2"] = ["base64"]
PROPS["C14"]["trusted"] = E2_TRUST
PROPS["C14"]["functions"] = PROPS["C14"].get("functions", []) + ["E2: passkey_types::encoding::{base64, base64url, try_from_base64, try_from_base64url} (MIR)"]
PROPS["C14"]["explanation"] += (" E2 (base64 wrappers): the two decoders strip trailing padding with trim_end_matches and decode that with an encoding that expects no padding (BASE64_NOPAD, or a "
                                "Specification whose padding is None); the two encoders use the NOPAD encodings. The data-encoding crate itself is an environment call; replayed natively: 192 "
                                "textual presentations (standard / url-safe, padded / unpadded) of byte strings of length 0..=7, byte arrays, and encode-decode inverses.")
PROPS["C14"]["level_text"] = "PARTIAL claim: the number-presentation kernel (E1) and the shape of the four base64 wrappers (E2); serde_json parsing of the option structures is not decided."
PROPS["C14"]["technique"] = "Kani/CBMC bounded model checking (StringOrNum) + symbolic path execution of rustc MIR (base64 wrappers), native replay"

# round 5
PROPS["C11"]["e2"] = PROPS["C11"]["e2"] + ["client_register"]
PROPS["C11"]["functions"] += ["E2: passkey-client Client::register::{closure#0} (the arguments of registration_extension_outputs)"]
PROPS["C11"]["explanation"] += (" E2 (client): in Client::register the credProps outputs are computed from the store's own get_info answer and from the very rk value (map_rk's result) that "
                                "was sent to the authenticator; replayed natively over 3 store capabilities x 5 resident-key requests x 3 user-verification requests with credProps requested.")
PROPS["C19"]["explanation"] += (" Registrations: make_credential reports success only after an accepted save_credential call (one atomic step through the wrappers).")

# round 6
PROPS["C02"]["e2"] = PROPS["C02"]["e2"] + ["store_writes"]
PROPS["C02"]["explanation"] += " Shipped stores: save_credential adds the credential and removes nothing (\"exactly one credential is added\")."
