"""Registry: which harnesses decide which property, at which tier, with which bounds.

H(name, ...) fields
  crate     cargo package the harness is spliced into
  tier      "quick" (run in both tiers) or "thorough" (thorough only)
  twin      True: reachability twin, must FAIL on its final assert!(false)
  bounds    human-readable bound of this instance (goes to the evidence)
  timeout   per-harness CBMC time cap in seconds for (quick, thorough)
  features  cargo features needed
"""


class H:
    def __init__(self, name, crate, tier="quick", twin=False, bounds="", timeout=(300, 3600),
                 features=(), module=None, expect_fail=False):
        self.name = name
        self.crate = crate
        self.tier = tier
        self.twin = twin
        self.bounds = bounds
        self.timeout = timeout
        self.features = tuple(features)
        self.module = module or DEFAULT_MODULE.get(crate, "verif_proofs")

    @property
    def path(self):
        return "%s::%s" % (self.module, self.name)


T = "passkey-types"
A = "passkey-authenticator"
CL = "passkey-client"
TR = "passkey-transports"
PS = "public-suffix"

PROPS = {}
DEFAULT_MODULE = {"passkey-transports": "hid::verif_proofs"}


def subst_hashmap(ws):
    """std HashMap -> association-list model under cfg(kani) in the scratch copy of hid.rs (F4)."""
    ok = ws.substitute("passkey-transports/src/hid.rs", "use std::collections::HashMap;",
                       "#[cfg(not(kani))]\nuse std::collections::HashMap;\n#[cfg(kani)]\nuse crate::verif_model::HashMap;")
    if not ok:
        return "hid.rs no longer imports std::collections::HashMap by the expected line: channel-table harnesses cannot be built"
    return None


def prop(pid, **kw):
    PROPS[pid] = kw


prop("C13",
     title="CTAP2 integer keys, CBOR round trip, status bytes",
     harnesses=[
         H("c13_status_roundtrip", T, bounds="all 256 status bytes"),
         H("c13_status_roundtrip_twin", T, twin=True, bounds="all 256 status bytes"),
         H("c13_status_known_values", T, bounds="all 256 bytes x both enum tables"),
         H("c13_options_default", T, bounds="no input"),
     ],
     functions=["passkey_types::ctap2::StatusCode::from(u8)", "u8::from(StatusCode)",
                "Ctap2Code::try_from(u8)", "Ctap2Error/U2FError/ExtensionError/VendorError/UnknownSpecError::try_from(u8)",
                "make_credential::Options::default"],
     stubs=[],
     explanation="Kani/CBMC decides, on the compiled real code, the status-byte clauses of C13 for every one of the "
                 "256 byte values (no unwinding needed: loop-free).",
     outside=["byte-level CBOR (ciborium) in both directions", "duplicate/unknown-key handling on decode"],
     )

prop("C15",
     title="Decoders of untrusted input never crash or allocate out of proportion",
     prepare=[subst_hashmap],
     harnesses=[
         H("c15_u2f_request_no_panic", T, bounds="every byte string of length 0..=80, unwind 12"),
         H("c15_u2f_request_no_panic_twin", T, twin=True, bounds="same"),
         H("c15_hid_header_any_len", TR, bounds="one packet, every length 0..=70, all contents"),
         H("c15_hid_one_packet_any_len", TR, bounds="fresh handler, one packet of every length 0..=70, all contents"),
         H("c15_hid_one_packet_any_len_twin", TR, twin=True, bounds="same"),
         H("c15_hid_two_packets_any_len", TR, bounds="two packets, each of every length 0..=70, all contents, any channels"),
         H("c15_hid_three_packets_64", TR, bounds="three 64-byte packets, all contents"),
     ],
     functions=["passkey_types::u2f::Request::try_from(&[u8])", "RegisterRequest::try_from",
                "AuthenticationRequest::try_from", "AuthenticationParameter::from(u8)"],
     stubs=[],
     explanation="arbitrary symbolic buffers are fed to the real decoders; every panic, arithmetic overflow and "
                 "out-of-bounds access is a CBMC property check",
     outside=["CBOR and JSON decoders (ciborium / serde_json)", "inputs longer than the stated bounds"],
     )

import itertools


def _scheds(k):
    base = sum([[i, i] for i in range(k)], [])
    return sorted(set(itertools.permutations(base)))


def _c16_harnesses():
    hs = []
    for n in (0, 1, 56, 57, 58, 115, 116, 117, 175):
        tier = "quick" if n in (0, 1, 56, 57, 58, 116) else "thorough"
        hs.append(H("c16_sender_len_%d" % n, TR, tier=tier, timeout=(400, 3600),
                    bounds="payload length exactly %d; all channel ids, all 9 commands, all payload bytes: bytes written by Message::send == reference wire image" % n))
    for n in (0, 1, 56, 57, 58, 115, 116, 117, 174, 175, 176, 234, 293):
        tier = "quick" if n in (0, 1, 56, 57, 58, 115, 116, 117, 175) else "thorough"
        hs.append(H("c16_handler_len_%d" % n, TR, tier=tier,
                    bounds="payload length exactly %d; channel id and command fixed, all payload bytes: reference wire image -> real ChannelHandler" % n))
    for n in (0, 1, 56, 57, 58, 115, 116):
        hs.append(H("c16_recv_len_%d" % n, TR,
                    bounds="payload length exactly %d; all channel ids, command fixed, all payload bytes; Message::init/extend without the channel table" % n))
    hs += [
        H("c16_handler_twin", TR, twin=True, bounds="payload length 58"),
        H("c16_sender_twin", TR, twin=True, bounds="payload length 58"),
        H("c16_header_parse_all", TR, bounds="all channel ids, all 9 commands, every declared length 0..=65535, all body bytes; all sequence numbers 0..=127"),
        H("c16_command_bytes", TR, bounds="all 9 commands, all 256 raw bytes"),
        H("c16_new_size_validation", TR, bounds="every payload length 0..=70000 (contents irrelevant to Message::new)"),
        H("c16_new_size_validation_twin", TR, twin=True, bounds="same"),
        H("c16_extend_inductive_step", TR, bounds="one extend step from every receiver state with sequence <= 127, 57+59*sequence < payload_len <= 7609; lengths, flags and sequence number (no content reads)"),
        H("c16_extend_step_content_seq0", TR, bounds="extend step at sequence 0, every payload_len 58..=7609, all 59 data bytes, content compared"),
        H("c16_extend_step_content_seq1", TR, bounds="extend step at sequence 1, every payload_len, content compared"),
        H("c16_extend_step_content_seq5", TR, tier="thorough", bounds="extend step at sequence 5, every payload_len, content compared"),
        H("c16_extend_rejects_wrong_seq_or_channel", TR, bounds="same states; every other (channel, seq) pair"),
        H("c16_stray_continuation_seq0", TR, bounds="continuation packet (seq 0, all data bytes) for an idle channel, before and while another channel's message is in progress"),
        H("c16_stray_continuation_seq1", TR, bounds="continuation packet (seq 1, all data bytes) for an idle channel while another channel's message is in progress"),
        H("c16_out_of_order_same_channel", TR, bounds="continuation with the wrong sequence number on the busy channel, all data bytes"),
    ]
    for sc in _scheds(2):
        hs.append(H("c16_interleave2_" + "".join(map(str, sc)), TR,
                    timeout=(400, 3600), bounds="2 channels (fixed distinct ids), 60-byte 2-packet messages with all payload bytes, schedule %s" % (sc,)))
    for sc in _scheds(3):
        hs.append(H("c16_interleave3_" + "".join(map(str, sc)), TR, tier="thorough",
                    bounds="3 channels, 2-packet messages with all payload bytes, schedule %s" % (sc,)))
    return hs


prop("C16",
     title="CTAPHID fragmentation and reassembly preserve every message, per channel",
     prepare=[subst_hashmap],
     harnesses=_c16_harnesses(),
     functions=["passkey_transports::hid::Message::{new,send,to_packets,init,extend,is_complete}",
                "PacketHeader::{encode,try_from,len}", "InitHeader::{try_from,encode}", "ContHeader::{from,encode}",
                "ChannelHandler::handle_packet", "Command::{encode,try_from}"],
     stubs=["std::collections::HashMap<u32, Message> -> 4-slot association list model (passkey-transports/src/verif_model.rs, cfg(kani) only)"],
     explanation="sender -> 64-byte wire image -> receiver on the real code, one harness per concrete payload length around "
                 "every packet boundary, with all other inputs symbolic; long messages by one inductive extend step; channel "
                 "table with the interleaving as a symbolic schedule",
     outside=["payload lengths other than the listed instances are covered end-to-end only by the inductive step + the size validation",
              "the real std HashMap is trusted to behave as a map", "four concurrently transmitting channels"],
     )
