"""Registry: which harnesses decide which property, at which tier, with which bounds.

H(name, ...) fields
  crate     cargo package the harness is spliced into
  tier      "quick" (run in both tiers) or "thorough" (thorough only)
  twin      True: reachability twin, must FAIL on its final assert!(false)
  bounds    human-readable bound of this instance (goes to the evidence)
  timeout   per-harness CBMC time cap in seconds for (quick, thorough)
  features  cargo features needed
"""


class H:
    def __init__(self, name, crate, tier="quick", twin=False, bounds="", timeout=(300, 3600),
                 features=(), module="verif_proofs", expect_fail=False):
        self.name = name
        self.crate = crate
        self.tier = tier
        self.twin = twin
        self.bounds = bounds
        self.timeout = timeout
        self.features = tuple(features)
        self.module = module

    @property
    def path(self):
        return "%s::%s" % (self.module, self.name)


T = "passkey-types"
A = "passkey-authenticator"
CL = "passkey-client"
TR = "passkey-transports"
PS = "public-suffix"

PROPS = {}


def prop(pid, **kw):
    PROPS[pid] = kw


prop("C13",
     title="CTAP2 integer keys, CBOR round trip, status bytes",
     harnesses=[
         H("c13_status_roundtrip", T, bounds="all 256 status bytes"),
         H("c13_status_roundtrip_twin", T, twin=True, bounds="all 256 status bytes"),
         H("c13_status_known_values", T, bounds="all 256 bytes x both enum tables"),
         H("c13_options_default", T, bounds="no input"),
     ],
     functions=["passkey_types::ctap2::StatusCode::from(u8)", "u8::from(StatusCode)",
                "Ctap2Code::try_from(u8)", "Ctap2Error/U2FError/ExtensionError/VendorError/UnknownSpecError::try_from(u8)",
                "make_credential::Options::default"],
     stubs=[],
     explanation="Kani/CBMC decides, on the compiled real code, the status-byte clauses of C13 for every one of the "
                 "256 byte values (no unwinding needed: loop-free).",
     outside=["byte-level CBOR (ciborium) in both directions", "duplicate/unknown-key handling on decode"],
     )

prop("C15",
     title="Decoders of untrusted input never crash or allocate out of proportion",
     harnesses=[
         H("c15_u2f_request_no_panic", T, bounds="every byte string of length 0..=80, unwind 12"),
         H("c15_u2f_request_no_panic_twin", T, twin=True, bounds="same"),
     ],
     functions=["passkey_types::u2f::Request::try_from(&[u8])", "RegisterRequest::try_from",
                "AuthenticationRequest::try_from", "AuthenticationParameter::from(u8)"],
     stubs=[],
     explanation="arbitrary symbolic buffers are fed to the real decoders; every panic, arithmetic overflow and "
                 "out-of-bounds access is a CBMC property check",
     outside=["CBOR and JSON decoders (ciborium / serde_json)", "inputs longer than the stated bounds"],
     )
