#!/bin/bash
# Offline setup: nothing to build ahead of time (the checks build a scratch copy of /repo per run).
# Verifies that the tools the checks need are present.
set -e
cd "$(dirname "$0")"
command -v cargo-kani >/dev/null || { echo "cargo-kani missing"; exit 1; }
command -v cbmc >/dev/null || { echo "cbmc missing"; exit 1; }
command -v z3 >/dev/null || { echo "z3 missing"; exit 1; }
command -v rsync >/dev/null || { echo "rsync missing"; exit 1; }
python3 -c "import json,re,subprocess" 
mkdir -p evidence replays_out
echo "setup ok"
